"""C10 — the conversion cache is coherent, converts once, and is thread-safe.

Tie: TRACE VALIDATION.  api._TRANSPILER is replaced by a fresh api.PyToPy() whose `_cache._cache`
(WeakKeyDictionary) and `_cache_lock` are logging proxies and whose `transform_ast` / `instantiate`
are wrapped (c10_world.py); request histories run from 1..32 threads with randomised start barriers,
yields at every dictionary operation and random sys.setswitchinterval; the globally ordered event log
is fed to the Lean model (`cache-validate`), which must accept it as one of its executions and predicts
each outcome.  Direct oracle: every returned function behaves like a cache-less reference conversion
(fresh api.PyToPy()) of exactly that function object under exactly those options, `transform_ast` ran
at most once per (code object, options), no request raises.
"""
import gc, json, multiprocessing, os, random, shutil, sys, tempfile, threading, time, traceback
import common
from common import sexp, parse_sexp
import c10_world as W

MODEL_FILES = ['MaltModel/Generated/CacheLock.lean', 'MaltModel/Rt/Cache.lean', 'MaltModel/Proofs/C10Basic.lean', 'MaltModel/Proofs/C10Result.lean', 'MaltModel/Proofs/C10Progress.lean',
               'MaltModel/Proofs/C10Inv.lean', 'MaltModel/Proofs/C10Refine.lean', 'MaltModel/Drv/C10.lean']
CLS_SIG = 'shared_code_different_namespace_directive_resolution'
CLS_EQ = 'equal_code_objects_distinct_identity'
SWITCH = [1e-6, 5e-6, 2e-5, 1e-4, 5e-4, 5e-3]


# ----------------------------------------------------------------------------------------------
# history plans
# ----------------------------------------------------------------------------------------------

def make_spec(rng, tier, index):
    flavour = rng.choices(['clean', 'sig', 'equal', 'mixed'], weights=[60, 14, 14, 12])[0]
    nthreads = rng.choice([1, 2, 2, 3, 4, 4, 6, 8, 12, 16, 24, 32])
    per = max(3, min(14, (90 if tier == 'quick' else 140) // nthreads))
    return {'seed': rng.randrange(1 << 30), 'index': index, 'flavour': flavour, 'nthreads': nthreads,
            'per_thread': per, 'switch': rng.choice(SWITCH), 'yield_p': rng.choice([0.0, 0.05, 0.2, 0.5]),
            'nopts': rng.choice([1, 2, 3, 4])}


def build_plan(spec, world):
    """Pool + per-thread programs, a pure function of spec['seed']."""
    rng = random.Random(spec['seed'])
    fl = spec['flavour']
    n = spec['nthreads']
    kinds = ['closure', 'loop', 'method', 'lambda', 'callee', 'wrapped', 'listy', 'listy']
    shared = [world.new_group(rng.choice(kinds)) for _ in range(rng.choice([1, 2, 3]))]
    if rng.random() < 0.25:
        shared.append(world.new_group('broken'))
    sib = None
    if rng.random() < 0.5:
        sib = len(shared)
        shared.append(world.new_group('siblings'))
    if fl in ('sig', 'mixed'):
        shared.append(world.new_group(rng.choice(['directive', 'directive_closure'])))
    for g in shared:
        g.load()
    opts = [W.BASE_OPT] + rng.sample(W.OPT_VARIANTS[1:], spec['nopts'] - 1)
    if any(g.kind == 'listy' for g in shared):
        # option sets that differ in exactly the optional passes these functions exercise
        for o in ((True, True, True, ('LISTS',)), (True, True, True, ('ASSERT_STATEMENTS',))):
            if o not in opts:
                opts.append(o)
    if rng.random() < 0.6 and W.OPT_VARIANTS[2] not in opts:
        opts.append(W.OPT_VARIANTS[2])       # differs from the base only in user_requested (= what callees get)
    private = {}
    # private (droppable) groups; in the `equal` flavours several threads exec the very same text
    twin_params = {'g': rng.randrange(1, 50), 'c': rng.randrange(1, 9), 'd': rng.randrange(1, 9)}
    twin_kind = rng.choice(['closure', 'loop'])
    for t in range(n):
        if rng.random() < (0.8 if n <= 4 else 0.35):
            if fl in ('equal', 'mixed') and rng.random() < 0.8:
                g = world.new_group(twin_kind, twin_params, name='twin_t%d' % t)
                g.twin = True
            else:
                g = world.new_group(rng.choice(['closure', 'loop', 'inplace', 'inplace']), name='priv_t%d' % t)
                g.twin = False
                g.inplace = True      # a changed definition keeps its file, line and name
            g.load()
            private[t] = g
    progs = []
    for t in range(n):
        prog = []
        alive = t in private
        for _ in range(spec['per_thread']):
            x = rng.random()
            if t in private and x < 0.12:
                if alive:
                    prog.append(('drop',)); alive = False
                else:
                    # same text again (new, equal-valued code object) only in the `equal` flavours
                    same = private[t].twin
                    prog.append(('reload', same)); alive = True
                continue
            if sib is not None and rng.random() < 0.15:
                opt = rng.choice([o for o in opts if o[2]] or [W.BASE_OPT])
                prog.append(('pair', sib, opt, 'to_graph' if (opt[1] and rng.random() < 0.6) else 'actual'))
                continue
            if t in private and alive and x < 0.45:
                gi, g = 'p', private[t]
            else:
                gi = rng.randrange(len(shared)); g = shared[gi]
                if g.kind == 'siblings':
                    gi = 0; g = shared[0]
            nf = {'closure': 5, 'listy': 2, 'callee': 4, 'inplace': 2, 'wrapped': 3, 'loop': 4, 'directive': 2, 'directive_closure': 2, 'method': 3, 'lambda': 2,
                  'broken': 2}[g.kind]
            fi = rng.randrange(nf)
            opt = rng.choice(opts)
            route = rng.choice(W.routes_for(opt))
            prog.append(('req', gi, fi, opt, route))
        progs.append(prog)
    return shared, private, progs


def run_history(spec):
    """Runs in a worker process.  Returns a JSON-able result."""
    t00 = time.time()
    scratch = tempfile.mkdtemp(prefix='c10_')
    old_sw = sys.getswitchinterval()
    old_tmp = tempfile.tempdir
    tempfile.tempdir = scratch          # malt's loader writes its generated modules to the temp directory
    try:
        world = W.World(spec['seed'], scratch)
        shared, private, progs = build_plan(spec, world)
        rec = W.Recorder(spec['seed'], spec['yield_p'])
        world.rec = rec
        verdicts = []
        n = spec['nthreads']
        barrier = threading.Barrier(n)
        jit = random.Random(spec['seed'] ^ 0x5bd1)
        delays = [jit.random() * jit.choice([0, 1e-4, 1e-3]) for _ in range(n)]
        errors = []

        def worker(t):
            try:
                rec.register_thread(t)
                barrier.wait()
                time.sleep(delays[t])
                for j, act in enumerate(progs[t]):
                    if act[0] == 'drop':
                        private[t].drop()
                    elif act[0] == 'pair':
                        where = {'thread': t, 'index': j, 'req_pos': len(rec.requests.get(t, []))}
                        W.do_pair(world, shared[act[1]], act[2], act[3], verdicts, where)
                    elif act[0] == 'reload':
                        g = private[t]
                        if not act[1]:
                            g.params['c'] += 10      # a changed definition
                        g.load()
                    else:
                        _, gi, fi, opt, route = act
                        g = private[t] if gi == 'p' else shared[gi]
                        entry = g.fns[fi]
                        where = {'thread': t, 'index': j, 'req_pos': len(rec.requests.get(t, []))}
                        W.do_request(world, entry, opt, route, verdicts, where)
            except BaseException:    # noqa
                errors.append(traceback.format_exc())

        sys.setswitchinterval(spec['switch'])
        with W.Installed(rec):
            ths = [threading.Thread(target=worker, args=(t,), daemon=True) for t in range(n)]
            for th in ths:
                th.start()
            # a history hangs only if NO event is logged for a long time (the machine may be heavily loaded)
            t_start = time.time()
            last_n, last_t = -1, time.time()
            hung = []
            while any(th.is_alive() for th in ths):
                for th in ths:
                    th.join(0.05)
                n_ev = len(rec.events)
                now = time.time()
                if n_ev != last_n:
                    last_n, last_t = n_ev, now
                elif now - last_t > float(os.environ.get('C10_STALL', '240')):
                    hung = [i for i, th in enumerate(ths) if th.is_alive()]
                    break
                if now - t_start > 2400:
                    raise common.InfraError('history %s still running after 2400 s' % spec.get('index'))
        sys.setswitchinterval(old_sw)
        if hung:
            verdicts.append({'what': 'history did not terminate (threads %s blocked, no cache event for 240 s)' % hung,
                             'thread': hung[0], 'index': -1, 'req_pos': -1})
        return package(spec, rec, verdicts, errors, time.time() - t00)
    finally:
        sys.setswitchinterval(old_sw)
        tempfile.tempdir = old_tmp
        shutil.rmtree(scratch, ignore_errors=True)


def run_firstrace(spec):
    """Stress of the FIRST request for a function: in every trial a brand-new function (new code object) is
    requested by all threads at once (start barrier, switch interval 1e-6, no extra yields), so that the threads
    race through the lock-free check and the acquisition of the lock.  transform_ast must still run once."""
    t00 = time.time()
    scratch = tempfile.mkdtemp(prefix='c10_')
    old_sw = sys.getswitchinterval()
    old_tmp = tempfile.tempdir
    tempfile.tempdir = scratch
    try:
        world = W.World(spec['seed'], scratch)
        rec = W.Recorder(spec['seed'], 0.0)
        world.rec = rec
        rng = random.Random(spec['seed'])
        n, trials = spec['nthreads'], spec['trials']
        verdicts, errors, cur = [], [], [None]
        fuzz, codes = False, []
        b1, b2 = threading.Barrier(n + 1, timeout=300), threading.Barrier(n + 1, timeout=300)

        def worker(t):
            try:
                rec.register_thread(t)
                for k in range(trials):
                    b1.wait()
                    where = {'thread': t, 'index': k, 'req_pos': len(rec.requests.get(t, []))}
                    W.do_request(world, cur[0], W.BASE_OPT, 'to_graph', verdicts, where)
                    b2.wait()
            except BaseException:    # noqa
                errors.append(traceback.format_exc())
                b1.abort(); b2.abort()

        # schedule fuzzing at LINE granularity: a possible thread switch (a short sleep) at every line of every method
        # of the transpiler and cache classes (whatever methods they have), on top of the switch interval
        from malt.pyct import transpiler as _tp, cache as _cm
        mon = sys.monitoring
        tool, codes, lrng = 4, [], threading.local()
        for cls in (_tp.PyToPy, _cm._TransformedFnCache, _cm.CodeObjectCache):
            for v in vars(cls).values():
                c = getattr(v, '__code__', None)
                if c is not None:
                    codes.append(c)

        def on_line(code, line):
            r = getattr(lrng, 'r', None)
            if r is None:
                r = lrng.r = random.Random(spec['seed'] ^ threading.get_ident())
            x = r.random()
            if x < 0.25:
                time.sleep(0 if x < 0.15 else 5e-5)
        fuzz = False
        try:
            mon.use_tool_id(tool, 'c10-schedule-fuzz')
            mon.register_callback(tool, mon.events.LINE, on_line)
            for c in codes:
                mon.set_local_events(tool, c, mon.events.LINE)
            fuzz = True
        except Exception:      # noqa  (tool id taken: run without line-level fuzzing)
            pass
        sys.setswitchinterval(spec['switch'])
        with W.Installed(rec):
            ths = [threading.Thread(target=worker, args=(t,), daemon=True) for t in range(n)]
            for th in ths:
                th.start()
            try:
                for k in range(trials):
                    g = world.new_group('inplace', {'g': rng.randrange(1, 50), 'c': rng.randrange(2, 900), 'd': rng.randrange(1, 9)},
                                        name='race%d' % k)
                    g.load()
                    cur[0] = g.fns[k % 2]
                    W.reference(cur[0], W.BASE_OPT)       # made before the race, so the threads start together
                    b1.wait()
                    b2.wait()
                    g.drop()
            except threading.BrokenBarrierError:
                if not errors:
                    verdicts.append({'what': 'history did not terminate (a thread never arrived at the barrier)',
                                     'thread': 0, 'index': -1, 'req_pos': -1})
            for th in ths:
                th.join(30)
        sys.setswitchinterval(old_sw)
        return package(spec, rec, verdicts, errors, time.time() - t00)
    finally:
        sys.setswitchinterval(old_sw)
        try:
            if fuzz:
                for c in codes:
                    sys.monitoring.set_local_events(4, c, 0)
                sys.monitoring.register_callback(4, sys.monitoring.events.LINE, None)
                sys.monitoring.free_tool_id(4)
        except Exception:      # noqa
            pass
        tempfile.tempdir = old_tmp
        shutil.rmtree(scratch, ignore_errors=True)


def package(spec, rec, verdicts, errors, wall):
    nthreads = max(list(rec.requests) + [-1]) + 1
    progs = []
    for t in range(nthreads):
        progs.append([[r['code'], r['val'], [r['opt'][0], r['opt'][1], r['opt'][2], list(r['opt'][3])], r['env'], r['sig']]
                      for r in rec.requests.get(t, [])])
    evs = []
    for e in rec.events:
        k = e[0]
        if k == 'begin' or k == 'acq' or k == 'rel':
            evs.append([k, e[1]])
        elif k == 'xform':
            evs.append([k, e[1], bool(e[2])])
        elif k == 'oget':
            evs.append(['oget', e[1], 'none' if e[2] is None else e[2]])
        elif k == 'oset':
            evs.append(['oset', e[1]])
        elif k == 'ihas':
            evs.append(['ihas', e[1], bool(e[2])])
        elif k == 'iget':
            evs.append(['iget', e[1], 'none' if e[2] is None else e[2]])
        elif k == 'iset':
            evs.append(['iset', e[1], e[2]])
        elif k == 'inst':
            evs.append(['inst', e[1], e[2], e[3]])
        elif k == 'gc':
            evs.append(['gc', e[1], e[2]])
        else:
            evs.append(['unexpected', str(e[1])])
    # path statistics per request
    paths = {'fast-hit': 0, 'locked-hit': 0, 'convert': 0, 'conversion-raised': 0, 'error': 0}
    cur = {}
    for e in rec.events:
        if e[0] == 'begin':
            cur[e[1]] = set()
        elif e[0] in ('acq', 'xform') and e[1] in cur:
            cur[e[1]].add(e[0])
            if e[0] == 'xform' and not e[2]:
                paths['conversion-raised'] += 1
        elif e[0] == 'inst' and e[1] in cur:
            s = cur.pop(e[1])
            paths['convert' if 'xform' in s else 'locked-hit' if 'acq' in s else 'fast-hit'] += 1
    outcomes = [[r['outcome'] for r in rec.requests.get(t, [])] for t in range(nthreads)]
    not_inst = [[t, j] for t in range(nthreads) for j, r in enumerate(rec.requests.get(t, []))
                if r['outcome'] == 'ok' and not r.get('ret_is_inst')]
    paths['error'] = sum(1 for os_ in outcomes for o in os_ if o != 'ok')
    for t in range(nthreads):
        for j, r in enumerate(rec.requests.get(t, [])):
            if r.get('bind_err'):
                verdicts.append({'what': r['bind_err'], 'thread': t, 'index': -1, 'req_pos': j, 'code': r['code'],
                                 'opt': [r['opt'][0], r['opt'][1], r['opt'][2], list(r['opt'][3])]})
    for b in rec.allow_bad:
        verdicts.append(dict(b, index=-2, req_pos=-1))
    keys = {}
    for t in range(nthreads):
        for r in rec.requests.get(t, []):
            keys.setdefault((r['val'], r['opt']), set()).add((t, r['env']))
    fail_vals = sorted({r['val'] for t in range(nthreads) for r in rec.requests.get(t, []) if r.get('xfail')})
    return {'spec': spec, 'progs': progs, 'events': evs, 'fail_vals': fail_vals, 'verdicts': verdicts, 'errors': errors,
            'unexpected': rec.unexpected[:5], 'outcomes': outcomes, 'not_inst': not_inst[:5],
            'xcount': [[k[0], [k[1][0], k[1][1], k[1][2], list(k[1][3])], v] for k, v in sorted(rec.xcount.items())],
            'paths': paths, 'gc_events': sum(1 for e in rec.events if e[0] == 'gc'),
            'addr_reuse': rec.addr_reuse, 'nreq': sum(len(p) for p in progs),
            'shared_keys': sum(1 for v in keys.values() if len(v) > 1),
            'distinct_envs_same_key': sum(1 for v in keys.values() if len({e for _, e in v}) > 1),
            'wall': wall}


# ----------------------------------------------------------------------------------------------
# deterministic witnesses of the known findings (and of nothing else)
# ----------------------------------------------------------------------------------------------

def fresh_process_reference(scratch, path, fname, args_list):
    """Convert `fname` of the file `path` in a brand-new interpreter (no cache, memo or module state of this
    process) and return its behaviour on the sample inputs and its generated source."""
    import subprocess
    prog = ('import sys, json, inspect\n'
            'sys.path.insert(0, %r)\n'
            'import malt\n'
            'src = open(%r).read()\n'
            'ns = {"__name__": "c10fresh"}\n'
            'exec(compile(src, %r, "exec"), ns)\n'
            'g = malt.to_graph(ns[%r], recursive=True, experimental_optional_features=None)\n'
            'print(json.dumps({"beh": [repr(g(*a)) for a in %r], "src": inspect.getsource(g)}))\n'
            % (common.REPO, path, path, fname, [list(a) for a in args_list]))
    p = subprocess.run([sys.executable, '-c', prog], text=True, stdout=subprocess.PIPE, stderr=subprocess.PIPE,
                       env=dict(os.environ, TMPDIR=scratch, PYTHONDONTWRITEBYTECODE='1'), timeout=600)
    if p.returncode != 0:
        raise common.InfraError('fresh-process reference failed: ' + p.stderr[-800:])
    return json.loads(p.stdout.strip().split('\n')[-1])


def run_witness(name):
    """Single scenarios on the real code; same recording as the random histories."""
    scratch = tempfile.mkdtemp(prefix='c10w_')
    old_tmp = tempfile.tempdir
    tempfile.tempdir = scratch
    try:
        malt, api, converter, transpiler, _, _ = W._malt()
        world = W.World(7, scratch)
        rec = W.Recorder(7, 0.0)
        world.rec = rec
        verdicts, errors = [], []
        rec.register_thread(0)
        extra = {}

        def req(entry, opt=W.BASE_OPT, route='to_graph', t=0, j=0):
            where = {'thread': t, 'index': j, 'req_pos': len(rec.requests.get(t, []))}
            W.do_request(world, entry, opt, route, verdicts, where)

        with W.Installed(rec):
            if name in ('sig-globals', 'sig-closure'):
                g = world.new_group('directive' if name == 'sig-globals' else 'directive_closure', {'g': 5, 'c': 1})
                h1, h2 = g.load()
                req(h1, j=0); req(h2, j=1)
                extra['user_calls_seen_by_h2_object'] = len(h2.fake.log)
            elif name == 'sig-reverse':
                g = world.new_group('directive', {'g': 5, 'c': 1})
                h1, h2 = g.load()
                req(h2, j=0); req(h1, j=1)
            elif name in ('ureq-callee-first', 'ureq-direct-first', 'ureq-call-then-graph', 'ureq-graph-then-call'):
                # one function under option sets that differ only in user_requested, in both orders
                g = world.new_group('closure', {'g': 4, 'c': 1, 'd': 2})
                fns = g.load()
                f, helper = fns[0], fns[4]
                uF = (True, False, True, ())
                if name == 'ureq-callee-first':
                    req(f, j=0)                      # converts f; calling it converts helper as a callee
                    req(helper, j=1)                 # then helper directly (user_requested=True)
                elif name == 'ureq-direct-first':
                    req(helper, j=0); req(f, j=1); req(helper, uF, 'converted_call', j=2)
                elif name == 'ureq-call-then-graph':
                    req(f, uF, 'converted_call', j=0); req(f, j=1); req(f, W.BASE_OPT, 'convert', j=2)
                else:
                    req(f, j=0); req(f, uF, 'converted_call', j=1); req(f, uF, 'actual', j=2)
            elif name in ('redefine-inplace-compile', 'redefine-inplace-reload'):
                # a definition edited IN PLACE: same file name, same first line, same name, new body -> new code object
                import importlib
                if name == 'redefine-inplace-compile':
                    g = world.new_group('inplace', {'g': 4, 'c': 2, 'd': 1}, name='edit')
                    g.inplace = True
                    old = g.load()
                    path = os.path.join(scratch, 'edit_inplace.py')
                    req(old[0], j=0); req(old[1], (True, False, True, ()), 'converted_call', j=1); req(old[0], W.BASE_OPT, 'actual', j=2)
                    g.params['c'], g.params['d'] = 1000, 7
                    new = g.load()
                else:
                    path = os.path.join(scratch, 'c10edit_mod.py')
                    tmpl = W.TEMPLATES['inplace']
                    with open(path, 'w') as fh:
                        fh.write(tmpl.format(g=4, c=2, d=1))
                    sys.path.insert(0, scratch)
                    importlib.invalidate_caches()
                    mod = importlib.import_module('c10edit_mod')
                    old = [W.Fn(mod.scale, [(3,), (0,)], 'module function before the edit', pure=True)]
                    req(old[0], j=0); req(old[0], W.BASE_OPT, 'actual', j=2)
                    with open(path, 'w') as fh:
                        fh.write(tmpl.format(g=4, c=1000, d=7))
                    st = os.stat(path)
                    os.utime(path, (st.st_atime + 5, st.st_mtime + 5))
                    importlib.invalidate_caches()
                    mod = importlib.reload(mod)
                    new = [W.Fn(mod.scale, [(3,), (0,)], 'module function after edit + importlib.reload', pure=True)]
                    sys.path.remove(scratch)
                    sys.modules.pop('c10edit_mod', None)
                extra['same_definition_site'] = (old[0].fn.__code__.co_filename == new[0].fn.__code__.co_filename,
                                                 old[0].fn.__code__.co_firstlineno == new[0].fn.__code__.co_firstlineno,
                                                 old[0].fn.__code__ != new[0].fn.__code__)
                for j, e in enumerate(new):
                    req(e, j=10 + 3 * j); req(e, (True, False, True, ()), 'converted_call', j=11 + 3 * j); req(e, (False, True, True, ()), 'actual', j=12 + 3 * j)
                req(old[0], j=30)         # the old object is still alive and keeps its own behaviour
                fresh = fresh_process_reference(scratch, path, 'scale', new[0].args)
                served = malt.to_graph(new[0].fn, recursive=True, experimental_optional_features=None)
                got = {'beh': [repr(served(*a)) for a in new[0].args], 'src': W.gen_source(served)}
                if got['beh'] != fresh['beh'] or (got['src'] is not None and got['src'] != fresh['src']):
                    verdicts.append({'thread': 0, 'index': 40, 'req_pos': -1, 'label': new[0].label,
                                     'what': 'served conversion of the edited function differs from a conversion made in a fresh '
                                             'process (stale definition)', 'got': got['beh'], 'expected': fresh['beh']})
            elif name in ('status-disabled-first', 'status-enabled-first'):
                # the same converted_call request under different conversion statuses of the calling context
                g = world.new_group('closure', {'g': 4, 'c': 1, 'd': 2})
                fns = g.load()
                f, helper = fns[0], fns[4]
                uF = (True, False, True, ())
                order = ['converted_call@D', 'converted_call@E', 'converted_call@U', 'converted_call', 'convert']
                if name == 'status-enabled-first':
                    order = ['converted_call@E', 'converted_call@D', 'converted_call@E', 'converted_call@U']
                for j, rt in enumerate(order):
                    req(helper, uF, rt, j=2 * j); req(f, uF, rt, j=2 * j + 1)
            elif name in ('features-base-first', 'features-lists-first'):
                # option sets differing in one OPTIONAL pass, on functions containing what that pass rewrites
                g = world.new_group('listy', {'g': 4, 'c': 2, 'd': 1})
                build, pick = g.load()
                oL, oA, oLA = (True, True, True, ('LISTS',)), (True, True, True, ('ASSERT_STATEMENTS',)), (True, True, True, ('EQUALITY_OPERATORS', 'LISTS'))
                order = [W.BASE_OPT, oL, oA, oLA] if name == 'features-base-first' else [oL, W.BASE_OPT, oA, oLA]
                j = 0
                for o in order:
                    for e in (build, pick):
                        req(e, o, 'to_graph', j=j); req(e, o, 'actual', j=j + 1); j += 2
            elif name in ('wrapped-lib-first', 'wrapped-user-first'):
                # one code object (functools.wraps wrapper): a sibling that is legitimately run as-is and a convertible one
                g = world.new_group('wrapped', {'g': 4, 'c': 1, 'd': 2})
                user1, lib, user2 = g.load()
                uF = (True, False, True, ())
                order = [lib, user1, user2, lib] if name == 'wrapped-lib-first' else [user1, lib, user2, user1]
                for j, e in enumerate(order):
                    req(e, uF, 'converted_call', j=2 * j); req(e, uF, 'convert', j=2 * j + 1)
                req(user2, W.BASE_OPT, 'to_graph', j=20)
            elif name in ('callee-raw-first', 'callee-plain-first'):
                # same code object, the callee is an autograph artifact for one function and a plain
                # convertible function for the other (through a closure cell and through a global)
                g = world.new_group('callee', {'g': 4, 'c': 1, 'd': 2})
                fns = g.load()
                pairs = [(fns[0], fns[1]), (fns[2], fns[3])]
                j = 0
                for raw, pl in pairs:
                    first, second = (raw, pl) if name == 'callee-raw-first' else (pl, raw)
                    for e in (first, second, first):
                        req(e, W.BASE_OPT, 'to_graph', j=j); j += 1
                    req(second, (True, False, True, ()), 'converted_call', j=j); j += 1
                    req(first, (True, False, True, ()), 'converted_call', j=j); j += 1
            elif name == 'siblings-diverge':
                g = world.new_group('siblings', {'g': 2, 'c': 1})
                g.load()
                for j, (o, rt) in enumerate([(W.BASE_OPT, 'to_graph'), (W.BASE_OPT, 'actual'), ((True, False, True, ()), 'actual')]):
                    W.do_pair(world, g, o, rt, verdicts, {'thread': 0, 'index': j, 'req_pos': len(rec.requests.get(0, []))})
            elif name == 'equal-twice':
                # exec the same source twice: c1 == c2, c1 is not c2
                g1 = world.new_group('closure', {'g': 3, 'c': 2, 'd': 4}, name='tw')
                g2 = world.new_group('closure', {'g': 3, 'c': 2, 'd': 4}, name='tw')
                a = g1.load()[0]; b = g2.load()[0]
                extra['codes_equal_not_identical'] = (a.fn.__code__ == b.fn.__code__, a.fn.__code__ is b.fn.__code__)
                oB = (False, True, True, ())
                req(a, W.BASE_OPT, j=0)
                req(b, oB, j=1)
                g1.drop()
                req(b, oB, j=2)          # c2 stayed alive: second transform_ast for (c2, oB)
            elif name == 'equal-keyerror':
                g1 = world.new_group('closure', {'g': 3, 'c': 2, 'd': 4}, name='tw')
                g2 = world.new_group('closure', {'g': 3, 'c': 2, 'd': 4}, name='tw')
                a = g1.load()[0]; b = g2.load()[0]
                req(a, j=0)
                go, done = threading.Event(), threading.Event()

                def hook(kind, t, res):
                    if kind == 'ihas' and t == 1 and res:
                        rec.hook = None
                        go.set(); done.wait(30)

                def other():
                    rec.register_thread(1)
                    req(b, t=1, j=0)
                rec.hook = hook
                th = threading.Thread(target=other)
                th.start()
                go.wait(30)
                g1.drop()                # the equal code object dies between has() and __getitem__
                done.set()
                th.join(60)
            elif name == 'equal-annotations':
                srcA = '\ndef f(q0):\n    if q0 > 1:\n        return q0\n    return 0\n'
                srcB = 'ANN = int\ndef f(q0: ANN) -> ANN:\n    if q0 > 1:\n        return q0\n    return 0\n'
                fns = []
                for nm, src in (('annA', srcA), ('annB', srcB)):
                    path = os.path.join(scratch, nm + '.py')
                    with open(path, 'w') as fh:
                        fh.write(src)
                    ns = {}
                    exec(compile(src, path, 'exec'), ns)
                    fns.append(W.Fn(ns['f'], [(5,)], nm))
                extra['codes_equal_not_identical'] = (fns[0].fn.__code__ == fns[1].fn.__code__, fns[0].fn.__code__ is fns[1].fn.__code__)
                req(fns[1], j=0); req(fns[0], j=1)      # B first: A is served B's source, whose annotation needs ANN
            else:
                raise ValueError(name)
        res = package({'witness': name, 'index': name, 'flavour': 'witness'}, rec, verdicts, errors, 0.0)
        res['extra'] = extra
        return res
    finally:
        tempfile.tempdir = old_tmp
        shutil.rmtree(scratch, ignore_errors=True)


WITNESSES = {
    'sig-globals': CLS_SIG, 'sig-closure': CLS_SIG, 'sig-reverse': None,
    'equal-twice': CLS_EQ, 'equal-keyerror': CLS_EQ, 'equal-annotations': CLS_EQ,
    'features-base-first': None, 'features-lists-first': None,
    'redefine-inplace-compile': None, 'redefine-inplace-reload': None, 'wrapped-lib-first': None, 'wrapped-user-first': None,
    'status-disabled-first': None, 'status-enabled-first': None, 'callee-raw-first': None, 'callee-plain-first': None,
    'siblings-diverge': None, 'ureq-callee-first': None, 'ureq-direct-first': None, 'ureq-call-then-graph': None, 'ureq-graph-then-call': None,
}


def _pool_run(spec):
    import logging
    logging.disable(logging.WARNING)        # malt's "could not transform ... will run it as-is" chatter
    try:
        res = run_witness(spec['witness']) if 'witness' in spec else \
            run_firstrace(spec) if spec.get('flavour') == 'firstrace' else run_history(spec)
        return json.loads(json.dumps(res, default=str))      # nothing from the pool's own modules crosses the pipe
    except BaseException:    # noqa
        return {'spec': spec, 'crash': traceback.format_exc()}


# ----------------------------------------------------------------------------------------------
# classification + Lean
# ----------------------------------------------------------------------------------------------

def py_classes(res):
    """The class predicates computed in Python (cross-checked against the Lean driver's answer)."""
    reqs = [r for p in res['progs'] for r in p]
    byval = {}
    for cid, val, _, _, sig in reqs:
        byval.setdefault(val, {'ids': set(), 'sigs': set()})
        byval[val]['ids'].add(cid); byval[val]['sigs'].add(sig)
    eq_ids = sorted({cid for cid, val, _, _, _ in reqs if len(byval[val]['ids']) > 1})
    split = sorted({val for val in byval if len(byval[val]['sigs']) > 1})
    return eq_ids, split


def lean_line(res):
    return 'cache-validate ' + sexp(res['progs']) + ' ' + sexp(res['events']) + ' ' + sexp(res.get('fail_vals', []))


def analyse(run, res, answer):
    """One history: validator verdict, outcome/counter correspondence, classification of failing cases."""
    spec = res['spec']
    hid = spec.get('index')
    ok_validate, detail = True, ''
    lean = None
    if answer is not None:
        try:
            a = parse_sexp(answer)
        except Exception:
            a = ['bad', answer[:200]]
        if a and a[0] == 'accept':
            lean = {}
            for item in a[2:]:
                if isinstance(item, list) and item:
                    lean[item[0]] = item[1:]
            if int(lean['unfinished'][0]) != 0:
                ok_validate, detail = False, 'model has %s unfinished requests after the whole log' % lean['unfinished'][0]
            elif lean['lock-free'][0] != 'True':
                ok_validate, detail = False, 'lock held at the end of the log'
        else:
            ok_validate = False
            detail = 'history %s: %s' % (hid, answer[:400])
    if res.get('unexpected'):
        ok_validate = False
        detail = 'history %s: operation outside the model: %s' % (hid, res['unexpected'][:3])
    eq_ids, split = py_classes(res)
    corr = []
    if res.get('not_inst'):
        corr.append('requests %s returned something else than what factory.instantiate(own environment) returned' % res['not_inst'])
    poisoned = [v for v in res['verdicts'] if v.get('index') == -2]
    if poisoned:
        corr.append('%s (function %s, options %s)' % (poisoned[0]['what'], poisoned[0].get('function'), poisoned[0].get('opt')))
    unbound = [v for v in res['verdicts'] if v.get('index') == -1 and 'code' in v and 'thread' in v and 'req_pos' in v
               and not v['what'].startswith('history did not')]
    if unbound:
        corr.append('served function not bound to the requester\'s own environment: %s (request %s,%s)'
                    % (unbound[0]['what'], unbound[0]['thread'], unbound[0]['req_pos']))
    outcome_of = {}
    if lean is not None:
        l_eq = sorted(int(x) for x in lean.get('equal-code-ids', []))
        l_split = sorted(int(x) for x in lean.get('sig-split-vals', []))
        if l_eq != eq_ids or l_split != split:
            corr.append('class predicates: lean %s %s vs harness %s %s' % (l_eq, l_split, eq_ids, split))
        for t, outs in enumerate(lean['outcomes']):
            obs = res['outcomes'][t] if t < len(res['outcomes']) else []
            for j, o in enumerate(outs):
                outcome_of[(t, j)] = o
                if j < len(obs):
                    # exceptions raised after the cache did its part (in instantiate) are not the cache's
                    m_key = o[0] == 'err' and o[2] == 'False'
                    m_conv = o[0] == 'err' and o[2] == 'True'
                    if m_key != (obs[j] or '').startswith('err:KeyError') or (m_conv and not (obs[j] or '').startswith('err:')):
                        corr.append('outcome of request (%d,%d): model %s, implementation %s' % (t, j, o, obs[j]))
        lc = {}
        for cid, optstr, cnt in (lean['counts'][0] if lean['counts'] else []):
            lc[(int(cid), optstr)] = int(cnt)
        oc = {}
        for cid, opt, cnt in res['xcount']:
            oc[(cid, sexp([opt[0], opt[1], opt[2], sorted(opt[3], key=FEAT_ORDER.get)]))] = cnt
        if lc != oc:
            corr.append('transform counts: model %s vs implementation %s' % (sorted(lc.items())[:4], sorted(oc.items())[:4]))
    unsafe_gc = [int(x) for x in lean.get('unsafe-gc', [])] if lean is not None else None
    if lean is not None and not unsafe_gc:
        # the schedule is inside `SchedSafe`: C10_once_partial / C10_error_only_partial predict the real run
        if any(cnt > 1 for _, _, cnt in res['xcount']):
            corr.append('schedule is SchedSafe but a (code object, options) pair was converted more than once')
        if any((o or '').startswith('err:KeyError') for os_ in res['outcomes'] for o in os_):
            corr.append('schedule is SchedSafe but a request raised KeyError')
    # direct oracle verdicts -> failing cases with their class
    fails = []
    for v in res['verdicts']:
        cls = None
        o = outcome_of.get((v.get('thread'), v.get('req_pos')))
        if o is not None and o[0] == 'ok':
            sig_ok, src_ok = o[5] == 'True', o[6] == 'True'
            if not sig_ok:
                cls = CLS_SIG
            elif not src_ok or int(o[1]) in eq_ids:
                cls = CLS_EQ
        elif o is not None and o[0] == 'err' and o[2] == 'False':
            # KeyError from the cache: negation of SchedSafe (an unsafe gc of an equal-valued code object)
            cls = CLS_EQ if (int(o[1]) in eq_ids and unsafe_gc) else None
        elif lean is None:
            # log rejected / no driver: Python fallback of the same predicates (history-level)
            prog = res['progs'][v['thread']] if v.get('thread', -1) < len(res['progs']) and v.get('thread', -1) >= 0 else []
            if 0 <= v.get('req_pos', -1) < len(prog):
                cid, val = prog[v['req_pos']][0], prog[v['req_pos']][1]
                cls = CLS_SIG if val in split else CLS_EQ if cid in eq_ids else None
        fails.append((v, cls))
    for cid, opt, cnt in res['xcount']:
        if cnt > 1:
            fails.append(({'what': 'transform_ast ran %d times for one (code object, options) while the code object was alive' % cnt,
                           'code': cid, 'opt': opt}, CLS_EQ if (cid in eq_ids and (unsafe_gc or lean is None)) else None))
    return ok_validate, detail, corr, fails, lean


FEAT_ORDER = {}


def check(run, only=None, repeat=1):
    run.rule = ('a case is one request of one history; a history = seeded pool (closures from one factory, functions '
                'defined in a loop, same code with other defaults/kwdefaults, types.FunctionType(code, other_globals), '
                'bound methods, lambdas, unconvertible functions (for/else), private groups dropped+collected and '
                're-exec\'ed; flavours: clean / '
                'namespace-dependent directive resolution / equal-valued distinct code objects / mixed) x option sets '
                'differing in one field x routes (to_graph, convert(...)(f), converted_call [also under conversion status '
                'DISABLED/ENABLED/UNSPECIFIED], _convert_actual) x 1..32 '
                'threads with random start delays, yields at every dictionary operation and sys.setswitchinterval; '
                'non-trivial = the request\'s (code value, options) key is also requested by another thread or by a '
                'function with another environment in the same history')
    run.assumptions += [
        'CPython runtime facts used as parameters of the model: single dict operations are atomic under the GIL; '
        'weakref.WeakKeyDictionary matches live keys by ==/hash of the referent (code.__eq__ is structural) and drops an '
        'entry when its key object dies; threading.RLock',
        'transform is uninterpreted (T code options namespace-view): what the conversion reads from the requester\'s '
        'namespace is abstracted to `sig` = directive resolution of the names the code mentions + __future__ features; the '
        'namer\'s dependence on the first requester\'s namespace is assumed behaviourally irrelevant (C11)',
        'a conversion that raises is not cached and is retried by every request (the implementation has no negative '
        'caching): such runs are validated against the model but not counted by the converts-once property',
        'conversion._ALLOWLIST_CACHE (function object -> {options: run as-is}), the second cache converted_call consults, '
        'is OUTSIDE the Lean model: which decisions may be recorded there is converted_call\'s policy (C13\'s decision '
        'table), not cache mechanics.  It is covered by the oracle only: every converted_call request (issued under '
        'conversion status DISABLED / ENABLED / UNSPECIFIED) must behave like the same request against fresh caches, and '
        'every insertion is audited to record a context-independent decision (artifact, internal_convert_user_code=False, '
        'allowlist/unsupported rule, or fallback after this very conversion failed)',
        'real schedules are sampled (the model quantifies over all of them; the harness only checks that each observed one '
        'is a member and that the model predicts its outcomes)',
        'the event log is totally ordered by a recorder mutex held around each proxied operation and its log entry; the '
        'one store the proxies cannot intercept (into a bucket cache.py has just created as a plain dict) and weak-reference '
        'removals are recovered by diffing against a shadow copy around every operation',
    ]
    run.translate(['CacheLock'])
    run.build_and_audit('MaltModel.Props.C10', model_files=MODEL_FILES)
    from malt.core import converter
    FEAT_ORDER.update({f.name: k for k, f in enumerate(converter.Feature)})

    specs = []
    wit_names = list(WITNESSES)
    cdir = os.path.join(common.VERIF, 'corpus', 'C10')
    if os.path.isdir(cdir):
        for fn in sorted(os.listdir(cdir)):
            if fn.endswith('.json'):
                with open(os.path.join(cdir, fn)) as f:
                    c = json.load(f)
                if 'witness' in c and c['witness'] not in wit_names:
                    wit_names.append(c['witness'])
                elif 'spec' in c:
                    specs.append(dict(c['spec'], index='corpus:' + fn))
    if only is None:
        nh = 90 if run.tier == "quick" else 500
        for i in range(nh):
            specs.append(make_spec(run.rng, run.tier, i))
        for i in range(8 if run.tier == 'quick' else 40):
            specs.append({'seed': run.rng.randrange(1 << 30), 'index': 'firstrace%d' % i, 'flavour': 'firstrace',
                          'nthreads': run.rng.choice([2, 3, 4]), 'trials': 40, 'switch': 1e-6, 'yield_p': 0.0, 'nopts': 1,
                          'per_thread': 40})
    else:
        for k in range(repeat):
            specs.append(dict(only, index='replay%d' % k))
    jobs = [{'witness': w} for w in wit_names] + specs if only is None else specs

    ctx = multiprocessing.get_context('fork')
    nproc = min(14, os.cpu_count() or 2)
    t0 = time.time()
    with ctx.Pool(nproc, maxtasksperchild=6) as pool:
        results = pool.map(_pool_run, jobs, chunksize=1)
    run.cov['histories_wall_s'] = round(time.time() - t0, 1)

    crashes = [r for r in results if 'crash' in r]
    if crashes:
        # an exception that comes out of the implementation while a worker drives it is a broken obligation (the
        # history is the replay), exactly as main.py treats it for the parent process; a harness-only crash is not
        repo = os.path.realpath(common.REPO)
        through_repo = [r for r in crashes if repo + os.sep in r['crash'] or (os.sep + 'malt' + os.sep) in r['crash']]
        if not through_repo:
            raise common.InfraError('history worker crashed: ' + crashes[0]['crash'][-1500:])
        run.oblige('harness:every-history-completes-on-the-implementation', 'correspondence', False,
                   '%d histories raised while the harness was driving the implementation; first: %s'
                   % (len(through_repo), through_repo[0]['crash'][-700:]))
        for r in through_repo[:3]:
            run.fail('exception out of the implementation while driving a history: ' + r['crash'].strip().split('\n')[-1][:200],
                     {'spec': r['spec'], 'traceback': r['crash'][-1200:]}, None)
        results = [r for r in results if 'crash' not in r]
    herr = [r for r in results if r['errors']]
    if herr:
        raise common.InfraError('harness thread failed: ' + herr[0]['errors'][0][-1500:])

    answers = [None] * len(results)
    if run.driver_ok:
        answers = run.drive([lean_line(r) for r in results], timeout=1500)

    rejects, corr_all = [], []
    stats = {'fast-hit': 0, 'locked-hit': 0, 'convert': 0, 'conversion-raised': 0, 'error': 0}
    tot = {'requests': 0, 'events': 0, 'gc_events': 0, 'addr_reuse': 0, 'shared_keys': 0, 'distinct_envs_same_key': 0}
    by_threads, by_flavour = {}, {}
    known_seen = {}
    frag = {'histories': 0, 'validated': 0,
            'inside ValInj&SigCoherent (C10_refines_ideal_partial: every request = fresh conversion)': 0,
            'inside ValInj (C10_refines_partial: lookup-or-convert spec)': 0,
            'inside SchedSafe (once / no-error / lock / progress theorems)': 0,
            'inside SchedSafe but outside ValInj (gained by the dynamic hypothesis)': 0,
            'outside SchedSafe (unsafe gc of an equal-valued code object)': 0,
            'outside SigCoherent': 0}
    freq = {'requests inside ValInj&SigCoherent': 0, 'requests inside SchedSafe': 0, 'requests total': 0}
    for r, a in zip(results, answers):
        ok, detail, corr, fails, lean = analyse(run, r, a)
        spec = r['spec']
        is_w = 'witness' in spec
        frag['histories'] += 1
        freq['requests total'] += r['nreq']
        if lean is not None:
            frag['validated'] += 1
            vi = lean.get('valinj', ['False'])[0] == 'True'
            sc = lean.get('sigcoherent', ['False'])[0] == 'True'
            ss = not lean.get('unsafe-gc', [])
            if vi and sc:
                frag['inside ValInj&SigCoherent (C10_refines_ideal_partial: every request = fresh conversion)'] += 1
                freq['requests inside ValInj&SigCoherent'] += r['nreq']
                if fails:
                    corr.append('history is inside ValInj & SigCoherent, yet a request differs from its fresh conversion: %s'
                                % fails[0][0]['what'][:120])
            if vi:
                frag['inside ValInj (C10_refines_partial: lookup-or-convert spec)'] += 1
            if ss:
                frag['inside SchedSafe (once / no-error / lock / progress theorems)'] += 1
                freq['requests inside SchedSafe'] += r['nreq']
                if not vi:
                    frag['inside SchedSafe but outside ValInj (gained by the dynamic hypothesis)'] += 1
            else:
                frag['outside SchedSafe (unsafe gc of an equal-valued code object)'] += 1
            if not sc:
                frag['outside SigCoherent'] += 1
        if not ok:
            rejects.append(detail)
        corr_all += ['history %s: %s' % (spec.get('index'), c) for c in corr]
        for k in stats:
            stats[k] += r['paths'][k]
        tot['requests'] += r['nreq']; tot['events'] += len(r['events'])
        for k in ('gc_events', 'addr_reuse', 'shared_keys', 'distinct_envs_same_key'):
            tot[k] += r[k]
        if not is_w:
            by_threads[spec['nthreads']] = by_threads.get(spec['nthreads'], 0) + 1
            by_flavour[spec['flavour']] = by_flavour.get(spec['flavour'], 0) + 1
        # evidence: one case per request
        keys = {}
        for t, p in enumerate(r['progs']):
            for q in p:
                keys.setdefault((q[1], json.dumps(q[2])), set()).add((t, q[3]))
        for t, p in enumerate(r['progs']):
            for j, q in enumerate(p):
                run.case((str(spec.get('index')), spec.get('seed', 0), t, j), len(keys[(q[1], json.dumps(q[2]))]) > 1)
        for v, cls in fails:
            case = {'spec': spec, 'verdict': v}
            if is_w:
                case = {'witness': spec['witness'], 'verdict': v, 'extra': r.get('extra')}
                want = WITNESSES.get(spec['witness'])
                if cls is not None and cls == want:
                    known_seen[spec['witness']] = known_seen.get(spec['witness'], 0) + 1
            run.fail(v['what'], case, cls)
        if is_w:
            run.sample({'witness': spec['witness'], 'events': len(r['events']), 'model': (a or '')[:160],
                        'failing': [v['what'][:90] for v, _ in fails], 'extra': r.get('extra')}, cap=8)
        elif len(run.samples) < 10 and r['paths']['locked-hit'] and spec['nthreads'] >= 2:
            run.sample({'history': {k: spec[k] for k in ('seed', 'flavour', 'nthreads', 'switch', 'yield_p')},
                        'requests': r['nreq'], 'events': len(r['events']), 'paths': r['paths'],
                        'first_events': [sexp(e) for e in r['events'][:14]], 'model': (a or '')[:120]}, cap=10)
    # the witnesses of the listed findings must still fail (DESIGN 2.7 (i)); if one stops failing the tree was repaired
    for w, cls in WITNESSES.items():
        if cls is not None and only is None:
            run.cov.setdefault('witness_reproduced', {})[w] = known_seen.get(w, 0)
            if not known_seen.get(w):
                run.notes.append('witness %s of a listed finding no longer fails: finding is stale (model must be updated)' % w)
    if run.driver_ok:
        run.oblige('correspondence:cache-validate', 'correspondence', not rejects,
                   '%d of %d logs rejected; first: %s' % (len(rejects), len(results), rejects[:2]))
        run.oblige('correspondence:outcomes-counts-classes', 'correspondence', not corr_all, '; '.join(corr_all[:3]))
    else:
        run.oblige('correspondence:cache-validate', 'correspondence', False, 'driver unavailable')
    run.cov['proved_fragment'] = dict(frag, **freq)
    run.cov.update({'histories': len(results), 'threads_histogram': dict(sorted(by_threads.items())),
                    'flavours': by_flavour, 'paths': stats, 'exhaustive': False}, **tot)
    run.cov['search'] = ('direct oracle on %d requests of %d histories (behaviour vs fresh-PyToPy reference on sample inputs, '
                         'transform_ast counts, raised requests), %d racing requests found the entry only under the lock'
                         % (tot['requests'], len(results), stats['locked-hit']))


def replay(run, path):
    with open(path) as f:
        rep = json.load(f)
    print(json.dumps(rep, indent=1)[:3000])
    case = rep.get('case', {})
    if 'spec' in case and 'seed' in case['spec']:
        check(run, only=case['spec'], repeat=12)     # schedules vary: run the same plan several times
    else:
        check(run)
    return run.finish()
