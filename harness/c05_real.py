"""C05 helpers working on the REAL code: run `malt.pyct.cfg.build`, observe the builder, serialise graphs.

Nothing here re-implements the CFG construction.  The only observation beyond the returned `Graph` objects is
`roots`: the nodes that `GraphBuilder._add_new_node` created while `self.leaves` was empty (the entry and the
starts of dead code), recorded by wrapping that method in this process only.
"""
import ast, contextlib

import common
import pyast


def _cfg():
    from malt.pyct import cfg
    return cfg


@contextlib.contextmanager
def observing_roots(store, owners=None):
    cfg = _cfg()
    orig = cfg.GraphBuilder._add_new_node

    def wrapped(self, ast_node):
        empty = not self.leaves
        node = orig(self, ast_node)
        if empty:
            store.append(ast_node)
        if owners is not None:
            owners[id(node)] = (node, list(self.owners[node]))    # the builder's own bookkeeping, as recorded (keyed by the CFG node)
        return node
    cfg.GraphBuilder._add_new_node = wrapped
    try:
        yield
    finally:
        cfg.GraphBuilder._add_new_node = orig


class RealGraphs:
    """cfg.build(fn) on the real code, serialised over the serial ids of `ser`.

    .error   None or 'ExcType: message'
    .graphs  {function id: dict(nodes=[ids in index order], entry=id, exits=[...], errors=[...], edges=[[a,b],...],
              prev={stmt id: [...]}, next={...}, roots=[...])}   all sets sorted
    .raw     {function id: the real Graph object}
    .mirror_ok / .mirror_detail : "child in node.next iff node in child.prev" on the real objects
    """

    def __init__(self, fn, ser=None):
        cfg = _cfg()
        self.fn = fn
        self.ser = ser or pyast.Ser(fn)
        self.error = None
        self.graphs = {}
        self.raw = {}
        self.mirror_ok = True
        self.mirror_detail = ''
        self.unknown_nodes = 0
        roots = []
        own = {}
        self.owners = {}
        try:
            with observing_roots(roots, own):
                raw = cfg.build(fn)
        except Exception as e:  # the real code's own exception (e.g. except ... as name)
            self.error = '%s: %s' % (type(e).__name__, e)
            return
        root_ids = {id(n) for n in roots}
        idof = self.ser.id_of
        for fnode, g in raw.items():
            fid = idof(fnode)
            if fid is None:
                self.unknown_nodes += 1
                continue
            self.raw[fid] = g

            def nid(n):
                i = idof(n.ast_node)
                if i is None:
                    self.unknown_nodes += 1
                    return -1
                return i
            nodes = [nid(n) for n in g.index.values()]
            edges = sorted({(nid(n), nid(m)) for n in g.index.values() for m in n.next})
            # mirror on the real objects: m in n.next  <=>  n in m.prev ; and links stay inside the index
            members = set(map(id, g.index.values()))
            for n in g.index.values():
                for m in n.next:
                    if id(m) not in members or n not in m.prev:
                        self.mirror_ok = False
                        self.mirror_detail = 'next without prev: %r -> %r' % (n, m)
                for m in n.prev:
                    if id(m) not in members or n not in m.next:
                        self.mirror_ok = False
                        self.mirror_detail = 'prev without next: %r <- %r' % (n, m)
            for k, n in g.index.items():
                if n.ast_node is not k:
                    self.mirror_ok = False
                    self.mirror_detail = 'index key is not the node\'s ast_node'
            self.owners[fid] = [[nid(n)] + sorted(idof(st) if idof(st) is not None else -1 for st in own.get(id(n), (None, []))[1])
                                for n in g.index.values()]
            self.graphs[fid] = {
                'nodes': nodes,
                'entry': nid(g.entry) if g.entry is not None else None,
                'exits': sorted(nid(n) for n in g.exit),
                'errors': sorted(idof(e) if idof(e) is not None else -1 for e in g.error),
                'edges': [list(e) for e in edges],
                'prev': {idof(s): sorted(nid(n) for n in v) for s, v in g.stmt_prev.items()},
                'next': {idof(s): sorted(nid(n) for n in v) for s, v in g.stmt_next.items()},
                'roots': sorted(nid(n) for n in g.index.values() if id(n.ast_node) in root_ids),
            }


OWNER_KINDS = (ast.If, ast.While, ast.For, ast.Try, ast.ExceptHandler)


def stmt_edge_failures(rg):
    """Direct oracle for 'the per-statement entry/exit edge sets agree with the node graph' on the REAL graphs:
    for every if/while/for/try/except statement s of the function, with inside(s) = graph nodes whose AST node lies
    lexically in s (computed from the AST, not from the builder's bookkeeping):
        stmt_next[s] == { b | (a, b) edge, a in inside(s), b not in inside(s) }      (stmt_prev dually)
    and s is a key of the maps iff inside(s) is not empty."""
    bad = []
    idof = rg.ser.id_of
    for fid, g in rg.graphs.items():
        raw = rg.raw[fid]
        fnode = rg.ser.nodes[fid]
        members = {id(k): idof(k) for k in raw.index}
        edges = [tuple(e) for e in g['edges']]
        seen_keys = set()
        for s in ast.walk(fnode):
            if not isinstance(s, OWNER_KINDS):
                continue
            sid = idof(s)
            inside = {members[id(d)] for d in ast.walk(s) if id(d) in members}
            if not inside:
                if sid in g['next'] or sid in g['prev']:
                    bad.append('statement #%s owns no node but is a key of stmt_next/stmt_prev' % sid)
                continue
            seen_keys.add(sid)
            nxt = sorted({b for a, b in edges if a in inside and b not in inside})
            prv = sorted({a for a, b in edges if b in inside and a not in inside})
            if g['next'].get(sid) != nxt:
                bad.append('stmt_next of statement #%s is %s, edges leaving its extent go to %s' % (sid, g['next'].get(sid), nxt))
            if g['prev'].get(sid) != prv:
                bad.append('stmt_prev of statement #%s is %s, edges entering its extent come from %s' % (sid, g['prev'].get(sid), prv))
        extra = set(g['next']) | set(g['prev'])
        if not extra <= seen_keys:
            bad.append('stmt_next/stmt_prev have keys that are not enclosing statements with nodes: %s' % sorted(extra - seen_keys))
    return bad


def parse_model_graphs(text):
    """Answer of `c05.graph` -> (error or None, {fid: graph dict in the same shape as RealGraphs.graphs})."""
    x = common.parse_sexp(text)
    if x[0] == 'error':
        return x[1], {}
    out = {}
    for g in x[1:]:
        fid = int(g[0])
        d = {}
        for part in g[1:]:
            d[part[0]] = part[1:]
        out[fid] = {
            'nodes': [int(v) for v in d['nodes']],
            'entry': int(d['entry'][0]) if d['entry'] else None,
            'exits': [int(v) for v in d['exits']],
            'errors': [int(v) for v in d['errors']],
            'edges': [[int(a), int(b)] for a, b in d['edges']],
            'prev': {int(r[0]): [int(v) for v in r[1:]] for r in d['prev']},
            'next': {int(r[0]): [int(v) for v in r[1:]] for r in d['next']},
            'roots': [int(v) for v in d['roots']],
        }
    return None, out


def graph_sexp(fid, g):
    """A graph dict -> the S-expression the Lean checkers parse (same layout the driver prints)."""
    return [fid, ['nodes'] + g['nodes'], ['entry'] + ([g['entry']] if g['entry'] is not None else []),
            ['exits'] + g['exits'], ['errors'] + g['errors'], ['edges'] + [list(e) for e in g['edges']],
            ['prev'] + [[k] + v for k, v in sorted(g['prev'].items())],
            ['next'] + [[k] + v for k, v in sorted(g['next'].items())],
            ['roots'] + g['roots']]


def diff_graphs(real, model):
    """First difference between two {fid: graph} maps, or None."""
    if sorted(real) != sorted(model):
        return 'function ids: real %s vs model %s' % (sorted(real), sorted(model))
    for fid in sorted(real):
        r, m = real[fid], model[fid]
        for k in ('nodes', 'entry', 'exits', 'errors', 'edges', 'prev', 'next', 'roots'):
            if r[k] != m[k]:
                return 'function %s field %s: real %s vs model %s' % (fid, k, r[k], m[k])
    return None


def has_other(ser):
    """The serialiser met a node kind the Lean AST does not know (match, try*, type alias, ...)."""
    return any(k in ser.kinds for k in ('Match', 'TryStar', 'TypeAlias')) or _has_unknown(ser.sexp)


def _has_unknown(x):
    if isinstance(x, list):
        if x and x[0] == 'OtherStmt':
            return True
        return any(_has_unknown(e) for e in x)
    return False
