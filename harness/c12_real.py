"""C12: running one generated case on the REAL code and observing what the property talks about.

Observation points (DESIGN.md §2.8: module attributes replaced in the harness process only; every
wrapper forwards to the original function, so a changed /repo function is still what runs):
  * origin_info.create_source_map  -> inputs (transformed nodes, generated code, file) and result per conversion
  * error_utils._stack_trace_inside_mapped_code -> (traceback, source map, converter file, result) per level,
    plus the full traceback at that moment (before api._attach_error_metadata slices it)

`analyse_case` returns only plain data (JSON-able): the verdicts of the direct oracle and the request
lines / expected answers of the correspondence with the Lean model.
"""
import ast, importlib.util, io, os, sys, tokenize, traceback, logging as pylogging

from common import sexp

_installed = {}


class Recorder:
    def __init__(self):
        self.conversions = []     # dicts: file, code, nodes, result
        self.stack_calls = []     # dicts: tb, full_tb, map, conv_file, result
        self.events = []          # in order: ('attach', dict with pass_through, stack-call index or None, tb, map) / ('rethrow', dict)


REC = Recorder()

# builtins the property (and the documentation) promise to re-create with their own type: they take a
# plain message.  Pinned here, independent of the table in /repo (which the translator reads).
PLAIN_MESSAGE_BUILTINS = ('AssertionError', 'AttributeError', 'NameError', 'NotImplementedError', 'RuntimeError',
                          'StopIteration', 'TypeError', 'UnboundLocalError', 'ValueError', 'KeyError', 'Exception')


def install():
    """Install the recording wrappers once per process."""
    if _installed:
        return
    from malt.pyct import origin_info, error_utils
    from malt.utils import ag_logging
    orig_csm = origin_info.create_source_map
    orig_stack = error_utils._stack_trace_inside_mapped_code

    def csm(nodes, code, filepath):
        # the walk is recorded BEFORE the call, in the very state the real function will see (the annotations
        # on the shared expression-context singletons change with every later conversion)
        try:
            pairs = walk_pairs(nodes, code, filepath)
        except Exception:
            pairs = None
        res = orig_csm(nodes, code, filepath)
        try:
            REC.conversions.append({'file': filepath, 'code': code, 'nodes': nodes, 'result': res, 'pairs': pairs})
        except Exception:   # never disturb the code under test
            pass
        return res

    def stack(tb, source_map, converter_filename):
        res = orig_stack(tb, source_map, converter_filename)
        try:
            exc = sys.exc_info()[1]       # the exception being handled by converted_call's `except` clause
            full = [tuple(f) for f in traceback.extract_tb(sys.exc_info()[2])]
            REC.stack_calls.append({'tb': [tuple(f) for f in tb], 'full_tb': full, 'map': source_map, 'exc_type': type(exc),
                                    'exc_str': None if exc is None else str(exc),
                                    'conv_file': converter_filename, 'result': tuple(res)})
        except Exception:
            pass
        return res

    from malt.impl import api
    orig_attach = api._attach_error_metadata
    orig_toexc = error_utils.ErrorMetadataBase.to_exception

    def attach(e, f):
        n0 = len(REC.stack_calls)
        try:
            ev = {'exc': e, 'pass_through': hasattr(e, 'ag_pass_through'), 'had_md': hasattr(e, 'ag_error_metadata'),
                  'full_tb': [tuple(fr) for fr in traceback.extract_tb(sys.exc_info()[2])], 'map': getattr(f, 'ag_source_map', None)}
        except Exception:
            ev = {}
        try:
            return orig_attach(e, f)
        finally:
            ev['stack_call'] = n0 if len(REC.stack_calls) > n0 else None
            REC.events.append(('attach', ev))

    def to_exception(self, source_error):
        exc = orig_toexc(self, source_error)
        try:
            REC.events.append(('rethrow', {'source': source_error, 'result': exc,
                                           'sets_pass_through': hasattr(exc, 'ag_pass_through'), 'type': type(exc),
                                           'same_md': getattr(exc, 'ag_error_metadata', None) is self}))
        except Exception:
            pass
        return exc

    api._attach_error_metadata = attach
    error_utils.ErrorMetadataBase.to_exception = to_exception
    origin_info.create_source_map = csm
    error_utils._stack_trace_inside_mapped_code = stack
    _installed['x'] = True
    # conversion warnings ("could not transform ... will run it as-is") are noise here
    try:
        ag_logging.set_verbosity(0, alsologtostdout=False)
    except Exception:
        pass
    pylogging.disable(pylogging.WARNING)


def load_module(src, path, name):
    os.makedirs(os.path.dirname(path), exist_ok=True)
    with open(path, 'w', encoding='utf-8') as f:
        f.write(src)
    # an explicit source loader: the file may have any name and extension
    import importlib.machinery
    spec = importlib.util.spec_from_file_location(name, path, loader=importlib.machinery.SourceFileLoader(name, path))
    mod = importlib.util.module_from_spec(spec)
    sys.modules[name] = mod
    spec.loader.exec_module(mod)
    return mod


def unload_module(name):
    sys.modules.pop(name, None)


def user_frames(tb, paths):
    """(function, line) of the frames lying in the user files `paths` in a traceback, outermost first."""
    return [(f.name, f.lineno) for f in traceback.extract_tb(tb) if f.filename in paths]


def user_frame_files(tb, paths):
    return [f.filename for f in traceback.extract_tb(tb) if f.filename in paths]


def walk_pairs(nodes, code, filepath):
    """The pairs create_source_map folds over, in its order, obtained with the repo's own
    parser / resolve / parallel_walk: (key (file, line) or None, origin tuple or None, transformed node)."""
    from malt.pyct import origin_info, ast_util, anno, parser
    reparsed = parser.parse(code, preamble_len=0, single_node=False)
    for n in reparsed:
        origin_info.resolve(n, code, filepath, n.lineno, n.col_offset)
    out = []
    for before, after in ast_util.parallel_walk(nodes, reparsed):
        o = anno.getanno(before, anno.Basic.ORIGIN, default=None)
        f = anno.getanno(after, anno.Basic.ORIGIN, default=None)
        out.append((None if f is None else (f.loc.filename, f.loc.lineno),
                    None if o is None else origin_tuple(o), before, after))
    return out


def origin_tuple(o):
    return (o.loc.filename, o.loc.lineno, o.loc.col_offset, o.function_name, o.source_code_line)


# ------------------------------------------------------------------------------------------------
# serialisation for the driver
# ------------------------------------------------------------------------------------------------
def opt(s):
    return [] if s is None else [s]


def origin_sx(o):
    return [o[0], o[1], o[2], opt(o[3]), o[4] if o[4] is not None else '']


def frame_sx(f):
    return [f[0], f[1], f[2], f[3] if f[3] is not None else '']


def fi_sx(fi):
    return [fi[0], fi[1], opt(fi[2]), fi[3] if fi[3] is not None else '', bool(fi[4]), bool(fi[5])]


def map_sx(source_map, restrict_to=None):
    out = []
    for k, v in source_map.items():
        if restrict_to is not None and (k.filename, k.lineno) not in restrict_to:
            continue
        out.append([[k.filename, k.lineno], origin_sx(origin_tuple(v))])
    return out


def items_request(pairs):
    """Interned walk items: (files, origins, items)."""
    files, origins, items = [], [], []
    fidx, oidx = {}, {}
    for key, org, _, _ in pairs:
        if key is None:
            ks = ['-', 0]
        else:
            if key[0] not in fidx:
                fidx[key[0]] = len(files); files.append(key[0])
            ks = [fidx[key[0]], key[1]]
        if org is None:
            oi = '-'
        else:
            if org not in oidx:
                oidx[org] = len(origins); origins.append(origin_sx(org))
            oi = oidx[org]
        items.append([ks[0], ks[1], oi])
    return files, origins, items


# ------------------------------------------------------------------------------------------------
# facts about exception types
# ------------------------------------------------------------------------------------------------
def type_facts(T):
    """(name, userDefined, isMaltError, initIsExceptionInit, userInit, nearestBuiltin) — computed from the
    class object alone, independently of error_utils."""
    from malt.impl import api
    from malt.pyct import errors
    malt_errs = (errors.PyCTError, api.AutoGraphError, api.ConversionError, api.StagingError)
    is_malt = any(T is m for m in malt_errs)
    builtin = T.__module__ == 'builtins'
    user_defined = (not builtin) and (not is_malt)
    nearest = next((C.__name__ for C in T.__mro__ if C.__module__ == 'builtins'), 'object')
    user_init = False
    for C in T.__mro__:
        if C.__module__ == 'builtins':
            break
        if '__init__' in vars(C):
            user_init = True
            break
    return (T.__name__, user_defined, is_malt, T.__init__ is Exception.__init__, user_init, nearest)


def expected_same(T, facts):
    """The property's rule (independent of the table in /repo): True = same type required,
    False = StagingError required, None = either is acceptable (builtin outside the documented list)."""
    name, user_defined, is_malt, _, user_init, nearest = facts
    if is_malt:
        return True
    if not user_defined:
        if name in PLAIN_MESSAGE_BUILTINS:
            return True
        return None
    if user_init:
        return False
    # a user class that adds no initialiser: it takes a plain message iff its nearest builtin base does
    return True if nearest in PLAIN_MESSAGE_BUILTINS else None


def created_kind(T0, e1):
    return kind_of_type(T0, type(e1), isinstance(e1, KeyError))


def kind_of_type(T0, T1, is_keyerror=True):
    from malt.impl import api
    from malt.pyct import error_utils
    if T1 is T0:
        return 'same'
    if T1 is error_utils.MultilineMessageKeyError and T0 is KeyError and T1.__name__ == 'KeyError' and is_keyerror:
        return 'keyerror'
    if T1 is api.StagingError:
        return 'staging'
    return 'other:' + T1.__name__


# ------------------------------------------------------------------------------------------------
# static view of the case source (independent of malt)
# ------------------------------------------------------------------------------------------------
class SourceView:
    def __init__(self, src):
        self.lines = src.split('\n')
        self.tree = ast.parse(src)
        self.toplevel = {}        # 'name@line' -> (first line, last line) of module-level functions and methods
        self.toplevel_names = set()
        self.defs = []            # (first, last, name) of every def, for innermost-def lookup
        for node in ast.walk(self.tree):
            if isinstance(node, (ast.FunctionDef, ast.AsyncFunctionDef)):
                first = min([node.lineno] + [d.lineno for d in node.decorator_list])
                self.defs.append((first, node.end_lineno, node.name, node.lineno))
        for node in self.tree.body:
            if isinstance(node, ast.FunctionDef):
                self.toplevel['%s@%d' % (node.name, node.lineno)] = (node.lineno, node.end_lineno)
                self.toplevel_names.add(node.name)
            if isinstance(node, ast.ClassDef):
                for st in node.body:
                    if isinstance(st, ast.FunctionDef):
                        self.toplevel['%s@%d' % (st.name, st.lineno)] = (st.lineno, st.end_lineno)
                        self.toplevel_names.add(st.name)

    def root_named(self, name):
        return [r for r in self.toplevel if r.split('@')[0] == name]

    def innermost_def(self, line):
        best = None
        for first, last, name, _ in self.defs:
            if first <= line <= last and (best is None or first >= best[0]):
                best = (first, name)
        return None if best is None else best[1]

    def root_of(self, line):
        for name, (a, b) in self.toplevel.items():
            if a <= line <= b:
                return name
        return None

    def stmt_lines(self, root):
        """first lines of all statements inside top-level function `root` (header lines of compound statements)."""
        a, b = self.toplevel[root]
        out = set()
        for node in ast.walk(self.tree):
            if isinstance(node, ast.stmt) and a <= node.lineno <= b:
                out.add(node.lineno)
        return out

    def names_on_line(self, line):
        out = set()
        try:
            for tok in tokenize.generate_tokens(io.StringIO(self.lines[line - 1] + '\n').readline):
                if tok.type == tokenize.NAME:
                    out.add(tok.string)
        except (tokenize.TokenError, IndentationError):
            pass
        return out

    def names_in(self, root):
        a, b = self.toplevel[root]
        out = set()
        for l in range(a, b + 1):
            out |= self.names_on_line(l)
        return out


def _scope_name(code):
    try:
        tree = ast.parse(code)
    except SyntaxError:
        return None
    for node in ast.walk(tree):
        if isinstance(node, ast.Call) and isinstance(node.func, ast.Attribute) and node.func.attr == 'FunctionScope' \
                and node.args and isinstance(node.args[0], ast.Constant) and isinstance(node.args[0].value, str):
            return node.args[0].value
    return None


def _wrapped_entity_on_path(mod, names):
    """Is one of the converted functions on the call path a function object carrying `__wrapped__`
    (functools.wraps / update_wrapper)?  Class predicate of known finding C12-wrapped-entity-origin-shift."""
    import inspect
    seen, stack = set(), list(vars(mod).values())
    while stack:
        v = stack.pop()
        if id(v) in seen:
            continue
        seen.add(id(v))
        if inspect.isfunction(v):
            if hasattr(v, '__wrapped__') and v.__code__.co_name in names:
                return True
            stack.append(getattr(v, '__wrapped__', None))
            for cell in (v.__closure__ or ()):
                try:
                    stack.append(cell.cell_contents)
                except ValueError:
                    pass
    return False


def _root_from_code(code, sv):
    try:
        tree = ast.parse(code)
    except SyntaxError:
        return None
    for node in ast.walk(tree):
        if isinstance(node, ast.Call) and isinstance(node.func, ast.Attribute) and node.func.attr == 'FunctionScope' \
                and node.args and isinstance(node.args[0], ast.Constant) and len(sv.root_named(node.args[0].value)) == 1:
            return sv.root_named(node.args[0].value)[0]
    for node in ast.walk(tree):
        if isinstance(node, ast.FunctionDef) and node.name.startswith('ag__') and len(sv.root_named(node.name[4:])) == 1:
            return sv.root_named(node.name[4:])[0]
    return None


def final_lineage(events, final_exc):
    """The events that belong to the exception that finally reached the caller (an exception handled on the way - the
    failure a translating `except` block caught - has events of its own, earlier in the list).  Walking backwards: the
    re-raise that produced `final_exc`, the attach events of the exception then in flight, and, if that one was itself
    produced by an inner wrapper's re-raise, on through that wrapper."""
    out, k, cur = [], len(events) - 1, final_exc
    while k >= 0:
        kind, ev = events[k]
        if kind == 'rethrow' and ev.get('result') is cur:
            out.append(k)
            k -= 1
            if k < 0 or events[k][0] != 'attach':
                break
            cur = events[k][1].get('exc')        # the exception in flight when that wrapper caught it
            while k >= 0 and events[k][0] == 'attach' and events[k][1].get('exc') is cur:
                out.append(k)
                k -= 1
            continue
        break
    return [events[i] for i in sorted(out)]


def expected_units(U0, fn_conv, toplevel):
    """Group the user frames of the unconverted traceback (outermost first) into activations of
    module-level functions (nested defs / lambdas belong to the activation that contains them) and say
    which of them run converted."""
    units, cur = [], True
    for i, (fn, line) in enumerate(U0):
        if fn in fn_conv:
            cur = bool(fn_conv[fn])
            units.append({'frames': [(fn, line)], 'conv': cur})
        elif fn in toplevel or not units:
            # a module-level helper the case does not name (the method of the 'method' link): it runs the way the
            # chain function it forwards to does
            nxt = next((fn_conv[f] for f, _ in U0[i + 1:] if f in fn_conv), fn_conv.get('*below-leaf*', cur))
            units.append({'frames': [(fn, line)], 'conv': bool(nxt)})
        else:
            units[-1]['frames'].append((fn, line))
    return units


def is_subsequence(xs, ys):
    it = iter(ys)
    return all(any(x == y for y in it) for x in xs)


def deindent_message(s):
    return '\n'.join(l[4:] if l.startswith('    ') else l for l in s.split('\n'))


# ------------------------------------------------------------------------------------------------
# one case
# ------------------------------------------------------------------------------------------------
def _rel(p, entry_path):
    base = os.path.dirname(entry_path)
    while base and os.path.basename(base)[:5] != 'case_':
        nb = os.path.dirname(base)
        if nb == base:
            return p
        base = nb
    return os.path.relpath(p, base)


def case_paths(built, workdir, tag):
    """Where the case's module(s) go: a directory of their own (file names repeat across cases), the file names the
    case asks for (default c12case_<tag>.py)."""
    base = os.path.join(workdir, 'case_%s' % tag)
    entry = os.path.join(base, built.get('entry_file') or ('c12case_%s.py' % tag))
    helper = os.path.join(base, built['helper_file']) if built.get('helper_src') else None
    return entry, helper


def run_case(built, path, modname, convert_kwargs=None, helper_path=None):
    """Run original and converted entry point; raw observations (not JSON-able)."""
    import malt
    install()
    REC.conversions.clear()
    REC.stack_calls.clear()
    REC.events.clear()
    paths = {path}
    if helper_path:
        # the unconverted tail of the chain lives in a second user module; the entry module reaches it through a global
        hmod = load_module(built['helper_src'], helper_path, modname.replace('c12case', 'c12help'))
        paths.add(helper_path)
    mod = load_module(built['src'], path, modname)
    if helper_path:
        for nm in built.get('helper_names') or []:
            setattr(mod, nm, getattr(hmod, nm))
    f = getattr(mod, built['entry'])
    args = built['args']
    obs = {'path': path, 'paths': paths}
    try:
        f(*args)
        obs['orig'] = None
    except Exception as e:          # noqa
        obs['orig'] = {'type': type(e), 'type_name': type(e).__name__, 'str': str(e),
                       'frames': user_frames(e.__traceback__, paths), 'frame_files': user_frame_files(e.__traceback__, paths)}
    REC.conversions.clear()
    REC.stack_calls.clear()
    REC.events.clear()
    # separately converted callees: rebound for the converted run only (the reference run above used the plain functions)
    for gname, fname, how in built.get('wraps') or []:
        target = getattr(mod, fname)
        if how == 'tograph':
            try:
                setattr(mod, gname, malt.to_graph(target))
            except Exception:     # to_graph raises when the function cannot be converted at all (C01's domain)
                obs['rebind_failed'] = fname
                obs['conv'] = None; obs['conversions'] = []; obs['stack_calls'] = []; obs['events'] = []; obs['module'] = mod
                return obs
        else:
            setattr(mod, gname, malt.convert(recursive=(how != 'wrapped-nonrec'), optional_features=None)(target))
    kw = dict(recursive=bool(built.get('recursive', True)), optional_features=None)
    kw.update(convert_kwargs or {})
    w = malt.convert(**kw)(f)
    try:
        w(*args)
        obs['conv'] = None
    except Exception as e:          # noqa
        md = getattr(e, 'ag_error_metadata', None)
        obs['conv'] = {'type': type(e), 'type_name': type(e).__name__, 'str': str(e), 'exc': e,
                       'has_md': md is not None, 'md': md,
                       'stack': None if md is None else [tuple(fr) for fr in md.translated_stack],
                       'cause_message': None if md is None else md.cause_message}
    obs['conversions'] = list(REC.conversions)
    obs['stack_calls'] = list(REC.stack_calls)
    obs['events'] = list(REC.events)
    obs['module'] = mod
    return obs


def py_classes(levels, all_gen=()):
    """Python mirror of the Lean class predicates (used only when the driver is unavailable, and compared
    with the driver's answer otherwise). levels: innermost first, dicts gen_file, map (dict), tb."""
    gens = [l['gen_file'] for l in levels]
    reentered = len(set(gens)) != len(gens)
    hit = any(f[0] != l['gen_file'] and (f[0], f[1]) in l['keys'] for l in levels for f in l['tb'])
    lam = False
    for l in levels:
        for f in reversed(l['tb']):
            if (f[0], f[1]) in l['keys']:
                lam = lam or f[2] == '<lambda>'
                break
    gens_set = set(gens)
    unwrapped = any(f[0] in all_gen and f[0] not in gens_set for l in levels for f in l['tb'])
    return [reentered, hit, lam, unwrapped]


def analyse_case(built, workdir, tag, want_corr=True):
    """Everything about one case as plain data."""
    from malt.pyct import anno
    out = {'status': 'ok', 'fails': [], 'corr': [], 'stats': {}, 'class_req': None}
    modname = 'c12case_%s' % tag
    path, helper_path = case_paths(built, workdir, tag)
    obs = run_case(built, path, modname, helper_path=helper_path)
    out['path'] = path
    try:
        return _analyse(built, path, obs, out, want_corr)
    finally:
        unload_module(modname)
        unload_module(modname.replace('c12case', 'c12help'))


def _analyse(built, path, obs, out, want_corr):
    from malt.pyct import anno
    from malt.impl import api
    o, c = obs['orig'], obs['conv']
    sv = SourceView(built['src'])
    fn_conv = built.get('fn_conv') or {}
    st = out['stats']
    if o is None:
        out['status'] = 'orig-no-exception'
        return out
    if obs.get('rebind_failed'):
        out['status'] = 'callee-not-converted'
        out['detail'] = obs['rebind_failed']
        return out
    if c is None:
        out['status'] = 'ok'
        out['fails'].append({'what': 'converted function returned normally where the original raises %s' % o['type_name'],
                             'cls': None, 'oracle': 'exception'})
        return out
    convs = obs['conversions']
    # which module-level functions were converted (by the span their origins fall into)
    conv_roots = {}
    for cv in convs:
        roots = {}
        for k, v in cv['result'].items():
            if k.filename == cv['file'] and v.loc.filename == path:
                r = sv.root_of(v.loc.lineno)
                roots[r] = roots.get(r, 0) + 1
        cv['root'] = max(roots, key=roots.get) if roots else None
        if cv['root'] is None:
            # no usable entry: fall back on the function name the generated code itself records
            # (`with ag__.FunctionScope('<name>', ...)`, else the `ag__<name>` def)
            cv['root'] = _root_from_code(cv['code'], sv)
        conv_roots[cv['root']] = cv
    conv_names = set(r.split('@')[0] for r in conv_roots if r)
    for cv in convs:          # plus the name the generated code itself records (closures are not module-level functions)
        nm = _scope_name(cv['code'])
        if nm:
            conv_names.add(nm)
    wrapped_path = _wrapped_entity_on_path(obs['module'], set(n for n, _ in o['frames']) & conv_names)
    if built['entry'] not in conv_names:
        out['status'] = 'entry-not-converted'      # conversion failed and malt fell back to the original (C01's domain)
        return out
    U0 = o['frames']
    units = expected_units(U0, fn_conv, sv.toplevel_names)
    for u in units:
        if u['conv'] and u['frames'][0][0] not in conv_names:
            out['status'] = 'callee-not-converted'   # idem for a callee: the chain is not the one the case describes
            out['detail'] = u['frames'][0][0]
            return out
    if not c['has_md']:
        out['fails'].append({'what': 'original %s(%r): the exception reaching the caller is %s(%r) and carries no ag_error_metadata '
                                     '(type rule, message and location lost)' % (o['type_name'], o['str'][:80], c['type_name'], c['str'][:120]),
                             'cls': None, 'oracle': 'metadata'})
        return out
    # only the events of the exception that reached the caller count
    lineage = final_lineage(obs.get('events') or [], c['exc'])
    if lineage:
        obs['events'] = lineage
        obs['stack_calls'] = [obs['stack_calls'][ev['stack_call']] for k, ev in lineage if k == 'attach' and ev.get('stack_call') is not None]
    if not obs['stack_calls']:
        out['fails'].append({'what': 'ag_error_metadata present but _stack_trace_inside_mapped_code was never called', 'cls': None, 'oracle': 'metadata'})
        return out
    # the exception the converted code raised (before it is re-created), as seen by the innermost converted_call
    T0, str0 = obs['stack_calls'][0]['exc_type'], obs['stack_calls'][0]['exc_str']
    same_error = T0 is o['type'] or (issubclass(T0, NameError) and issubclass(o['type'], NameError))
    if not same_error:
        out['status'] = 'diverged'                   # a different error occurred: semantics differ (C01's domain)
        return out
    if str0 != o['str']:
        st['message_differs_from_unconverted_run'] = 1   # e.g. malt's own wording for unbound variables (exempt in C01)
    o = dict(o, type=T0, type_name=T0.__name__, str=str0)
    facts = type_facts(T0)
    st['type'] = '%s->%s' % (o['type_name'], c['type_name'])
    st['depth'] = len(U0)
    st['units'] = len(units)
    st['conv_units'] = len([u for u in units if u['conv']])

    # ---------------- O2: type ----------------
    kind = created_kind(T0, c['exc'])
    want = expected_same(T0, facts)
    ok_type = (kind in ('same', 'keyerror')) if want is True else (kind == 'staging') if want is False else kind in ('same', 'keyerror', 'staging')
    events = obs.get('events') or []
    n_rethrow = len([1 for k, _ in events if k == 'rethrow'])
    st['rethrows'] = n_rethrow
    if not ok_type and T0 is KeyError and n_rethrow >= 2:
        out['fails'].append({'what': 'exception type: KeyError raised below %d nested malt.convert wrappers reaches the caller as %s'
                                     % (n_rethrow, c['type_name']), 'cls': 'keyerror_rewritten_twice', 'oracle': 'type', 'facts': list(facts)})
    elif not ok_type:
        cls = 'inherits_builtin_init' if (facts[1] and not facts[4] and facts[5] != 'Exception' and facts[5] in PLAIN_MESSAGE_BUILTINS) else None
        out['fails'].append({'what': 'exception type: original %s (takes a plain message, no initialiser of its own: %s) re-raised as %s'
                                     % (o['type_name'], want, c['type_name']), 'cls': cls, 'oracle': 'type', 'facts': list(facts)})
    # ---------------- O3: message ----------------
    want_msg = '%s: %s' % (o['type_name'], o['str'])
    if want_msg not in deindent_message(c['str']) or c['cause_message'] != want_msg:
        out['fails'].append({'what': 'message not carried: %r not in %r' % (want_msg, c['str'][-300:]), 'cls': None, 'oracle': 'message'})
    # ---------------- O4: stack ----------------
    user_paths = obs['paths']
    T = [(fr[2], fr[1], bool(fr[4])) for fr in c['stack'] if fr[0] in user_paths]
    T_files = [fr[0] for fr in c['stack'] if fr[0] in user_paths]
    probs = []
    if T and T_files[0] != o['frame_files'][-1]:
        probs.append('innermost user frame lies in %s, the failing statement in %s' % (_rel(T_files[0], path), _rel(o['frame_files'][-1], path)))
    if not T or (T[0][0], T[0][1]) != U0[-1]:
        probs.append('innermost user frame %s, original traceback ends at %s' % (T[:1], U0[-1]))
    if not is_subsequence([(a, b) for a, b, _ in T], list(reversed(U0))):
        probs.append('listed user frames %s are not frames of the original traceback %s in the same order' % (T, U0))
    # one converted entry per separately converted function on the path, innermost first; the entry must be a frame
    # of that function's activation (the pinned code lists its innermost frame; a lambda's frame goes by the name of
    # the enclosing def, which is tolerated here when that def has a frame on the same line)
    exp_conv = [u['frames'] for u in reversed(units) if u['conv']]
    got_conv = [(a, b) for a, b, cv in T if cv]
    all_conv = [fr for fr in c['stack'] if fr[4]]
    ok_units = len(got_conv) == len(exp_conv) == len(all_conv) and all(
        g in fr or (g[1] in [l for _, l in fr] and g[0] in [n for n, _ in fr]) for g, fr in zip(got_conv, exp_conv))
    if not ok_units:
        probs.append('converted entries %s, expected one per separately converted function: %s' % (got_conv, [fr[-1] for fr in exp_conv]))
    # levels as recorded, innermost first
    levels = []
    for sc in obs['stack_calls']:
        gen = next((cv['file'] for cv in convs if cv['result'] is sc['map']), None)
        keys = set((k.filename, k.lineno) for k in sc['map'])
        levels.append({'gen_file': gen, 'keys': keys, 'tb': sc['tb'], 'full_tb': sc['full_tb'], 'map': sc['map'],
                       'conv_file': sc['conv_file'], 'result': sc['result']})
    all_gen = [cv['file'] for cv in convs]
    pyc = py_classes(levels, set(all_gen))
    if probs:
        out['fails'].append({'what': 'translated stack: ' + '; '.join(probs),
                             'cls': 'wrapped_entity_origin_shift' if wrapped_path else 'PENDING-STACK', 'oracle': 'stack', 'py_classes': pyc})
    # class request (evaluated by the Lean driver)
    creq = []
    for l in levels:
        locs = set((f[0], f[1]) for f in l['tb'])
        creq.append([l['gen_file'] or '?', map_sx(l['map'], locs), [frame_sx(f) for f in l['tb']]])
    out['class_req'] = 'c12.classes %s %s' % (sexp(creq), sexp(all_gen))
    out['py_classes'] = pyc
    # the hypotheses and the conclusion of C12_stack_partial on this recorded run (evaluated by the Lean driver)
    conv_units = [u for u in units if u['conv']]
    if levels and len(conv_units) == len(levels) and all(l['gen_file'] for l in levels) and not built.get('wraps') and not wrapped_path and not built.get('helper_src'):
        lv = []
        for l, u in zip(reversed(levels), conv_units):
            fn, line = u['frames'][-1]
            locs = set((f[0], f[1]) for f in l['tb'])
            lv.append([l['gen_file'], map_sx(l['map'], locs), [frame_sx(f) for f in l['tb']], [path, line, fn]])
        out['check_req'] = 'c12.check %s %s %s %s %s' % (sexp(levels[0]['conv_file']), sexp(path), sexp(lv),
                                                        sexp([fi_sx(fi) for fi in c['stack']]), sexp([[a, b] for a, b in U0]))
    out['stack_ok'] = not probs
    out['wrapped_entity_on_path'] = wrapped_path

    # ---------------- O6: source maps ----------------
    for cv in convs:
        if cv['root'] is None:
            continue
        # is the converted function itself one that carries __wrapped__ (class predicate of C12-wrapped-entity-origin-shift)?
        cv_wrapped = _wrapped_entity_on_path(obs['module'], {_scope_name(cv['code'])})
        pairs = cv['pairs']
        if pairs is None:
            out['fails'].append({'what': 'the parallel walk of create_source_map could not be reproduced', 'cls': None, 'oracle': 'srcmap'})
            continue
        gen_lines = cv['code'].split('\n')
        root = cv['root']
        foreign = [(k.filename, k.lineno) for k in cv['result'] if k.filename != cv['file']]
        st['maps'] = st.get('maps', 0) + 1
        st['entries'] = st.get('entries', 0) + len(cv['result'])
        if foreign:
            out['fails'].append({'what': 'source map of %s has keys that are not lines of its generated file: %s' % (root.split('@')[0], foreign[:3]),
                                 'cls': 'PENDING-FOREIGN', 'oracle': 'srcmap-keys', 'gen_file_index': convs.index(cv)})
        names_root = sv.names_in(root)
        a, b = sv.toplevel[root]
        # per generated line: Load names / attribute names of the nodes sitting on it; statement origins
        by_line_tokens, stmt_origin, multi = {}, {}, {}
        for key, org, before, after in pairs:
            if key is None or key[0] != cv['file']:
                continue
            g = key[1]
            if isinstance(before, ast.Name) and isinstance(before.ctx, ast.Load):
                by_line_tokens.setdefault(g, set()).add(before.id)
            elif isinstance(before, ast.Attribute):
                by_line_tokens.setdefault(g, set()).add(before.attr)
            if org is not None:
                multi.setdefault(g, set()).add(org[1])
                if isinstance(before, ast.stmt) and g not in stmt_origin:
                    stmt_origin[g] = org
        st['multi_origin_lines'] = st.get('multi_origin_lines', 0) + len([g for g, s in multi.items() if len(s) > 1])
        bad = []
        for k, v in cv['result'].items():
            if k.filename != cv['file']:
                continue
            g, ol = k.lineno, v.loc.lineno
            if v.loc.filename != path or not (a <= ol <= b):
                bad.append('generated line %d mapped outside the converted function: %s:%d' % (g, v.loc.filename, ol)); continue
            # (the source of a method is dedented before it is parsed: the recorded text is the line minus that indentation)
            if v.source_code_line.strip() != sv.lines[ol - 1].strip() or not sv.lines[ol - 1].endswith(v.source_code_line):
                bad.append('generated line %d: recorded source line %r is not line %d of the file' % (g, v.source_code_line, ol))
            fn_want = sv.innermost_def(ol)
            if v.function_name != fn_want:
                bad.append('generated line %d -> line %d: function name %r, enclosing def is %r' % (g, ol, v.function_name, fn_want))
            toks = (by_line_tokens.get(g, set()) & names_root)
            if not toks <= sv.names_on_line(ol):
                bad.append('generated line %d %r is mapped to line %d %r which does not mention %s'
                           % (g, gen_lines[g - 1].strip()[:80], ol, sv.lines[ol - 1].strip(), sorted(toks - sv.names_on_line(ol))))
            so = stmt_origin.get(g)
            if so is not None and so[0] == path and so[1] != ol:
                bad.append('generated line %d holds a statement generated from line %d but is mapped to line %d' % (g, so[1], ol))
        # every original statement is the origin of some generated statement
        have = set(so[1] for so in stmt_origin.values() if so[0] == path)
        have_any = set(v.loc.lineno for k, v in cv['result'].items() if k.filename == cv['file'])
        missing = sorted(l for l in sv.stmt_lines(root) if l not in have)
        st['orig_stmt_lines'] = st.get('orig_stmt_lines', 0) + len(sv.stmt_lines(root))
        st['orig_stmt_lines_unmapped'] = st.get('orig_stmt_lines_unmapped', 0) + len([l for l in sv.stmt_lines(root) if l not in have_any])
        if missing:
            bad.append('original statements on lines %s of %s are the origin of no generated statement' % (missing, root.split('@')[0]))
        for m in bad[:4]:
            out['fails'].append({'what': 'source map of %s: %s' % (root.split('@')[0], m),
                                 'cls': 'wrapped_entity_origin_shift' if (wrapped_path or cv_wrapped) else None, 'oracle': 'srcmap'})
        if want_corr:
            files, origins, items = items_request(pairs)
            out['corr'].append(('srcmap', 'c12.srcmap %s %s %s' % (sexp(files), sexp(origins), sexp(items)),
                                sexp(map_sx(cv['result']))))
            out['corr'].append(('foreignkey', 'c12.foreignkey %s %s %s %s' % (sexp(cv['file']), sexp(files), sexp(origins), sexp(items)),
                                sexp(bool(foreign))))
    # ---------------- correspondence: stack / chain / message / create ----------------
    if want_corr:
        for l in levels:
            locs = set((f[0], f[1]) for f in l['tb'])
            out['corr'].append(('stack', 'c12.stack %s %s %s' % (sexp(l['conv_file']), sexp(map_sx(l['map'], locs)),
                                                                sexp([frame_sx(f) for f in l['tb']])),
                                sexp([fi_sx(fi) for fi in l['result']])))
        lv = []
        for l in levels:
            locs = set((f[0], f[1]) for f in l['full_tb'])
            lv.append([map_sx(l['map'], locs), [frame_sx(f) for f in l['full_tb']]])
        conv_file = levels[0]['conv_file'] if levels else api.__file__
        out['corr'].append(('chain', 'c12.chain %s %s %s %s' % (sexp(conv_file), sexp(o['type_name']), sexp(o['str']), sexp(lv)),
                            sexp([[fi_sx(fi) for fi in c['stack']], c['cause_message']])))
        out['corr'].append(('message', 'c12.message %s %s' % (sexp([fi_sx(fi) for fi in c['stack']]), sexp(c['cause_message'])),
                            sexp(c['md'].get_message().split('\n'))))
        f = facts
        first = next((ev['type'] for k, ev in events if k == 'rethrow'), None)
        first_kind = kind if first is None else kind_of_type(T0, first)
        out['corr'].append(('create', 'c12.create ' + sexp([f[0], f[1], f[2], f[3], f[4], f[5]]), first_kind))
        if n_rethrow >= 1:
            T1 = c['type']
            from malt.pyct import errors as _errs
            malt_errs = (_errs.PyCTError, api.AutoGraphError, api.ConversionError, api.StagingError)
            out['corr'].append(('rewrites', 'c12.rewrites %s %d' % (sexp([f[0], f[1], f[2], f[3], f[4], f[5]]), n_rethrow),
                                sexp([T1.__name__, any(T1 is m for m in malt_errs)])))
        evs = []
        for k, ev in events:
            if k == 'rethrow':
                evs.append('r')
            else:
                locs = set((fr[0], fr[1]) for fr in ev.get('full_tb', []))
                evs.append(['a', map_sx(ev['map'], locs) if ev.get('map') is not None else [], [frame_sx(fr) for fr in ev.get('full_tb', [])]])
        out['corr'].append(('events', 'c12.events %s %s %s %s' % (sexp(conv_file), sexp(o['type_name']), sexp(o['str']), sexp(evs)),
                            sexp([[fi_sx(fi) for fi in c['stack']], c['cause_message'], hasattr(c['exc'], 'ag_pass_through')])))
    return out
