"""Shared by C06 (reaching definitions) and C07 (liveness): run the REAL analyses of /repo on a function,
capture the REAL `Analyzer.in_/out` objects, and serialise graph + per-node Scope sets + solutions for the
verified checkers in lean/MaltModel/Analysis/*.lean.

Nothing here re-implements an analysis: `analyze()` calls qual_names / activity / cfg / reaching_definitions /
reaching_fndefs / liveness exactly as converters/control_flow.py does, with the three `Analyzer` classes
replaced (module global, harness process only) by recording subclasses that keep every instance.
"""
import ast, contextlib, re

import common
from common import sexp
import pyast


class Unsupported(Exception):
    """The pinned tree cannot analyse this function (e.g. `except E as e` crashes cfg/activity)."""
    kind = 'harness'
    crash = False


# the ways the analyses of the pinned tree crash on functions of the /repo corpus (all outside the property's class:
# `except E as e` — py3 `ast` stores the name as a str —, lambdas in decorators / class bodies that have no graph)
EXPECTED_CRASH_KINDS = ("AttributeError: 'str' object has no attribute '___pyct_anno'", 'KeyError: <ast.Lambda object>',
                        'KeyError: <ast.Expr object>')


def _mods():
    from malt.pyct import anno, cfg, naming, qual_names, transformer
    from malt.pyct.static_analysis import activity, annos, liveness, reaching_definitions, reaching_fndefs
    return dict(anno=anno, cfg=cfg, naming=naming, qual_names=qual_names, transformer=transformer, activity=activity,
                annos=annos, liveness=liveness, rd=reaching_definitions, fnd=reaching_fndefs)


@contextlib.contextmanager
def _recording(mod, store):
    """Keep every Analyzer instance the real TreeAnnotator creates (wraps __init__ in this process only)."""
    cls = mod.Analyzer
    orig = cls.__init__

    def init(self, *a, **k):
        orig(self, *a, **k)
        store.append(self)
    cls.__init__ = init
    try:
        yield
    finally:
        cls.__init__ = orig


class Analysis:
    """Result of running the real analyses on one top-level function `fnode` (annotated in place)."""

    def __init__(self, fnode, source=''):
        m = _mods()
        self.m = m
        anno = m['anno']
        self.fnode = fnode
        self.ser = pyast.Ser(fnode)
        ctx = m['transformer'].Context(
            m['transformer'].EntityInfo(name=fnode.name, source_code=source, source_file=None, future_features=(),
                                        namespace={}), m['naming'].Namer({}), None)
        self.rd_an, self.fnd_an, self.live_an = [], [], []
        try:
            node = m['qual_names'].resolve(fnode)
            node = m['activity'].resolve(node, ctx, None)
            self.graphs = m['cfg'].build(node)
            with _recording(m['rd'], self.rd_an):
                node = m['rd'].resolve(node, ctx, self.graphs)
            with _recording(m['fnd'], self.fnd_an):
                node = m['fnd'].resolve(node, ctx, self.graphs)
            with _recording(m['liveness'], self.live_an):
                node = m['liveness'].resolve(node, ctx, self.graphs)
        except (AttributeError, AssertionError, ValueError, KeyError, TypeError, NotImplementedError, IndexError) as e:
            u = Unsupported('%s: %s' % (type(e).__name__, str(e)[:120]))
            u.kind = '%s: %s' % (type(e).__name__, re.sub(r' at 0x[0-9a-f]+', '', str(e))[:60])
            u.crash = True
            raise u
        assert node is fnode
        self.qn_ids, self.qns = {}, []
        self.by_graph = {}
        for kind, lst in (('rd', self.rd_an), ('fnd', self.fnd_an), ('live', self.live_an)):
            for a in lst:
                self.by_graph.setdefault(id(a.graph), {})[kind] = a

    # ------------------------------------------------------------------ ids
    def vid(self, qn):
        i = self.qn_ids.get(qn)
        if i is None:
            i = self.qn_ids[qn] = len(self.qns)
            self.qns.append(qn)
        return i

    def vids(self, qns):
        return sorted({self.vid(q) for q in qns})

    def nid(self, ast_node):
        i = self.ser.id_of(ast_node)
        if i is None:
            raise Unsupported('cfg node for an AST node outside the serialised tree: %s' % type(ast_node).__name__)
        return i

    def var_name(self, i):
        return str(self.qns[i])

    def fn_parent(self, f):
        """serial id of the function lexically enclosing function node f (0 for the analysed top-level function)"""
        if not hasattr(self, '_fn_parent'):
            self._fn_parent = {}

            def walk(node, cur):
                for c in ast.iter_child_nodes(node):
                    if isinstance(c, (ast.FunctionDef, ast.Lambda)):
                        self._fn_parent[id(c)] = cur
                        walk(c, self.nid(c))
                    else:
                        walk(c, cur)
            self._fn_parent[id(self.fnode)] = 0
            walk(self.fnode, self.nid(self.fnode))
        return self._fn_parent.get(id(f), 0)

    # ------------------------------------------------------------------ per graph
    def functions(self):
        """[(fn_ast_node, graph)] for every function/lambda graph of the tree, in id order."""
        out = [(fn, g) for fn, g in self.graphs.items()]
        out.sort(key=lambda p: self.nid(p[0]))
        return out

    def graph_data(self, fn, g):
        """Everything the checkers need about one function graph, as plain Python data (ints only)."""
        m = self.m
        anno, annos = m['anno'], m['annos']
        ans = self.by_graph.get(id(g), {})
        nodes = list(g.index.values())
        idx = {n: self.nid(n.ast_node) for n in nodes}
        d = {'fn': self.nid(fn), 'is_lambda': isinstance(fn, ast.Lambda)}
        d['nodes'] = sorted(idx.values())
        d['edges'] = sorted((idx[n], idx[s]) for n in nodes for s in n.next)
        d['prev_edges'] = sorted((idx[p], idx[n]) for n in nodes for p in n.prev)
        d['entry'] = idx[g.entry]
        d['exits'] = sorted(idx[n] for n in g.exit)
        info = {}
        fns = {}
        parents = _parents(fn)
        for n in nodes:
            a = n.ast_node
            e = {'kind': type(a).__name__, 'scope': None, 'fns_in': None,
                 'skip': anno.hasanno(a, anno.Basic.SKIP_PROCESSING),
                 'is_for_iter': isinstance(parents.get(id(a)), (ast.For, ast.AsyncFor)) and parents[id(a)].iter is a,
                 'is_fndef': isinstance(a, (ast.FunctionDef, ast.Lambda))}
            if e['is_for_iter']:
                e['for_targets'] = self.vids(_target_qns(anno, parents[id(a)].target))
            if anno.hasanno(a, anno.Static.SCOPE):
                s = anno.getanno(a, anno.Static.SCOPE)
                e['scope'] = {k: self.vids(getattr(s, k)) for k in
                              ('read', 'modified', 'deleted', 'bound', 'globals', 'nonlocals', 'annotations')}
                e['scope']['params'] = self.vids(s.params.keys())
            if anno.hasanno(a, anno.Static.DEFINED_FNS_IN):
                fl = []
                for f in anno.getanno(a, anno.Static.DEFINED_FNS_IN):
                    fid = self.nid(f)
                    fl.append(fid)
                    if fid not in fns:
                        fs = anno.getanno(f, annos.NodeAnno.ARGS_AND_BODY_SCOPE)
                        fns[fid] = {'parent': self.fn_parent(f), 'is_lambda': isinstance(f, ast.Lambda), 'read': self.vids(fs.read),
                                    'bound': self.vids(fs.bound), 'nonlocals': self.vids(fs.nonlocals),
                                    'globals': self.vids(fs.globals), 'modified': self.vids(fs.modified)}
                e['fns_in'] = sorted(fl)
            info[idx[n]] = e
        d['info'] = info
        d['fns'] = fns
        # ---- the REAL solutions
        if 'rd' in ans:
            an = ans['rd']
            def_of = {}
            gen = {}
            for n, st in an.gen_map.items():
                for q, ds in st.value.items():
                    for df in ds:
                        def_of[id(df)] = (self.vid(q), idx[n])
                gen[idx[n]] = sorted((self.vid(q), idx[n]) for q in st.value)
            # definitions created for parameters carry a (weak) reference to the function that owns the parameter
            param_of_bad = 0
            for n, st in an.gen_map.items():
                sc = anno.getanno(n.ast_node, anno.Static.SCOPE)
                for q, ds in st.value.items():
                    for df in ds:
                        want = sc.params.get(q)
                        got = df.param_of() if df.param_of is not None else None
                        if (want is not None) != (got is not None) or (want is not None and got is not want):
                            param_of_bad += 1
            self._def_of = getattr(self, '_def_of', {})
            self._def_of.update(def_of)
            empty_sets = 0

            def st2(st):
                nonlocal empty_sets
                out = []
                for q, ds in st.value.items():
                    if not ds:
                        empty_sets += 1
                    for df in ds:
                        out.append(def_of[id(df)])
                return sorted(out)
            d['rd'] = {'gen': gen, 'in': {idx[n]: st2(an.in_[n]) for n in nodes}, 'out': {idx[n]: st2(an.out[n]) for n in nodes},
                       'keys_out': {idx[n]: self.vids(an.out[n].value.keys()) for n in nodes}, 'empty_sets': empty_sets,
                       'param_of_bad': param_of_bad}
        if 'live' in ans:
            an = ans['live']
            d['live'] = {'in': {idx[n]: self.vids(an.in_[n]) for n in nodes}, 'out': {idx[n]: self.vids(an.out[n]) for n in nodes}}
        if 'fnd' in ans:
            an = ans['fnd']
            d['fnd'] = {'in': {idx[n]: sorted(self.nid(f) for f in an.in_[n].value) for n in nodes},
                        'out': {idx[n]: sorted(self.nid(f) for f in an.out[n].value) for n in nodes},
                        'external': sorted(self.nid(f) for f in an.external_defs)}
        # ---- statement level: the real stmt_prev / stmt_next and the real annotations
        stmts = {}
        for s in set(g.stmt_next) | set(g.stmt_prev):
            sid = self.nid(s)
            inside = sorted(idx[n] for n in nodes if _is_inside(parents, n.ast_node, s))
            e = {'kind': type(s).__name__, 'next': sorted(idx[n] for n in g.stmt_next.get(s, ())),
                 'prev': sorted(idx[n] for n in g.stmt_prev.get(s, ())), 'inside': inside}
            for k, nm in ((anno.Static.LIVE_VARS_OUT, 'live_out'), (anno.Static.LIVE_VARS_IN, 'live_in'),
                          (anno.Static.DEFINED_VARS_IN, 'defined_in')):
                e[nm] = self.vids(anno.getanno(s, k)) if anno.hasanno(s, k) else None
            ent = _entry_ast(s)
            e['entry'] = idx[g.index[ent]] if ent is not None and ent in g.index else None
            stmts[sid] = e
        d['stmts'] = stmts
        # LIVE_VARS_IN / OUT of plain statements that are CFG nodes
        simple = {}
        for n in nodes:
            a = n.ast_node
            if isinstance(a, ast.stmt):
                simple[idx[n]] = {'live_in': self.vids(anno.getanno(a, anno.Static.LIVE_VARS_IN)) if anno.hasanno(a, anno.Static.LIVE_VARS_IN) else None,
                                  'live_out': self.vids(anno.getanno(a, anno.Static.LIVE_VARS_OUT)) if anno.hasanno(a, anno.Static.LIVE_VARS_OUT) else None}
        d['simple'] = simple
        return d

    # ------------------------------------------------------------------ Name-level annotations (C06)
    def name_definitions(self, fn, g):
        """[(name_node_id, var, ctx, cfg_node_id or None, [(var, defnode)...])] for Name/arg nodes lexically in `fn`
        (not in nested function bodies, which belong to their own graph) that carry DEFINITIONS."""
        anno = self.m['anno']
        out = []
        if isinstance(fn, ast.Lambda):
            return out       # reaching_definitions has no analyzer of its own for lambdas
        for nm, cfgnode in _names_with_cfg(fn, g):
            if not anno.hasanno(nm, anno.Static.DEFINITIONS):
                continue
            defs = anno.getanno(nm, anno.Static.DEFINITIONS)
            if not anno.hasanno(nm, anno.Basic.QN):
                continue
            q = anno.getanno(nm, anno.Basic.QN)
            try:
                pairs = sorted(self._def_of[id(df)] for df in defs)
            except KeyError:
                raise Unsupported('DEFINITIONS holds a definition object of no gen_map')
            ctx = type(nm.ctx).__name__ if isinstance(nm, ast.Name) else 'Param'
            out.append((self.nid(nm), self.vid(q), ctx, None if cfgnode is None else self.nid(cfgnode.ast_node), pairs))
        return out


def _parents(fn):
    par = {}
    for p in ast.walk(fn):
        for c in ast.iter_child_nodes(p):
            par[id(c)] = p
    return par


def _is_inside(parents, a, s):
    while a is not None:
        if a is s:
            return True
        a = parents.get(id(a))
    return False


def _target_qns(anno, t):
    out = []
    for n in ast.walk(t):
        if isinstance(n, ast.Name) and anno.hasanno(n, anno.Basic.QN):
            out.append(anno.getanno(n, anno.Basic.QN))
    return out


def _entry_ast(s):
    """The AST node whose CFG node liveness.TreeAnnotator uses as the statement's entry (LIVE_VARS_IN), following
    `_block_statement_live_in`'s fall-back to the entry statement's own annotation when it is a block statement."""
    if isinstance(s, (ast.If, ast.While)):
        return s.test
    if isinstance(s, (ast.For, ast.AsyncFor)):
        return s.iter
    if isinstance(s, (ast.Try, ast.ExceptHandler)):
        return _entry_ast(s.body[0])
    if isinstance(s, (ast.With, ast.AsyncWith)):
        return s.items[0]
    return s


def _names_with_cfg(fn, g):
    """Mirror of reaching_definitions.TreeAnnotator's current_cfg_node bookkeeping: yields (Name|arg node, cfg node)
    for every Name / arg lexically in fn but outside nested FunctionDefs (lambdas are not separate for RD)."""
    out = []

    def visit(node, cur):
        if node in g.index:
            cur = g.index[node]
        if isinstance(node, ast.Name):
            out.append((node, cur))
            return
        if isinstance(node, ast.arg):
            out.append((node, cur))
        if isinstance(node, ast.FunctionDef) and node is not fn:
            return   # separate analyzer (its decorators/defaults were annotated by *its* analyzer, not ours)
        if isinstance(node, (ast.For, ast.AsyncFor)):
            visit(node.target, g.index[node.iter])
            visit(node.iter, cur)
            for s in node.body + node.orelse:
                visit(s, cur)
            return
        for c in ast.iter_child_nodes(node):
            visit(c, cur)
    visit(fn.args, None)
    for s in fn.body:
        visit(s, None)
    return out


# ---------------------------------------------------------------------------------------------
# serialisation for the Lean drivers
# ---------------------------------------------------------------------------------------------
def _assoc(dct):
    return [[k, list(map(list, v)) if v and isinstance(v[0], tuple) else list(v)] for k, v in sorted(dct.items())]


def sx_graph(d):
    """(graph (nodes..) (edges (a b)..) entry (exits..))"""
    return ['graph', d['fn'], d['nodes'], [list(e) for e in d['edges']], d['entry'], d['exits']]


def sx_nodeinfo(d):
    out = []
    for nid in d['nodes']:
        e = d['info'][nid]
        s = e['scope']
        if s is None:
            sc = []
        else:
            sc = [[s['read'], s['modified'], s['deleted'], s['bound'], s['globals'], s['nonlocals'], s['params'], s['annotations']]]
        out.append([nid, sc, e['is_for_iter'], e.get('for_targets', []), e['is_fndef'],
                    [] if e['fns_in'] is None else [e['fns_in']]])
    return out


def sx_fns(d):
    return [[fid, f.get('parent', 0), f['is_lambda'], f['read'], f['bound'], f['nonlocals'], f['globals']] for fid, f in sorted(d['fns'].items())]


def _o(x):
    return [] if x is None else [x]


def sx_sol(dct):
    """{node: [facts]} -> ((node (facts..))..); facts are ints or (var, defnode) pairs"""
    return [[k, [list(f) if isinstance(f, tuple) else f for f in v]] for k, v in sorted(dct.items())]


def sx_stmts(d):
    return [[sid, e['next'], e['prev'], e['inside'], _o(e['entry']), _o(e['live_out']), _o(e['live_in']), _o(e['defined_in'])]
            for sid, e in sorted(d['stmts'].items())]


def sx_names(names):
    """names as returned by Analysis.name_definitions; Names outside any CFG node are dropped (none on the corpus)."""
    return [[i, v, ctx == 'Load', c, [list(p) for p in pairs]] for (i, v, ctx, c, pairs) in names if c is not None]


def graph_args(d):
    return [sexp(sx_graph(d)), sexp(sx_nodeinfo(d)), sexp(sx_fns(d))]


def parse_kv(ans):
    """((k v) ...) -> dict with bools / ints / lists decoded"""
    out = {}
    for kv in common.parse_sexp(ans):
        k, v = kv[0], kv[1]
        if v in ('True', 'False'):
            v = v == 'True'
        elif isinstance(v, str) and v.isdigit():
            v = int(v)
        elif isinstance(v, list):
            v = [int(x) if isinstance(x, str) and x.isdigit() else x for x in v]
        out[k] = v
    return out


def sx_simple(d):
    return [[n, _o(e['live_in']), _o(e['live_out'])] for n, e in sorted(d['simple'].items())]


def c06_graph_line(d, names):
    return ' '.join(['c06.graph'] + graph_args(d) + [sexp(sx_sol(d['rd']['gen'])), sexp(sx_sol(d['rd']['in'])),
                                                     sexp(sx_sol(d['rd']['out'])), sexp(sx_stmts(d)), sexp(sx_names(names))])


def c07_graph_line(d):
    return ' '.join(['c07.graph'] + graph_args(d) + [sexp(sx_sol(d['live']['in'])), sexp(sx_sol(d['live']['out'])),
                                                     sexp(sx_sol(d['fnd']['in'])), sexp(sx_sol(d['fnd']['out'])),
                                                     sexp(d['fnd']['external']), sexp(sx_stmts(d)), sexp(sx_simple(d))])
