"""Python `ast`  <->  S-expression (the format parsed by lean/MaltModel/Py/SexpAst.lean).

`Ser(tree)` walks the tree once, assigns every serialised node a preorder id (1, 2, ...; the order
of the walk below) and records `ids[node] = id` by object identity, so harnesses can refer to real
CFG / annotation objects by id.  Node kinds the Lean side does not know are emitted as
`Other`/`OtherStmt` with their kind name — never silently dropped.

`to_ast(sexp)` is the inverse (ids dropped) and is used to turn model output back into Python source.
"""
import ast

from common import sexp as _sx, parse_sexp

CTX = {ast.Load: 'Load', ast.Store: 'Store', ast.Del: 'Del'}


class Ser:
    def __init__(self, tree=None, annotate_for=None):
        """annotate_for: optional callable For-node -> extra-test expression or None (EXTRA_LOOP_TEST)."""
        self.ids = {}      # id(node) -> serial id
        self.nodes = {}    # serial id -> node
        self.n = 0
        self.annotate_for = annotate_for
        self.kinds = {}
        self.sexp = self.stmt(tree) if isinstance(tree, ast.stmt) else (self.expr(tree) if tree is not None else None)

    def text(self):
        return _sx(self.sexp)

    def _id(self, node):
        self.n += 1
        self.ids[id(node)] = self.n
        self.nodes[self.n] = node
        k = type(node).__name__
        self.kinds[k] = self.kinds.get(k, 0) + 1
        return self.n

    def id_of(self, node):
        return self.ids.get(id(node))

    def ctx(self, node):
        return CTX[type(node.ctx)]

    def opt(self, e):
        return [] if e is None else [self.expr(e)]

    def exprs(self, es):
        return [self.expr(e) if e is not None else 'NoneMarker' for e in es]

    def stmts(self, ss):
        return [self.stmt(s) for s in ss]

    # ------------------------------------------------------------------ expressions
    def expr(self, e):
        if e is None:
            return 'NoneMarker'
        i = self._id(e)
        t = type(e)
        if t is ast.Name:
            return ['Name', i, e.id, self.ctx(e)]
        if t is ast.Constant:
            return ['Constant', i, type(e.value).__name__, repr(e.value)]
        if t is ast.Attribute:
            return ['Attribute', i, self.expr(e.value), e.attr, self.ctx(e)]
        if t is ast.Subscript:
            return ['Subscript', i, self.expr(e.value), self.expr(e.slice), self.ctx(e)]
        if t is ast.Call:
            return ['Call', i, self.expr(e.func), self.exprs(e.args), self.exprs(e.keywords)]
        if t is ast.keyword:
            return ['keyword', i, [] if e.arg is None else [e.arg], self.expr(e.value)]
        if t is ast.BoolOp:
            return ['BoolOp', i, type(e.op).__name__, self.exprs(e.values)]
        if t is ast.UnaryOp:
            return ['UnaryOp', i, type(e.op).__name__, self.expr(e.operand)]
        if t is ast.BinOp:
            return ['BinOp', i, type(e.op).__name__, self.expr(e.left), self.expr(e.right)]
        if t is ast.Compare:
            return ['Compare', i, self.expr(e.left), [type(o).__name__ for o in e.ops], self.exprs(e.comparators)]
        if t is ast.IfExp:
            return ['IfExp', i, self.expr(e.test), self.expr(e.body), self.expr(e.orelse)]
        if t is ast.Lambda:
            return ['Lambda', i, self.expr(e.args), self.expr(e.body)]
        if t is ast.Tuple:
            return ['Tuple', i, self.exprs(e.elts), self.ctx(e)]
        if t is ast.List:
            return ['List', i, self.exprs(e.elts), self.ctx(e)]
        if t is ast.Set:
            return ['Set', i, self.exprs(e.elts)]
        if t is ast.Starred:
            return ['Starred', i, self.expr(e.value), self.ctx(e)]
        if t is ast.NamedExpr:
            return ['NamedExpr', i, self.expr(e.target), self.expr(e.value)]
        if t in (ast.ListComp, ast.SetComp, ast.GeneratorExp):
            return [t.__name__, i, [self.expr(e.elt)], self.exprs(e.generators)]
        if t is ast.DictComp:
            return ['DictComp', i, [self.expr(e.key), self.expr(e.value)], self.exprs(e.generators)]
        if t is ast.comprehension:
            return ['comprehension', i, self.expr(e.target), self.expr(e.iter), self.exprs(e.ifs), bool(e.is_async)]
        if t is ast.arguments:
            return ['arguments', i, self.exprs(e.posonlyargs), self.exprs(e.args), self.opt(e.vararg),
                    self.exprs(e.kwonlyargs), self.exprs(e.kw_defaults), self.opt(e.kwarg), self.exprs(e.defaults)]
        if t is ast.arg:
            return ['arg', i, e.arg, self.opt(e.annotation)]
        if t is ast.withitem:
            return ['withitem', i, self.expr(e.context_expr), self.opt(e.optional_vars)]
        if t is ast.Dict:
            return ['Other', i, 'Dict', [str(len(e.keys))], self.exprs(e.keys) + self.exprs(e.values)]
        if t is ast.Slice:
            return ['Other', i, 'Slice', [], self.exprs([e.lower, e.upper, e.step])]
        if t is ast.JoinedStr:
            return ['Other', i, 'JoinedStr', [], self.exprs(e.values)]
        if t is ast.FormattedValue:
            return ['Other', i, 'FormattedValue', [str(e.conversion)], self.exprs([e.value, e.format_spec])]
        if t in (ast.Await, ast.Yield, ast.YieldFrom):
            return ['Other', i, t.__name__, [], self.exprs([e.value])]
        # unknown expression-side node: generic, children in field order
        kids = []
        for _, v in ast.iter_fields(e):
            if isinstance(v, ast.AST) and not isinstance(v, (ast.expr_context, ast.operator, ast.unaryop, ast.boolop, ast.cmpop)):
                kids.append(v)
            elif isinstance(v, list):
                kids.extend(x for x in v if isinstance(x, ast.AST))
        return ['Other', i, 'Unknown:' + t.__name__, [], [self.expr(k) if isinstance(k, (ast.expr, ast.keyword, ast.arg, ast.arguments)) else 'NoneMarker' for k in kids]]

    # ------------------------------------------------------------------ statements
    def stmt(self, s):
        i = self._id(s)
        t = type(s)
        if t in (ast.FunctionDef, ast.AsyncFunctionDef):
            return ['FunctionDef', i, s.name, self.expr(s.args), self.stmts(s.body), self.exprs(s.decorator_list),
                    self.opt(s.returns), t is ast.AsyncFunctionDef]
        if t is ast.ClassDef:
            return ['ClassDef', i, s.name, self.exprs(s.bases), self.exprs(s.keywords), self.stmts(s.body),
                    self.exprs(s.decorator_list)]
        if t is ast.Return:
            return ['Return', i, self.opt(s.value)]
        if t is ast.Delete:
            return ['Delete', i, self.exprs(s.targets)]
        if t is ast.Assign:
            return ['Assign', i, self.exprs(s.targets), self.expr(s.value)]
        if t is ast.AugAssign:
            return ['AugAssign', i, self.expr(s.target), type(s.op).__name__, self.expr(s.value)]
        if t is ast.AnnAssign:
            return ['AnnAssign', i, self.expr(s.target), self.expr(s.annotation), self.opt(s.value), bool(s.simple)]
        if t in (ast.For, ast.AsyncFor):
            tgt = self.expr(s.target)
            it = self.expr(s.iter)
            extra = self.annotate_for(s) if self.annotate_for else None
            ex = self.opt(extra)
            return ['For', i, tgt, it, self.stmts(s.body), self.stmts(s.orelse), ex, t is ast.AsyncFor]
        if t is ast.While:
            return ['While', i, self.expr(s.test), self.stmts(s.body), self.stmts(s.orelse)]
        if t is ast.If:
            return ['If', i, self.expr(s.test), self.stmts(s.body), self.stmts(s.orelse)]
        if t in (ast.With, ast.AsyncWith):
            return ['With', i, self.exprs(s.items), self.stmts(s.body), t is ast.AsyncWith]
        if t is ast.Raise:
            return ['Raise', i, self.opt(s.exc), self.opt(s.cause)]
        if t is ast.Try:
            return ['Try', i, self.stmts(s.body), self.stmts(s.handlers), self.stmts(s.orelse), self.stmts(s.finalbody)]
        if t is ast.ExceptHandler:
            return ['ExceptHandler', i, self.opt(s.type), [] if s.name is None else [s.name], self.stmts(s.body)]
        if t is ast.Assert:
            return ['Assert', i, self.expr(s.test), self.opt(s.msg)]
        if t is ast.Import:
            return ['Import', i, [[a.name, a.asname or ''] for a in s.names]]
        if t is ast.ImportFrom:
            return ['ImportFrom', i, s.module or '', [[a.name, a.asname or ''] for a in s.names], int(s.level or 0)]
        if t is ast.Global:
            return ['Global', i, list(s.names)]
        if t is ast.Nonlocal:
            return ['Nonlocal', i, list(s.names)]
        if t is ast.Expr:
            return ['Expr', i, self.expr(s.value)]
        if t is ast.Pass:
            return ['Pass', i]
        if t is ast.Break:
            return ['Break', i]
        if t is ast.Continue:
            return ['Continue', i]
        exprs, blocks = [], []
        for _, v in ast.iter_fields(s):
            if isinstance(v, ast.expr):
                exprs.append(v)
            elif isinstance(v, list):
                for x in v:
                    if isinstance(x, ast.stmt) or isinstance(x, ast.ExceptHandler):
                        blocks.append(x)
                    elif isinstance(x, ast.expr):
                        exprs.append(x)
        return ['OtherStmt', i, 'Unknown:' + t.__name__, self.exprs(exprs), self.stmts(blocks)]


# ---------------------------------------------------------------------------------------------
# inverse: S-expression (nested lists of str, as returned by common.parse_sexp) -> ast
# ---------------------------------------------------------------------------------------------
_CTX = {'Load': ast.Load, 'Store': ast.Store, 'Del': ast.Del}
_OPS = {n: getattr(ast, n) for n in
        ['Add', 'Sub', 'Mult', 'MatMult', 'Div', 'Mod', 'Pow', 'LShift', 'RShift', 'BitOr', 'BitXor', 'BitAnd', 'FloorDiv',
         'Not', 'USub', 'UAdd', 'Invert', 'And', 'Or',
         'Eq', 'NotEq', 'Lt', 'LtE', 'Gt', 'GtE', 'Is', 'IsNot', 'In', 'NotIn']}


def _b(x):
    return x in ('True', 'true', '1')


def _const(kind, rep):
    if kind == 'ellipsis':
        return Ellipsis
    return ast.literal_eval(rep)


def to_expr(x):
    if x == 'NoneMarker':
        return None
    k = x[0]
    es = lambda l: [to_expr(e) for e in l]          # noqa: E731
    opt = lambda l: to_expr(l[0]) if l else None    # noqa: E731
    if k == 'Name':
        return ast.Name(id=x[2], ctx=_CTX[x[3]]())
    if k == 'Constant':
        return ast.Constant(value=_const(x[2], x[3]))
    if k == 'Attribute':
        return ast.Attribute(value=to_expr(x[2]), attr=x[3], ctx=_CTX[x[4]]())
    if k == 'Subscript':
        return ast.Subscript(value=to_expr(x[2]), slice=to_expr(x[3]), ctx=_CTX[x[4]]())
    if k == 'Call':
        return ast.Call(func=to_expr(x[2]), args=es(x[3]), keywords=es(x[4]))
    if k == 'keyword':
        return ast.keyword(arg=x[2][0] if x[2] else None, value=to_expr(x[3]))
    if k == 'BoolOp':
        return ast.BoolOp(op=_OPS[x[2]](), values=es(x[3]))
    if k == 'UnaryOp':
        return ast.UnaryOp(op=_OPS[x[2]](), operand=to_expr(x[3]))
    if k == 'BinOp':
        return ast.BinOp(left=to_expr(x[3]), op=_OPS[x[2]](), right=to_expr(x[4]))
    if k == 'Compare':
        return ast.Compare(left=to_expr(x[2]), ops=[_OPS[o]() for o in x[3]], comparators=es(x[4]))
    if k == 'IfExp':
        return ast.IfExp(test=to_expr(x[2]), body=to_expr(x[3]), orelse=to_expr(x[4]))
    if k == 'Lambda':
        return ast.Lambda(args=to_expr(x[2]), body=to_expr(x[3]))
    if k in ('Tuple', 'List'):
        return getattr(ast, k)(elts=es(x[2]), ctx=_CTX[x[3]]())
    if k == 'Set':
        return ast.Set(elts=es(x[2]))
    if k == 'Starred':
        return ast.Starred(value=to_expr(x[2]), ctx=_CTX[x[3]]())
    if k == 'NamedExpr':
        return ast.NamedExpr(target=to_expr(x[2]), value=to_expr(x[3]))
    if k in ('ListComp', 'SetComp', 'GeneratorExp'):
        return getattr(ast, k)(elt=to_expr(x[2][0]), generators=es(x[3]))
    if k == 'DictComp':
        return ast.DictComp(key=to_expr(x[2][0]), value=to_expr(x[2][1]), generators=es(x[3]))
    if k == 'comprehension':
        return ast.comprehension(target=to_expr(x[2]), iter=to_expr(x[3]), ifs=es(x[4]), is_async=int(_b(x[5])))
    if k == 'arguments':
        return ast.arguments(posonlyargs=es(x[2]), args=es(x[3]), vararg=opt(x[4]), kwonlyargs=es(x[5]),
                             kw_defaults=es(x[6]), kwarg=opt(x[7]), defaults=es(x[8]))
    if k == 'arg':
        return ast.arg(arg=x[2], annotation=opt(x[3]))
    if k == 'withitem':
        return ast.withitem(context_expr=to_expr(x[2]), optional_vars=opt(x[3]))
    if k == 'Other':
        kind, attrs, kids = x[2], x[3], x[4]
        if kind == 'Dict':
            n = int(attrs[0])
            return ast.Dict(keys=es(kids[:n]), values=es(kids[n:]))
        if kind == 'Slice':
            return ast.Slice(lower=to_expr(kids[0]), upper=to_expr(kids[1]), step=to_expr(kids[2]))
        if kind == 'JoinedStr':
            return ast.JoinedStr(values=es(kids))
        if kind == 'FormattedValue':
            return ast.FormattedValue(value=to_expr(kids[0]), conversion=int(attrs[0]), format_spec=to_expr(kids[1]))
        if kind in ('Await', 'Yield', 'YieldFrom'):
            return getattr(ast, kind)(value=to_expr(kids[0]))
    raise ValueError('cannot rebuild expression %r' % (x[:3],))


def to_stmt(x):
    k = x[0]
    es = lambda l: [to_expr(e) for e in l]          # noqa: E731
    ss = lambda l: [to_stmt(s) for s in l]          # noqa: E731
    opt = lambda l: to_expr(l[0]) if l else None    # noqa: E731
    if k == 'FunctionDef':
        cls = ast.AsyncFunctionDef if _b(x[7]) else ast.FunctionDef
        return cls(name=x[2], args=to_expr(x[3]), body=ss(x[4]), decorator_list=es(x[5]), returns=opt(x[6]),
                   type_params=[], type_comment=None)
    if k == 'ClassDef':
        return ast.ClassDef(name=x[2], bases=es(x[3]), keywords=es(x[4]), body=ss(x[5]), decorator_list=es(x[6]), type_params=[])
    if k == 'Return':
        return ast.Return(value=opt(x[2]))
    if k == 'Delete':
        return ast.Delete(targets=es(x[2]))
    if k == 'Assign':
        return ast.Assign(targets=es(x[2]), value=to_expr(x[3]), type_comment=None)
    if k == 'AugAssign':
        return ast.AugAssign(target=to_expr(x[2]), op=_OPS[x[3]](), value=to_expr(x[4]))
    if k == 'AnnAssign':
        return ast.AnnAssign(target=to_expr(x[2]), annotation=to_expr(x[3]), value=opt(x[4]), simple=int(_b(x[5])))
    if k == 'For':
        cls = ast.AsyncFor if _b(x[7]) else ast.For
        n = cls(target=to_expr(x[2]), iter=to_expr(x[3]), body=ss(x[4]), orelse=ss(x[5]), type_comment=None)
        if x[6]:
            n._extra_test = to_expr(x[6][0])
        return n
    if k == 'While':
        return ast.While(test=to_expr(x[2]), body=ss(x[3]), orelse=ss(x[4]))
    if k == 'If':
        return ast.If(test=to_expr(x[2]), body=ss(x[3]), orelse=ss(x[4]))
    if k == 'With':
        cls = ast.AsyncWith if _b(x[4]) else ast.With
        return cls(items=es(x[2]), body=ss(x[3]), type_comment=None)
    if k == 'Raise':
        return ast.Raise(exc=opt(x[2]), cause=opt(x[3]))
    if k == 'Try':
        return ast.Try(body=ss(x[2]), handlers=ss(x[3]), orelse=ss(x[4]), finalbody=ss(x[5]))
    if k == 'ExceptHandler':
        return ast.ExceptHandler(type=opt(x[2]), name=x[3][0] if x[3] else None, body=ss(x[4]))
    if k == 'Assert':
        return ast.Assert(test=to_expr(x[2]), msg=opt(x[3]))
    if k == 'Import':
        return ast.Import(names=[ast.alias(name=a, asname=b or None) for a, b in x[2]])
    if k == 'ImportFrom':
        return ast.ImportFrom(module=x[2] or None, names=[ast.alias(name=a, asname=b or None) for a, b in x[3]], level=int(x[4]))
    if k == 'Global':
        return ast.Global(names=list(x[2]))
    if k == 'Nonlocal':
        return ast.Nonlocal(names=list(x[2]))
    if k == 'Expr':
        return ast.Expr(value=to_expr(x[2]))
    if k == 'Pass':
        return ast.Pass()
    if k == 'Break':
        return ast.Break()
    if k == 'Continue':
        return ast.Continue()
    raise ValueError('cannot rebuild statement %r' % (x[:3],))


def strip_ids(x):
    """Replace every node id by 0 (structure-only comparison)."""
    if isinstance(x, list):
        if x and isinstance(x[0], str) and len(x) > 1 and isinstance(x[1], (int, str)) and str(x[1]).isdigit() \
                and (x[0][0].isupper() or x[0] in ('keyword', 'comprehension', 'arguments', 'arg', 'withitem')):
            return [x[0], '0'] + [strip_ids(e) for e in x[2:]]
        return [strip_ids(e) for e in x]
    return x
