"""C19 helper: typed random program generator (DESIGN.md §2.5 "typed programs + resolvers (C19)").

Programs are functions `f(...)` over int/float/bool/str/list/tuple values with assignments, tuple unpacking,
if/while/for joins, re-assignment with a different type on some path, nested functions reading and rebinding
nonlocal variables, calls to typed external and local functions.  The generator keeps its own (correct) record
of the possible run-time types of every definitely-assigned variable, so programs are well-typed by
construction (no TypeError / NameError), loops are bounded, and every return annotation it writes is true.

A `profile` is the set of *hazards* a program may contain — constructs on which the pinned inference is known
to keep stale or conflated type sets (DESIGN.md §8 and known_findings.d/C19.json):
  for_retarget     a `for` target that is an already-typed variable, iterating over values of another type
  aug_retype       `x += e` changing the type of x
  with_as          `with ext_cm(e) as x` re-binding a typed variable
  untyped_assign   assignment whose value the inference cannot type (IfExp, BoolOp, opaque tuple unpacking, loop variable)
  nonlocal_retype  nested function re-binding a nonlocal variable to another type (on some path)
  closure_out      `x = h(g())` where g captures x and the statement changes the type of x
  starred          `a, *b = t` (the starred name and everything after it are typed by their position in the pattern)
With the empty profile ("clean") none of them is generated on purpose.
"""
import collections

PRELUDE = '''
G_I = 3
G_S = 'gs'
G_F = 1.5
G_L = [1, 2]
G_LS = ['a', 'b']
G_X = 3
def ext_i2s(a: int) -> str:
    return 's' * (abs(a) % 3)
def ext_s2i(a: str) -> int:
    return len(a)
def ext_f2f(a: float) -> float:
    return a * 0.5
def ext_i2f(a: int) -> float:
    return a / 2
def ext_any2b(a) -> bool:
    return bool(a)
def ext_i2l(a: int) -> list:
    return [a, 's']
def ext_i2t(a: int) -> tuple:
    return (a, 's')
def ext_id(a):
    return a
def ext_pair(a, b):
    return (a, b)
def ext_sink(*a):
    return None
class ext_box:
    def __init__(self, v):
        self.v = v
class ext_cm:
    def __init__(self, v):
        self.v = v
    def __enter__(self):
        return self.v
    def __exit__(self, *a):
        return False
'''

# name -> (param annotations, return annotation descriptor or None, polymorphism kind or None)
EXTERNALS = {
    'ext_i2s': (['int'], 'str', None), 'ext_s2i': (['str'], 'int', None), 'ext_f2f': (['float'], 'float', None),
    'ext_i2f': (['int'], 'float', None), 'ext_any2b': ([None], 'bool', None), 'ext_i2l': (['int'], 'list', None),
    'ext_i2t': (['int'], 'tuple', None), 'ext_id': ([None], None, 'id'), 'ext_pair': ([None, None], None, 'pair'),
    'ext_sink': ([], None, 'none'), 'ext_cm': ([None], ('other', 'ext_cm'), None),
    'ext_box': ([None], ('other', 'ext_box'), None),
}
GLOBALS = {'G_I': 'int', 'G_S': 'str', 'G_F': 'float', 'G_L': 'list', 'G_LS': 'list', 'ext_cm': ('other', 'type'), 'ext_box': ('other', 'type')}

# a global that generated functions only ever *shadow* (as a loop variable): the inference must not look locals up outside
SHADOW_GLOBALS = {'G_X': 'int'}

HAZARDS = ['for_retarget', 'aug_retype', 'with_as', 'untyped_assign', 'nonlocal_retype', 'closure_out', 'starred']
BASIC = ['int', 'float', 'bool', 'str', 'list']
OUTER_NAMES = ['a', 'b', 'c', 'd', 'e', 'x', 'y', 'z']
INNER_NAMES = ['q', 'r', 's', 't', 'u']

Program = collections.namedtuple('Program', 'source fname inputs features profile key arg_types')
FnSig = collections.namedtuple('FnSig', 'params ret effects')     # params: [(name, type)], ret: type or None, effects: {outer name: (type, always)}


def is_prod(t):
    return isinstance(t, tuple) and t[0] == 'prod'


class Scope:
    def __init__(self, nested=False, pool=None):
        self.env = {}            # definitely assigned name -> frozenset of possible types
        self.frozen = set()      # (shared, mutable) names whose type may not change (captured in a typed position, counters, params)
        self.volatile = set()    # (shared, mutable) names some local function may re-type: never frozen, captured agnostically
        self.fns = {}            # definitely defined local functions: name -> FnSig
        self.nested = nested
        self.pool = pool or OUTER_NAMES
        self.free = {}           # (nested only) captured outer names -> frozenset types at definition time
        self.agn = set()         # (nested only) captured names usable only in type-agnostic positions
        self.loop_vars = 0
        self.counters = 0

    def copy(self):
        s = Scope(self.nested, self.pool)
        s.env, s.fns = dict(self.env), dict(self.fns)
        s.frozen, s.volatile, s.free, s.agn = self.frozen, self.volatile, self.free, self.agn
        s.loop_vars, s.counters = self.loop_vars, self.counters
        return s

    def merge(self, a, b):
        """State after a join of two branches."""
        self.env = {k: a.env[k] | b.env[k] for k in a.env if k in b.env}
        self.fns = {k: a.fns[k] for k in a.fns if k in b.fns and a.fns[k] == b.fns[k]}
        self.loop_vars = max(a.loop_vars, b.loop_vars)
        self.counters = max(a.counters, b.counters)

    def types(self, name):
        return self.env.get(name) or self.free.get(name)

    def assignable(self, exclude=()):
        return [v for v in self.pool if v not in self.frozen and v not in exclude]


class Gen:
    def __init__(self, rng, profile=(), size=10):
        self.rng, self.profile, self.size = rng, set(profile), size
        self.features = set()
        self.nfn = 0
        self.captures = {}
        self.pending = []
        self.in_loop = 0
        self.nredef = 0
        self.nconv = 0

    # ------------------------------------------------------------------ expressions
    def const(self, t):
        r = self.rng
        if t == 'int':
            return str(r.choice([0, 1, 2, 3, 7]))
        if t == 'float':
            return r.choice(['0.5', '1.5', '2.25'])
        if t == 'bool':
            return r.choice(['True', 'False'])
        if t == 'str':
            return repr(r.choice(['a', 'bc', '']))
        if t == 'list':
            return r.choice(['[1, 2]', "['a']", '[]', '[1.5, 2]'])
        if is_prod(t):
            if len(t) == 2:
                return '(%s,)' % self.const(t[1])
            return '(' + ', '.join(self.const(x) for x in t[1:]) + ')'
        raise ValueError(t)

    def vars_of(self, sc, t):
        out = [k for k, v in sc.env.items() if v == frozenset({t})]
        out += [k for k, v in sc.free.items() if v == frozenset({t}) and k not in sc.env and k not in sc.agn]
        return out

    def prod_vars(self, sc, t):
        cands = []
        for name in list(sc.env) + [k for k in sc.free if k not in sc.env and k not in sc.agn]:
            v = sc.types(name)
            if len(v) == 1:
                p = next(iter(v))
                if is_prod(p):
                    cands += [(name, i) for i, x in enumerate(p[1:]) if x == t]
        return cands

    def expr(self, sc, t, depth=0):
        """Source of an expression whose value has exactly type `t` in every execution."""
        r = self.rng
        opts = ['const']
        vs = self.vars_of(sc, t)
        if vs:
            opts += ['var'] * 4
        if depth < 2:
            if t in ('int', 'float', 'str', 'list') or (is_prod(t) and len(t) >= 3):
                opts += ['binop'] * 2
            if t in ('int', 'float'):
                opts += ['unary']
            if t == 'bool':
                opts += ['compare'] * 3 + ['not']
            opts += ['ext'] * 2
            if any(sig.ret == t and not sig.effects for sig in sc.fns.values()):
                opts += ['local'] * 3
            if is_prod(t):
                opts += ['tuple'] * 3
            if t == 'list':
                opts += ['listlit']
            if self.prod_vars(sc, t):
                opts += ['subscript'] * 2
            if t in ('int', 'str', 'float', 'list'):
                opts += ['global']
        k = r.choice(opts)
        e = lambda tt: self.expr(sc, tt, depth + 1)      # noqa: E731
        if k == 'var':
            return r.choice(vs)
        if k == 'binop':
            if t == 'int':
                op = r.choice(['+', '-', '*', '//', '%'])
                if op in ('//', '%'):
                    return '(%s %s %s)' % (e('int'), op, r.choice(['2', '3']))
                return '(%s %s %s)' % (e(r.choice(['int', 'int', 'bool'])), op, e('int'))
            if t == 'float':
                a, b = r.choice([('int', 'float'), ('float', 'int'), ('float', 'float'), ('float', 'bool')])
                if r.random() < 0.2:
                    return '(%s / %s)' % (e('int'), r.choice(['2', '4']))
                return '(%s %s %s)' % (e(a), r.choice(['+', '-', '*']), e(b))
            if t == 'str':
                if r.random() < 0.3:
                    return '(%s * 2)' % e('str') if r.random() < 0.5 else '(2 * %s)' % e('str')
                return '(%s + %s)' % (e('str'), e('str'))
            if t == 'list':
                if r.random() < 0.3:
                    return '(%s * 2)' % e('list')
                return '(%s + %s)' % (e('list'), e('list'))
            cut = r.randrange(2, len(t))
            return '(%s + %s)' % (e(('prod',) + t[1:cut]), e(('prod',) + t[cut:]))
        if k == 'unary':
            return '(-%s)' % e(t)
        if k == 'compare':
            tt = r.choice(['int', 'int', 'float', 'str'])
            op = r.choice(['<', '<=', '>', '>=', '==', '!='])
            if r.random() < 0.15:
                return '(%s < %s <= %s)' % (e('int'), e('int'), e('int'))
            return '(%s %s %s)' % (e(tt), op, e(tt))
        if k == 'not':
            return '(not %s)' % e(r.choice(BASIC))
        if k == 'ext':
            if t == 'str':
                return 'ext_i2s(%s)' % e('int')
            if t == 'int':
                return 'ext_s2i(%s)' % e('str')
            if t == 'float':
                return r.choice(['ext_f2f(%s)' % e('float'), 'ext_i2f(%s)' % e('int')])
            if t == 'bool':
                return 'ext_any2b(%s)' % e(r.choice(BASIC))
            if t == 'list' and r.random() < 0.5:
                return 'ext_i2l(%s)' % e('int')
            if is_prod(t) and len(t) == 3 and r.random() < 0.6:
                return 'ext_pair(%s, %s)' % (e(t[1]), e(t[2]))
            return 'ext_id(%s)' % e(t)
        if k == 'local':
            name = r.choice(sorted(n for n, sig in sc.fns.items() if sig.ret == t and not sig.effects))
            return self.local_call(sc, name, depth)
        if k == 'tuple':
            if len(t) == 2:
                return '(%s,)' % e(t[1])
            return '(' + ', '.join(e(x) for x in t[1:]) + ')'
        if k == 'listlit':
            n = r.randrange(0, 3)
            return '[' + ', '.join(e(r.choice(['int', 'str', 'float'])) for _ in range(n)) + ']'
        if k == 'subscript':
            name, i = r.choice(self.prod_vars(sc, t))
            self.features.add('subscript')
            return '%s[%d]' % (name, i)
        if k == 'global':
            return r.choice(sorted(g for g, tt in GLOBALS.items() if tt == t))
        return self.const(t)

    def local_call(self, sc, name, depth=1):
        sig = sc.fns[name]
        self.features.add('local_call')
        src = '%s(%s)' % (name, ', '.join(self.expr(sc, t, depth + 1) for _, t in sig.params))
        self.pending.append(sig.effects)
        return src

    def any_type(self, depth=0):
        r = self.rng
        if depth < 1 and r.random() < 0.25:
            n = r.choice([1, 2, 2, 3])
            return ('prod',) + tuple(self.any_type(depth + 1) for _ in range(n))
        return r.choice(BASIC if depth == 0 else ['int', 'float', 'str', 'bool'])

    def agnostic(self, sc, name):
        """An expression that is valid whatever the type of `name` is; returns (source, resulting type set)."""
        r = self.rng
        ts = sc.types(name)
        k = r.choice(['copy', 'id', 'pair', 'eq', 'b'])
        if k == 'copy':
            return name, ts
        if k == 'id':
            return 'ext_id(%s)' % name, ts
        if k == 'pair':
            return '(%s, 1)' % name, frozenset(('prod', t, 'int') for t in ts)
        if k == 'eq':
            return '(%s == %s)' % (name, name), frozenset({'bool'})
        return 'ext_any2b(%s)' % name, frozenset({'bool'})

    # ------------------------------------------------------------------ statements
    def apply_effects(self, sc):
        """Account for the nonlocal re-bindings of the local functions called by the expression just generated."""
        for eff in self.pending:
            for x, (t, always) in eff.items():
                if x in sc.env:
                    sc.env[x] = frozenset({t}) if always else sc.env[x] | {t}
        self.pending = []

    def target(self, sc, t):
        """A variable that may receive a value of type `t` now."""
        cands = [n for n in sc.pool if n not in sc.frozen or sc.env.get(n) == frozenset({t})]
        if not cands:
            self.nfresh = getattr(self, 'nfresh', 0) + 1
            return ('h%d' if not sc.nested else 'hh%d') % self.nfresh
        return self.rng.choice(cands)

    def cond(self, sc):
        r = self.rng
        multi = [k for k, v in sc.env.items() if len(v) > 1]
        if multi and r.random() < 0.25:
            return 'ext_any2b(%s)' % r.choice(sorted(multi))
        return self.expr(sc, 'bool', 1)

    def stmts(self, sc, n, depth, ind):
        out = []
        for _ in range(n):
            out += self.stmt(sc, depth, ind)
        return out

    def stmt(self, sc, depth, ind, tries=0):
        r = self.rng
        P = self.profile
        if tries > 6:
            return ['    ' * ind + 'pass']
        again = lambda: self.stmt(sc, depth, ind, tries + 1)     # noqa: E731
        kinds = ['assign'] * 6 + ['retype'] * 3 + ['unpack'] * 2 + ['chain'] * 2 + ['use'] * 2 + ['sink']
        if depth < 2:
            kinds += ['if'] * 4 + ['while'] * 2 + ['for'] * 2
        if depth < 2 and not sc.nested and self.nfn < 3:
            kinds += ['def'] * 3
        if sc.fns:
            kinds += ['call'] * 3
        if sc.fns and depth < 3 and not sc.nested and self.nredef < 3 and any(not sg.effects for sg in sc.fns.values()):
            kinds += ['redef'] * 2
        kinds += ['aug', 'with', 'exotic', 'exotic', 'passif']
        if not sc.nested and depth < 2 and self.nconv < 1:
            kinds += ['conv']
        if 'untyped_assign' in P:
            kinds += ['untyped'] * 2
        if 'closure_out' in P and sc.fns:
            kinds += ['closure_out'] * 3
        k = r.choice(kinds)
        pad = '    ' * ind
        multi = sorted(v for v, ts in sc.env.items() if len(ts) > 1)
        if k in ('assign', 'retype'):
            if k == 'retype':
                cands = sorted(v for v in sc.env if v not in sc.frozen and v in sc.pool)
                if not cands:
                    return again()
                x = r.choice(cands)
                t = self.any_type()
                if frozenset({t}) != sc.env[x]:
                    self.features.add('retype')
            else:
                t = self.any_type()
                x = self.target(sc, t)
            src = self.expr(sc, t)
            self.apply_effects(sc)
            sc.env[x] = frozenset({t})
            return [pad + '%s = %s' % (x, src)]
        if k == 'unpack':
            n = r.choice([2, 2, 3])
            ts = [self.any_type(1) for _ in range(n)]
            av = sc.assignable()
            if len(av) < n:
                return again()
            self.features.add('unpack')
            names = r.sample(av, n)
            form = r.choice(['lit', 'var', 'nested', 'call'])
            if form == 'nested' and n == 3:
                lhs = '%s, (%s, %s)' % tuple(names)
                rhs = self.expr(sc, ('prod', ts[0], ('prod', ts[1], ts[2])))
            elif form == 'call' and n == 2:
                lhs = ', '.join(names)
                rhs = 'ext_pair(%s, %s)' % (self.expr(sc, ts[0], 1), self.expr(sc, ts[1], 1))
            else:
                lhs = ', '.join(names)
                rhs = self.expr(sc, ('prod',) + tuple(ts))
            self.apply_effects(sc)
            for v, t in zip(names, ts):
                sc.env[v] = frozenset({t})
            return [pad + '%s = %s' % (lhs, rhs)]
        if k == 'passif':
            self.features.add('pass_branch')
            c = self.cond(sc)
            self.apply_effects(sc)
            a, b = sc.copy(), sc.copy()
            out = [pad + 'if %s:' % c, pad + '    pass']
            if r.random() < 0.6:
                out += [pad + 'else:'] + self.stmts(b, r.choice([1, 2]), depth + 1, ind + 1)
            sc.merge(a, b)
            return out
        if k == 'conv':
            # a callee VARIABLE assigned from several local functions with mixed annotation status, then called
            av = sc.assignable()
            if not av:
                return again()
            self.nconv += 1
            n = self.nconv
            self.features.add('callee_variable_mixed_annotations')
            y = r.choice(av)
            fa, fu, fp = 'cva%d' % n, 'cvu%d' % n, 'cvp%d' % n
            out = [pad + 'def %s(k0: int) -> int:' % fa, pad + '    return (k0 + 1)',
                   pad + 'def %s(k0):' % fu, pad + '    return ext_i2s(k0)',
                   pad + 'def %s(k0: int):' % fp, pad + '    return (k0, 0.5)']
            rets = {fa: 'int', fu: 'str', fp: ('prod', 'int', 'float')}
            cv = 'conv%d' % n
            c = r.choice([v for v in ('c0', 'c1') if v in sc.env] or [self.cond(sc)])
            self.apply_effects(sc)
            form = r.choice(['ifelse', 'ifonly', 'loop', 'three'])
            if form == 'ifelse':
                f1, f2 = r.sample([fa, fu, fp], 2)
                if fa not in (f1, f2):
                    f1 = fa
                out += [pad + 'if %s:' % c, pad + '    %s = %s' % (cv, f1), pad + 'else:', pad + '    %s = %s' % (cv, f2)]
                used = [f1, f2]
            elif form == 'ifonly':
                f2 = r.choice([fu, fp])
                out += [pad + '%s = %s' % (cv, fa), pad + 'if %s:' % c, pad + '    %s = %s' % (cv, f2)]
                used = [fa, f2]
            elif form == 'loop':
                f2 = r.choice([fu, fp])
                out += [pad + '%s = %s' % (cv, fa), pad + 'for cvi%d in [1, 2]:' % n, pad + '    if %s:' % c,
                        pad + '        %s = %s' % (cv, f2)]
                used = [fa, f2]
            else:
                out += [pad + '%s = %s' % (cv, fu), pad + 'if %s:' % c, pad + '    %s = %s' % (cv, fa), pad + 'else:',
                        pad + '    if %s:' % self.cond(sc), pad + '        %s = %s' % (cv, fp)]
                self.apply_effects(sc)
                used = [fa, fu, fp]
            arg = self.expr(sc, 'int', 1)
            self.apply_effects(sc)
            out.append(pad + '%s = %s(%s)' % (y, cv, arg))
            sc.env[y] = frozenset(rets[f] for f in used)
            return out
        if k == 'exotic':
            # constructs the inference only walks through (`generic_visit`) or types via attributes / general callees
            self.features.add('exotic')
            form = r.choice(['dict', 'fstring', 'slice', 'comp', 'stararg', 'callcall', 'box', 'boxattr', 'attrtarget',
                             'subtarget', 'augsub'])
            anyv = sorted(sc.env) or None
            v = r.choice(anyv) if anyv else None
            e1 = self.expr(sc, r.choice(['int', 'str', 'float']), 1)
            self.apply_effects(sc)
            if form == 'dict':
                return [pad + "ext_sink({'k': %s, 1: %s})" % (e1, v or '0')]
            if form == 'fstring':
                return [pad + "ext_sink(f'{%s}-{%s!r:>4}')" % (e1, v or '0')]
            if form == 'slice':
                return [pad + 'ext_sink(%s[0:1], %s[::2])' % (self.expr(sc, 'list', 1), self.expr(sc, 'str', 1))]
            if form == 'comp':
                return [pad + 'ext_sink([cv for cv in G_L if cv], {cv: %s for cv in G_LS})' % e1]
            if form == 'stararg':
                return [pad + 'ext_sink(*%s)' % self.expr(sc, ('prod', 'int', 'str'), 1)]
            if form == 'callcall':
                return [pad + 'ext_sink(ext_id(ext_i2s)(%s))' % self.expr(sc, 'int', 1)]
            if form in ('box', 'boxattr', 'attrtarget', 'subtarget', 'augsub'):
                out = [pad + 'bx = ext_box(%s)' % e1]
                sc.env.pop('bx', None)
                if form == 'boxattr':
                    out.append(pad + 'ext_sink(bx.v, bx.v.w if False else 0)')
                elif form == 'attrtarget':
                    out.append(pad + 'bx.v = bx.w = %s' % e1)
                    out.append(pad + 'bx.v += %s' % e1)
                elif form == 'subtarget':
                    out.append(pad + 'bl = [0, 1]')
                    out.append(pad + 'bl[0] = bl[1] = %s' % e1)
                elif form == 'augsub':
                    out.append(pad + 'bl = [1, 2]')
                    out.append(pad + 'bl[0] += 1')
                return out
        if k == 'chain':
            # t1 = t2 = ... = value: several targets mixing plain names and (nested / starred) patterns, in any order
            n = r.choice([2, 2, 3])
            ts = [self.any_type(1) for _ in range(n)]
            nested = n == 3 and r.random() < 0.4
            vt = ('prod', ts[0], ('prod', ts[1], ts[2])) if nested else ('prod',) + tuple(ts)
            ntargets = r.choice([2, 2, 3])
            av = sc.assignable()
            r.shuffle(av)
            lhs, binds = [], []
            forms = [r.choice(['name', 'pattern', 'pattern']) for _ in range(ntargets)]
            if 'pattern' not in forms:
                forms[r.randrange(ntargets)] = 'pattern'
            for form in forms:
                if form == 'name':
                    if not av:
                        return again()
                    x = av.pop()
                    lhs.append(x)
                    binds.append((x, vt))
                    continue
                if len(av) < n:
                    return again()
                names = [av.pop() for _ in range(n)]
                if nested:
                    style = r.choice(['(%s, (%s, %s))', '%s, (%s, %s)', '[%s, [%s, %s]]', '%s, [%s, %s]'])
                    lhs.append(style % tuple(names))
                    binds += list(zip(names, ts))
                elif 'starred' in P and r.random() < 0.6:
                    pos = r.randrange(n)
                    self.features.add('hazard:starred')
                    lhs.append(', '.join(('*' + v) if i == pos else v for i, v in enumerate(names)))
                    binds += [(v, 'list' if i == pos else ts[i]) for i, v in enumerate(names)]
                else:
                    style = r.choice(['(%s)', '%s', '[%s]'])
                    lhs.append(style % ', '.join(names))
                    binds += list(zip(names, ts))
            self.features.add('chained_assign')
            rhs = self.expr(sc, vt)
            self.apply_effects(sc)
            for v, t in binds:
                sc.env[v] = frozenset({t})
            return [pad + ' = '.join(lhs + [rhs])]
        if k == 'use':
            av = sc.assignable()
            if not multi or not av:
                return again()
            self.features.add('multi_use')
            v = r.choice(multi)
            src, ts = self.agnostic(sc, v)
            av = [n for n in av if n != v]       # `v = (v, 1)` in a loop has no finite type: the inference would never stop
            if not av:
                return again()
            x = r.choice(av)
            sc.env[x] = ts
            return [pad + '%s = %s' % (x, src)]
        if k == 'sink':
            if not sc.env:
                return again()
            vs = r.sample(sorted(sc.env), min(len(sc.env), r.choice([1, 2])))
            return [pad + 'ext_sink(%s)' % ', '.join(vs)]
        if k == 'if':
            self.features.add('if')
            c = self.cond(sc)
            self.apply_effects(sc)
            a, b = sc.copy(), sc.copy()
            body = self.stmts(a, r.choice([1, 2, 2, 3]), depth + 1, ind + 1)
            out = [pad + 'if %s:' % c] + body
            if r.random() < 0.6:
                out += [pad + 'else:'] + self.stmts(b, r.choice([1, 2]), depth + 1, ind + 1)
            sc.merge(a, b)
            return out
        if k == 'while':
            self.features.add('while')
            sc.counters += 1
            cn = ('n%d' if not sc.nested else 'm%d') % sc.counters
            out = [pad + '%s = 0' % cn]
            sc.env[cn] = frozenset({'int'})
            sc.frozen.add(cn)
            out += [pad + 'while %s < %d:' % (cn, r.choice([1, 2, 2]))]
            out += self.loop_body(sc, depth, ind, counter=cn)
            out += ['    ' * (ind + 1) + '%s = %s + 1' % (cn, cn)]
            return out
        if k == 'for':
            self.features.add('for')
            sc.loop_vars += 1
            elt, it = r.choice([('int', '[1, 2]'), ('str', "['p', 'q']"), ('int', 'G_L'), ('str', 'G_LS'), ('int', 'range(2)'),
                                ('float', '[0.5]'), ('int', '[]')])
            lv = None
            if 'for_retarget' in P and r.random() < 0.6:
                cands = sorted(v for v in sc.env if v not in sc.frozen and v in sc.pool)
                if cands:
                    lv = r.choice(cands)
                    self.features.add('hazard:for_retarget')
            if lv is None and elt == 'str' and not sc.nested and 'G_X' not in sc.env and r.random() < 0.25:
                lv = 'G_X'            # shadows the int global G_X with str values
                self.features.add('shadowed_global')
            if lv is None:
                lv = ('i%d' if not sc.nested else 'j%d') % sc.loop_vars
            out = [pad + 'for %s in %s:' % (lv, it)]
            pre = sc.env.get(lv)
            sc.env[lv] = (pre | {elt}) if pre else frozenset({elt})
            body = self.loop_body(sc, depth, ind, loopvar=lv)
            if pre is None:
                sc.env.pop(lv, None)                # not definitely assigned after a possibly empty loop
            return out + body
        if k == 'def':
            return self.gen_def(sc, depth, ind)
        if k == 'redef':
            # the same name defined again (on this path only, in a loop body, after a call, ...): after a join BOTH
            # definitions reach the later call sites
            self.nredef += 1
            self.features.add('redefined_local_function')
            return self.gen_def(sc, depth, ind, redef=r.choice(sorted(g for g, sg in sc.fns.items() if not sg.effects)))
        if k == 'call':
            names = sorted(g for g, sg in sc.fns.items() if not (sg.effects and self.in_loop))
            if not names:
                return again()
            name = r.choice(names)
            sig = sc.fns[name]
            src = self.local_call(sc, name, 0)
            if r.random() < 0.25:
                self.apply_effects(sc)
                return [pad + src]
            if sig.ret is None:
                self.apply_effects(sc)
                return [pad + 'ext_sink(%s)' % src]
            x = self.target(sc, sig.ret)
            self.apply_effects(sc)
            sc.env[x] = frozenset({sig.ret})
            return [pad + '%s = %s' % (x, src)]
        if k == 'aug':
            cands = sorted(v for v, ts in sc.env.items() if ts in (frozenset({'int'}), frozenset({'str'}), frozenset({'float'}))
                           and v in sc.pool)
            if not cands:
                return again()
            self.features.add('augassign')
            x = r.choice(cands)
            t = next(iter(sc.env[x]))
            if 'aug_retype' in P and t == 'int' and x not in sc.frozen and r.random() < 0.7:
                self.features.add('hazard:aug_retype')
                src = self.expr(sc, 'float', 1)
                self.apply_effects(sc)
                sc.env[x] = frozenset({'float'})
                return [pad + '%s += %s' % (x, src)]
            src = self.expr(sc, t, 1)
            self.apply_effects(sc)
            return [pad + '%s %s= %s' % (x, '+' if t != 'float' else r.choice('+-*'), src)]
        if k == 'with':
            self.features.add('with')
            t = self.any_type(1)
            src = self.expr(sc, t, 1)
            self.apply_effects(sc)
            x = None
            if 'with_as' in P and r.random() < 0.7:
                cands = sorted(v for v in sc.env if v not in sc.frozen and v in sc.pool)
                if cands:
                    x = r.choice(cands)
                    self.features.add('hazard:with_as')
            if x is None:
                x = ('w%d' if not sc.nested else 'v%d') % r.randrange(2)
                if x in sc.frozen:
                    return again()
            sc.env[x] = frozenset({t})
            body = self.stmts(sc, r.choice([1, 2]), depth + 1, ind + 1)
            return [pad + 'with ext_cm(%s) as %s:' % (src, x)] + body
        if k == 'untyped':
            form = r.choice(['ifexp', 'boolop', 'opaque', 'listunpack'])
            cands = sc.assignable()
            if len(cands) < 2:
                return again()
            self.features.add('hazard:untyped_assign')
            x, y = r.sample(cands, 2)
            if form == 'ifexp':
                t1, t2 = self.any_type(1), self.any_type(1)
                src = '(%s if %s else %s)' % (self.expr(sc, t1, 1), self.cond(sc), self.expr(sc, t2, 1))
                self.apply_effects(sc)
                sc.env[x] = frozenset({t1, t2})
                return [pad + '%s = %s' % (x, src)]
            if form == 'boolop':
                t1 = r.choice(['str', 'int', 'float'])
                src = '(%s and %s)' % (self.expr(sc, 'bool', 1), self.expr(sc, t1, 1))
                self.apply_effects(sc)
                sc.env[x] = frozenset({'bool', t1})
                return [pad + '%s = %s' % (x, src)]
            src = ('ext_i2t(%s)' if form == 'opaque' else 'ext_i2l(%s)') % self.expr(sc, 'int', 1)
            self.apply_effects(sc)
            sc.env[x], sc.env[y] = frozenset({'int'}), frozenset({'str'})
            return [pad + '%s, %s = %s' % (x, y, src)]
        if k == 'closure_out':
            # x = ext_i2s(g()) where g captures x: the statement that calls g also re-types x
            cands = sorted(g for g, sig in sc.fns.items() if not sig.params and sig.ret == 'int' and not sig.effects)
            if not cands:
                return again()
            g = r.choice(cands)
            xs = sorted(x for x in self.captures.get(g, ()) if x in sc.env and x not in sc.frozen and x in sc.pool)
            if not xs:
                return again()
            x = r.choice(xs)
            self.features.add('hazard:closure_out')
            src = self.local_call(sc, g, 1)
            self.apply_effects(sc)
            sc.env[x] = frozenset({'str'})
            return [pad + '%s = ext_i2s(%s)' % (x, src)]
        raise ValueError(k)

    def loop_body(self, sc, depth, ind, loopvar=None, counter=None):
        """Body of a loop.  Every variable that exists before the loop keeps its type inside the body (it is frozen
        while the body is generated), except one planned variable whose set of types is widened *before* the body is
        generated, so that the body is valid on every iteration.  Variables first assigned in the body are only read
        after their assignment in the same iteration."""
        r = self.rng
        pad = '    ' * (ind + 1)
        plan = None
        cands = sorted(v for v in sc.env if v not in sc.frozen and v in sc.pool and v != loopvar)
        if cands and r.random() < 0.6:
            x = r.choice(cands)
            t = self.any_type(1)
            plan = (x, t)
            sc.env[x] = sc.env[x] | {t}
            self.features.add('loop_retype')
        # a jump / no-op node as the carrier of a copied value: `z = src` followed by continue / break / pass at the end of
        # a branch, placed BEFORE the re-typing of `src`, so that the later type of `src` reaches `z` only through that node
        # in a later round of the fixed-point iteration
        jump = None
        zc = [v for v in cands if plan is None or v != plan[0]]
        if zc and r.random() < 0.55:
            z = r.choice(zc)
            srcs = [plan[0]] * 4 if plan else []
            srcs += [v for v in sorted(sc.env) if v != z and v != loopvar]
            if srcs:
                srcv = r.choice(srcs)
                sc.env[z] = sc.env[z] | sc.env[srcv]
                jump = (z, srcv, r.choice(['continue', 'continue', 'break', 'pass']), r.choice(['then', 'else', 'passthen']))
                self.features.add('jump_carrier:' + jump[2])
        tmp_frozen = [v for v in sc.env if v not in sc.frozen]
        sc.frozen.update(tmp_frozen)
        self.in_loop += 1            # no calls to functions that re-type nonlocals inside loops (types must be loop-invariant)
        body_sc = sc.copy()
        body = []
        if loopvar is not None:
            av = [v for v in sc.pool if v not in sc.env and v not in sc.frozen]
            if 'untyped_assign' in self.profile and av and r.random() < 0.5:
                y = r.choice(av)
                body.append(pad + '%s = %s' % (y, loopvar))
                body_sc.env[y] = body_sc.env[loopvar]
                self.features.add('hazard:untyped_assign')
            elif r.random() < 0.3:
                body.append(pad + 'ext_sink(%s.__class__, %s.__str__())' % (loopvar, loopvar))    # attribute / method of an untyped value
                self.features.add('attr_of_untyped')
            else:
                body.append(pad + 'ext_sink(%s)' % loopvar)
        if jump is not None:
            z, srcv, jk, shape = jump
            c = self.cond(body_sc)
            self.apply_effects(body_sc)
            tail = [pad + '    %s = %s' % (z, srcv)]
            if jk == 'continue' and counter is not None:
                tail.append(pad + '    %s = %s + 1' % (counter, counter))
            tail.append(pad + '    ' + jk)
            if shape == 'then':
                body += [pad + 'if %s:' % c] + tail
            elif shape == 'else':
                body += [pad + 'if %s:' % c, pad + '    ext_sink(%s)' % srcv, pad + 'else:'] + tail
            else:
                body += [pad + 'if %s:' % c, pad + '    pass', pad + 'else:'] + tail
        nb = r.choice([1, 2, 2])
        pos = r.randrange(nb + 1) if plan else -1
        for i in range(nb + 1):
            if i == pos:
                x, t = plan
                src = self.expr(body_sc, t, 1)
                self.apply_effects(body_sc)
                body.append(pad + '%s = %s' % (x, src))
                # x stays widened for the rest of the body as far as the generator is concerned
            if i < nb:
                body += self.stmts(body_sc, 1, depth + 1, ind + 1)
        sc.frozen.difference_update(tmp_frozen)
        self.in_loop -= 1
        after = sc.copy()
        sc.merge(after, body_sc)
        return body

    # ------------------------------------------------------------------ nested functions
    def gen_def(self, sc, depth, ind, redef=None):
        r = self.rng
        P = self.profile
        pad = '    ' * ind
        bpad = '    ' * (ind + 1)
        if redef is None:
            name = 'g%d' % self.nfn
            self.nfn += 1
        else:
            name = redef
        self.features.add('nested_def')
        nparams = r.choice([0, 0, 1, 1, 2])
        params = [('k%d' % i, r.choice(['int', 'str', 'float', 'bool'])) for i in range(nparams)]
        unanno = set()
        # unannotated parameters (the resolver knows nothing about them): some re-use the NAME of a typed variable of the
        # enclosing function (possibly one that other local functions capture or rebind) and receive values of another
        # type; the others (fresh name, or annotated) are the controls
        for i, (pn, pt) in enumerate(params):
            u = r.random()
            if u < 0.35:
                outer = sorted(v for v, ts in sc.env.items() if v in OUTER_NAMES and pt not in ts
                               and v not in [q for q, _ in params])
                if outer:
                    params[i] = (r.choice(outer), pt)
                    self.features.add('param_named_like_outer_var')
                unanno.add(params[i][0])
            elif u < 0.5:
                unanno.add(pn)
        if unanno:
            self.features.add('unannotated_param')
        ret = r.choice(['int', 'str', 'float', 'bool', None, None])
        if 'closure_out' in P and r.random() < 0.6:
            params, ret, unanno = [], 'int', set()
        if redef is not None:                        # same calling interface as the definition it may replace
            params, ret, unanno = list(sc.fns[redef].params), sc.fns[redef].ret, set()
        inner = Scope(nested=True, pool=INNER_NAMES)
        inner.frozen = set()
        inner.volatile = set()
        for p, t in params:
            inner.env[p] = frozenset({t})
            inner.frozen.add(p)
        pnames = {q for q, _ in params}
        avail = sorted(v for v in sc.env if (v in OUTER_NAMES or v.startswith(('p', 'c'))) and v not in pnames)
        capt = r.sample(avail, min(len(avail), r.choice([0, 1, 1, 2, 3])))
        for x in capt:
            ts = sc.env[x]
            inner.free[x] = ts
            if len(ts) == 1 and x not in sc.volatile and 'closure_out' not in P and r.random() < 0.7:
                sc.frozen.add(x)                     # typed use allowed: the type of x may not change any more
            elif x not in sc.frozen or len(ts) > 1:
                inner.agn.add(x)
        self.captures[name] = set(capt) | (self.captures.get(name, set()) if redef is not None else set())
        if capt:
            self.features.add('closure_read')
        inner.fns = {g: sig for g, sig in sc.fns.items() if not sig.effects and g != name}
        head, body, effects = [], [], {}
        nl = [x for x in capt if x not in sc.frozen and x in OUTER_NAMES] if redef is None else []
        if nl and r.random() < 0.6:
            x = r.choice(nl)
            cur = sc.env[x]
            t = None
            if 'nonlocal_retype' in P and r.random() < 0.75:
                t = self.any_type(1)
                if frozenset({t}) != cur:
                    self.features.add('hazard:nonlocal_retype')
            elif len(cur) == 1:
                t = next(iter(cur))
            if t is not None:
                self.features.add('nonlocal_rebind')
                sc.volatile.add(x)
                head.append(bpad + 'nonlocal %s' % x)
                always = r.random() < 0.5
                inner.agn.add(x)
                src = self.expr(inner, t, 1)
                if always:
                    body.append(bpad + '%s = %s' % (x, src))
                else:
                    body.append(bpad + 'if %s:' % self.cond(inner))
                    body.append(bpad + '    %s = %s' % (x, src))
                effects[x] = (t, always)
        for _ in range(r.choice([0, 1, 2])):
            save, self.nfn = self.nfn, 99            # no defs inside nested defs
            try:
                body += self.stmt(inner, 1, ind + 1)
            finally:
                self.nfn = save
        for x in capt:
            if r.random() < 0.7:
                y = r.choice(INNER_NAMES)
                if y in inner.frozen:
                    continue
                if x in inner.agn:
                    body.append(bpad + '%s = %s' % (y, r.choice([x, 'ext_id(%s)' % x, '(%s, 0)' % x])))
                    inner.env.pop(y, None)           # its type is whatever x is at the time of the call
                else:
                    t = next(iter(inner.free[x]))
                    body.append(bpad + '%s = %s' % (y, self.expr(inner, t, 1)))
                    inner.env[y] = frozenset({t})
        if ret is None:
            vs = sorted(inner.env) + sorted(inner.free)
            body.append(bpad + 'return %s' % (r.choice(vs) if vs and r.random() < 0.8 else self.const('int')))
            anno = ''
        else:
            if r.random() < 0.3:
                body.append(bpad + 'if %s:' % self.cond(inner))
                body.append(bpad + '    return %s' % self.expr(inner, ret, 1))
            body.append(bpad + 'return %s' % self.expr(inner, ret, 1))
            anno = ' -> %s' % ret
        self.pending = []                            # calls inside the body happen when the body runs, not now
        sc.fns[name] = FnSig(tuple(params), ret, effects)
        hdr = pad + 'def %s(%s)%s:' % (name, ', '.join(p if p in unanno else '%s: %s' % (p, t) for p, t in params), anno)
        return [hdr] + head + body

    # ------------------------------------------------------------------ whole program
    def program(self, key):
        r = self.rng
        sc = Scope()
        params = []
        choices = [('p0', 'int'), ('p1', 'str'), ('c0', 'bool'), ('p3', 'float'), ('c1', 'bool'), ('p2', None)]
        for p, t in choices:
            if r.random() < (0.8 if p in ('p0', 'c0') else 0.5):
                params.append((p, t))
        inputs = []
        vals = {'int': [0, 2, 5, -1], 'str': ['', 'hi', 'z'], 'bool': [True, False], 'float': [0.5, 2.0]}
        unanno_types = {}
        for p, t in params:
            if t is None:
                unanno_types[p] = r.choice([['int'], ['str'], ['int', 'str'], ['float', 'int']])
        for i in range(4):
            row = []
            for p, t in params:
                tt = t if t is not None else unanno_types[p][i % len(unanno_types[p])]
                if tt == 'bool':
                    row.append(bool((i >> (1 if p == 'c1' else 0)) & 1))
                else:
                    row.append(vals[tt][(i + r.randrange(4)) % len(vals[tt])])
            inputs.append(tuple(row))
        arg_types = {}
        for p, t in params:
            ts = frozenset({t}) if t is not None else frozenset(unanno_types[p])
            sc.env[p] = ts
            sc.frozen.add(p)
            if t is None:
                arg_types[('f', p)] = ts
        body = self.stmts(sc, self.size, 0, 1)
        rv = sorted(sc.env)
        r.shuffle(rv)
        ret = ', '.join(rv[:r.choice([1, 2, 3])]) if rv else '0'
        hdr = 'def f(%s):' % ', '.join(p if t is None else '%s: %s' % (p, t) for p, t in params)
        src = '\n'.join([hdr] + body + ['    return %s' % ret]) + '\n'
        return Program(src, 'f', inputs, sorted(self.features), sorted(self.profile), key, arg_types)


def profiles(rng, n, clean_share=0.5):
    """n profiles: a share of clean ones, the rest with 1-3 random hazards."""
    out = []
    for i in range(n):
        if rng.random() < clean_share:
            out.append(())
        else:
            out.append(tuple(sorted(rng.sample(HAZARDS, rng.choice([1, 1, 2, 3])))))
    return out


def generate(rng, n, size=10, clean_share=0.5):
    import random
    for i, prof in enumerate(profiles(rng, n, clean_share)):
        sub = rng.randrange(1 << 30)
        g = Gen(random.Random(sub), prof, size=size)
        yield g.program('r%d-%d' % (i, sub))


# Hand-written witnesses of the known findings (replayed first on every run) and of the sound core.
WITNESSES = [
    ('for_target', 'retyped_by_untracked_binder', "def f():\n    x = 1\n    for x in ['a']:\n        pass\n    return x\n", [()]),
    ('augassign', 'retyped_by_untracked_binder', "def f():\n    x = 1\n    x += 1.5\n    return x\n", [()]),
    ('with_as', 'retyped_by_untracked_binder', "def f():\n    x = 1\n    with ext_cm('a') as x:\n        pass\n    return x\n", [()]),
    ('ifexp', 'retyped_by_untyped_assignment', "def f(c0: bool):\n    x = 1\n    x = ('a' if c0 else 2.5)\n    y = x\n    return y\n", [(True,), (False,)]),
    ('opaque_unpack', 'retyped_by_untyped_assignment', "def f():\n    a = 'q'\n    a, b = ext_i2t(1)\n    return a\n", [()]),
    ('local_call_side_effect', 'retyped_by_local_call_side_effect',
     "def f():\n    x = 1\n    def g0():\n        nonlocal x\n        x = 'a'\n        return 0\n    g0()\n    z = x\n    return z\n", [()]),
    ('nonlocal_partial', 'nonlocal_rebound_in_callee',
     "def f(c0: bool):\n    x = 1\n    def g0():\n        nonlocal x\n        if c0:\n            x = 'a'\n        return x\n    return g0()\n", [(True,), (False,)]),
    ('closure_out', 'captured_var_rebound_by_calling_statement',
     "def f():\n    x = 1\n    def g0() -> int:\n        return x\n    x = ext_i2s(g0())\n    return x\n", [()]),
    ('no_fixed_point', 'no_fixed_point_nonmonotone_transfer',
     "def f(p0: int, c0: bool):\n    if c0:\n        ext_sink(c0)\n        y = 1\n    for i1 in [1, 2]:\n        y = i1\n        if c0:\n            c = 1\n            y, c = ('s', p0 >= y)\n        ext_sink(c0)\n", [(1, True)]),
    ('unbounded_products', 'no_fixed_point_unbounded_product_types',
     "def f(c0: bool):\n    x = 1\n    while c0:\n        x = (x, 1)\n    return x\n", [(False,)]),
    ('starred_target', 'starred_target_typed_by_position',
     "def f():\n    a, *b = (1, 'x', 2.5)\n    c = b\n    return c\n", [()]),
    ('sibling_call', 'local_function_called_from_sibling',
     "def f():\n    x = 1\n    def g0():\n        return x\n    g0()\n    def g1():\n        return g0()\n    x = 'a'\n    g1()\n    return x\n", [()]),
]
