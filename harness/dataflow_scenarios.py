"""Deliberately generated executable programs for the C06 / C07 oracles (in addition to progen's skeletons and random
programs): zero-trip `for` loops over a pre-defined target, loop targets reassigned in the body and used afterwards,
closures (free reads, `nonlocal` reads/writes, nested two levels) called at arbitrary later points, lambdas called
after their statement, locals first bound by a closure, `del`, `with … as`, explicit raise/handler/finally, loops with
break/continue.  Same conventions as progen.Program: function `f(a, b, c)`, decisions through d()/n(), effects through tr().
"""
import itertools, random

import progen


class _B:
    def __init__(self, rng):
        self.rng = rng
        self.k = 0
        self.L = []
        self.features = set()

    def slot(self):
        self.k += 1
        return self.k

    def e(self, ind, s):
        self.L.append('    ' * ind + s)

    def use(self, v):
        return 'tr(%d, %s)' % (self.slot(), v)

    def filler(self, ind, vs, n):
        """n statements that may or may not overwrite one of vs, under decisions"""
        r = self.rng
        for _ in range(n):
            v = r.choice(vs)
            c = r.randrange(6)
            if c == 0:
                self.e(ind, '%s = %s' % (v, self.use(r.choice(vs))))
            elif c == 1:
                self.e(ind, 'if d():'); self.e(ind + 1, '%s = tr(%d)' % (v, self.slot()))
            elif c == 2:
                self.e(ind, self.use(v))
            elif c == 3:
                self.e(ind, 'while d():'); self.e(ind + 1, '%s += 1' % v)
            elif c == 4:
                self.e(ind, 'if d():'); self.e(ind + 1, self.use(v)); self.e(ind, 'else:'); self.e(ind + 1, '%s = 0' % v)
            else:
                self.e(ind, 'for %s in n():' % r.choice(['i', 'j'])); self.e(ind + 1, self.use(v))

    def prog(self, kind):
        src = progen.PRELUDE + '\n'.join(self.L) + '\n'
        self.features.add(kind)
        dv = progen.decision_vectors(random.Random(self.rng.getrandbits(30)), 6, 10)
        return progen.Program(src, [(1, 2, 3), (0, -1, 5)], self.features, 'scenario', decisions=dv, meta={'scenario': kind})


def _head(b, init='xyz'):
    b.e(0, 'def f(a, b, c):')
    for v, s in zip('xyz', 'abc'):
        if v in init:
            b.e(1, '%s = %s' % (v, s))
    b.e(1, 'w = 0'); b.e(1, 'i = 0'); b.e(1, 'j = 0')


def zero_trip(rng, variant):
    b = _B(rng)
    _head(b)
    r = rng
    if variant % 4 == 1:
        b.e(1, 'if d():'); b.e(2, 'x = tr(%d)' % b.slot()); b.e(1, 'else:'); b.e(2, 'x = tr(%d)' % b.slot())
    b.filler(1, ['y', 'z'], r.randrange(0, 2))
    tgt = ['x', 'i, x', 'x, i'][variant % 3]
    it = 'n()' if ',' not in tgt else '[(q, q + 1) for q in n()]'
    ind = 1
    if variant % 5 == 3:
        b.e(1, 'while d():'); ind = 2
    b.e(ind, 'for %s in %s:' % (tgt, it))
    body = variant % 6
    if body == 0:
        b.e(ind + 1, 'pass')
    elif body == 1:
        b.e(ind + 1, b.use('x'))
    elif body == 2:
        b.e(ind + 1, 'x = tr(%d, x)' % b.slot())          # target reassigned in the body
    elif body == 3:
        b.e(ind + 1, 'if d():'); b.e(ind + 2, 'break'); b.e(ind + 1, 'y = ' + b.use('x'))
    elif body == 4:
        b.e(ind + 1, 'if d():'); b.e(ind + 2, 'continue'); b.e(ind + 1, 'x += 1')
    else:
        b.e(ind + 1, 'for x in n():'); b.e(ind + 2, b.use('x'))
    b.filler(1, ['y', 'z'], r.randrange(0, 2))
    if variant % 2:
        b.e(1, 'if d():'); b.e(2, 'w = ' + b.use('x'))
    b.e(1, 'return tr(0, x, w)')
    return b.prog('zero_trip_for')


def closure(rng, variant):
    b = _B(rng)
    _head(b)
    r = rng
    mode = variant % 6     # 0 free read, 1 nonlocal read+write, 2 nonlocal write only, 3 nonlocal declared but only read, 4 two levels, 5 two levels nonlocal
    b.features.add('nested_def')
    b.e(1, 'def g(p=0):')
    if mode in (1, 2, 3):
        b.e(2, 'nonlocal x'); b.features.add('nonlocal')
    if mode == 0:
        b.e(2, 'return tr(%d, x + p)' % b.slot())
    elif mode == 1:
        b.e(2, 'x = x + 1'); b.e(2, 'return tr(%d, x)' % b.slot())
    elif mode == 2:
        b.e(2, 'x = tr(%d, p)' % b.slot()); b.e(2, 'return p')
    elif mode == 3:
        b.e(2, 'return tr(%d, x)' % b.slot())
    elif mode == 4:
        b.e(2, 'def h():'); b.e(3, 'return tr(%d, x, y)' % b.slot()); b.e(2, 'return h() + p')
    else:
        b.e(2, 'def h():'); b.e(3, 'nonlocal x'); b.e(3, 'x = x + 2'); b.e(3, 'return x'); b.e(2, 'return h() + p')
        b.features.add('nonlocal')
    # the call happens at an arbitrary later point
    b.filler(1, ['x', 'y', 'z'], r.randrange(0, 3))
    where = (variant // 6) % 5
    if where == 0:
        b.e(1, 'y = g()')
    elif where == 1:
        b.e(1, 'if d():'); b.e(2, 'x = tr(%d)' % b.slot()); b.e(2, 'y = g(1)'); b.e(1, 'else:'); b.e(2, 'y = 0')
    elif where == 2:
        b.e(1, 'for i in n():'); b.e(2, 'x = x + i'); b.e(2, 'y = g(i)')
    elif where == 3:
        b.e(1, 'if d():'); b.e(2, 'x = tr(%d)' % b.slot()); b.e(1, 'z = g()')
    else:
        b.e(1, 'while d():'); b.e(2, 'x = x + 1'); b.e(1, 'w = g()'); b.e(1, 'if d():'); b.e(2, 'x = 0'); b.e(1, 'w = w + g()')
    b.filler(1, ['x', 'y', 'z'], r.randrange(0, 2))
    if variant % 2:
        b.e(1, 'if d():'); b.e(2, 'y = y + ' + b.use('x'))
    b.e(1, 'return tr(0, x, y, z, w)')
    return b.prog('closure')


def lambda_later(rng, variant):
    b = _B(rng)
    _head(b)
    b.features.add('lambda')
    b.e(1, ['k = lambda: x + 1', 'k = lambda q=1: q + x', 'k = (lambda: (x, y))'][variant % 3])
    if variant % 2:
        b.e(1, 'if d():'); b.e(2, 'x = tr(%d)' % b.slot())
    else:
        b.e(1, 'x = tr(%d, x)' % b.slot())
    b.filler(1, ['y', 'z'], rng.randrange(0, 2))
    b.e(1, 'w = k()')
    b.e(1, 'return tr(0, w)')
    return b.prog('lambda_later')


def closure_binds(rng, variant):
    """a closure is the (only / last) writer of a local of f before f reads it or enters a compound statement"""
    b = _B(rng)
    _head(b, init='yz' if variant % 2 else 'xyz')
    b.features.update(['nested_def', 'nonlocal'])
    b.e(1, 'def g():'); b.e(2, 'nonlocal x'); b.e(2, 'x = tr(%d)' % b.slot())
    if variant % 3 == 0:
        b.e(1, 'if d():'); b.e(2, 'x = 0')
    b.e(1, 'g()')
    form = (variant // 2) % 3
    if form == 0:
        b.e(1, 'if d():'); b.e(2, 'x = x + 1')
    elif form == 1:
        b.e(1, 'for i in n():'); b.e(2, 'x = x + i')
    else:
        b.e(1, 'while d():'); b.e(2, 'y = ' + b.use('x'))
    b.e(1, 'return tr(0, x)')
    return b.prog('closure_binds_local')


def misc(rng, variant):
    b = _B(rng)
    _head(b)
    r = rng
    v = variant % 6
    if v == 0:
        b.features.add('del')
        b.e(1, 'del x'); b.e(1, 'if d():'); b.e(2, 'x = 1'); b.e(1, 'else:'); b.e(2, 'x = 2'); b.e(1, 'y = ' + b.use('x'))
    elif v == 1:
        b.features.add('with')
        b.e(1, 'with cm(%d) as x, cm(%d) as y:' % (b.slot(), b.slot())); b.e(2, 'z = ' + b.use('x')); b.filler(2, ['x', 'y'], 1)
    elif v == 2:
        b.features.update(['try', 'raise'])
        b.e(1, 'try:'); b.e(2, 'x = tr(%d)' % b.slot()); b.e(2, 'if d():'); b.e(3, 'raise E1(tr(%d))' % b.slot()); b.e(2, 'y = tr(%d)' % b.slot())
        b.e(1, 'except E1:'); b.e(2, 'z = ' + b.use('x'))
    elif v == 3:
        b.features.update(['try', 'finally', 'raise'])
        b.e(1, 'for i in n():')
        b.e(2, 'try:'); b.e(3, 'if d():'); b.e(4, 'break'); b.e(3, 'x = x + i'); b.e(2, 'finally:'); b.e(3, 'y = ' + b.use('x'))
    elif v == 4:
        b.features.update(['while', 'break', 'continue'])
        b.e(1, 'while d():'); b.e(2, 'if d():'); b.e(3, 'x = tr(%d)' % b.slot()); b.e(3, 'continue'); b.e(2, 'if d():'); b.e(3, 'break'); b.e(2, 'y = ' + b.use('x'))
    else:
        b.features.update(['global'])
        b.L.insert(1, '    global G')
        b.e(1, 'G = x'); b.e(1, 'if d():'); b.e(2, 'G = G + 1'); b.e(1, 'y = ' + b.use('G'))
    b.filler(1, ['x', 'y', 'z'], r.randrange(1, 3))
    b.e(1, 'return tr(0, x, y, z)')
    return b.prog('misc')


def def_time(rng, variant):
    """reads performed by the enclosing function while a nested def / lambda / class statement is executed: default values,
    keyword-only defaults, parameter annotations, decorators, class bases / keywords / body; nothing reads the variable afterwards"""
    b = _B(rng)
    _head(b)
    b.features.add('def_time_reads')
    wrap = variant % 3
    if wrap == 0:
        b.e(1, 'if d():'); b.e(2, 'x = tr(%d, c)' % b.slot())
    elif wrap == 1:
        b.e(1, 'for i in n():'); b.e(2, 'x = tr(%d, i)' % b.slot())
    v = (variant // 3) % 9
    if v == 0:
        b.e(1, 'def g(p=x):'); b.e(2, 'return p'); b.e(1, 'y = g()')
    elif v == 1:
        b.e(1, 'def g(*, p=x):'); b.e(2, 'return p'); b.e(1, 'y = g()')
    elif v == 2:
        b.e(1, 'def g(p: x = 0):'); b.e(2, 'return p'); b.e(1, 'y = g.__annotations__["p"]')
    elif v == 3:
        b.e(1, 'def dec(q):'); b.e(2, 'def w(fn):'); b.e(3, 'return lambda: q'); b.e(2, 'return w')
        b.e(1, '@dec(x)'); b.e(1, 'def g():'); b.e(2, 'return 0'); b.e(1, 'y = g()')
    elif v == 4:
        b.e(1, 'k = lambda p=x: p'); b.e(1, 'y = k()')
    elif v == 5:
        b.e(1, 'class K(object):'); b.e(2, 'z = x'); b.e(1, 'y = K.z')
    elif v == 6:
        b.e(1, 'class K(tuple if x else list):'); b.e(2, 'pass'); b.e(1, 'y = K.__bases__[0].__name__')
    elif v == 7:
        b.e(1, 'def dec(q):'); b.e(2, 'def w(cls):'); b.e(3, 'cls.q = q'); b.e(3, 'return cls'); b.e(2, 'return w')
        b.e(1, '@dec(x)'); b.e(1, 'class K(object):'); b.e(2, 'pass'); b.e(1, 'y = K.q')
    else:
        b.e(1, 'class K(object):'); b.e(2, 'z = x'); b.e(2, 'u = z + 1'); b.e(1, 'y = K.u')
    b.e(1, 'return tr(0, y)')
    return b.prog('def_time_reads')


def closure_in_branch(rng, variant):
    """a local function is (re)defined at the END of a branch / loop body of varying length (so the join behind it is first
    reached through a shorter path), a later block assigns the captured variable, which is then read only through the closure"""
    b = _B(rng)
    _head(b)
    b.features.update(['nested_def', 'closure_in_branch'])
    where = variant % 4            # 0 then-branch, 1 else-branch, 2 for body, 3 while body
    length = (variant // 4) % 6    # statements in front of the def inside the branch
    later = (variant // 24) % 3    # 0 if, 1 for, 2 while
    b.e(1, 'def g():'); b.e(2, 'return tr(%d, 0)' % b.slot())

    def long_part(ind):
        for q in range(length):
            v = 'yzw'[q % 3]
            b.e(ind, '%s = tr(%d, %s)' % (v, b.slot(), v))
        b.e(ind, 'def g():'); b.e(ind + 1, 'return tr(%d, x)' % b.slot())
    if where == 0:
        b.e(1, 'if d():'); long_part(2); b.e(1, 'else:'); b.e(2, 'pass')
    elif where == 1:
        b.e(1, 'if d():'); b.e(2, 'pass'); b.e(1, 'else:'); long_part(2)
    elif where == 2:
        b.e(1, 'for i in n():'); long_part(2)
    else:
        b.e(1, 'while d():'); long_part(2)
    if later == 0:
        b.e(1, 'if d():'); b.e(2, 'x = tr(%d, 7)' % b.slot())
    elif later == 1:
        b.e(1, 'for j in n():'); b.e(2, 'x = tr(%d, j)' % b.slot())
    else:
        b.e(1, 'while d():'); b.e(2, 'x = x + tr(%d, 1)' % b.slot())
    b.e(1, 'return tr(0, g())')
    p = b.prog('closure_in_branch')
    p.decisions = [[1] * 10, [0, 1, 1, 0, 1, 0, 0, 0], [1, 1, 0, 1, 0, 1, 0, 0], [2, 1, 1, 1, 0, 0, 0, 0], [1, 0, 1, 0, 0, 0], [0] * 6]
    return p


# ---------------------------------------------------------------------------------------------
# prefix-related variable names: `a`, `a2`, `acc`, `a_`, `ab`, … (a textual slip in a kill / gen set — startswith,
# substring, str() of composites — is invisible with prefix-free one-letter names)
# ---------------------------------------------------------------------------------------------
NAME_FAMILIES = [['a', 'a2', 'acc', 'a_', 'ab', 'abx', 'a_b'], ['i', 'ii', 'idx', 'i_', 'it0'], ['s', 's1', 'st', 'sx', 's_t'],
                 ['v', 'v2', 'val', 'vv', 'v_'], ['x', 'xs', 'x1', 'xy', 'x_']]


def rename_locals(prog, rng, fname='f'):
    """a copy of `prog` in which the variables bound inside `f` (parameters, locals, nested function names and their
    parameters / locals, nonlocal names) are injectively renamed into a pool of prefix-related names.  Names that are only
    read (module globals, builtins) and names declared `global` keep their spelling.  Returns None when not applicable."""
    import ast
    try:
        tree = ast.parse(prog.source)
    except SyntaxError:
        return None
    fs = [t for t in tree.body if isinstance(t, ast.FunctionDef) and t.name == fname]
    if not fs:
        return None
    f = fs[0]
    bound, globals_, used = [], set(), set()

    def add(nm):
        if nm not in bound:
            bound.append(nm)
    for n in ast.walk(f):
        if isinstance(n, ast.Global):
            globals_.update(n.names)
        elif isinstance(n, ast.Nonlocal):
            for x in n.names:
                add(x)
        elif isinstance(n, ast.arg):
            add(n.arg)
        elif isinstance(n, ast.Name):
            used.add(n.id)
            if isinstance(n.ctx, (ast.Store, ast.Del)):
                add(n.id)
        elif isinstance(n, (ast.FunctionDef, ast.ClassDef)) and n is not f:
            add(n.name)
        elif isinstance(n, ast.keyword) and n.arg is not None:
            used.add('kw:' + n.arg)
        elif isinstance(n, (ast.Import, ast.ImportFrom, ast.ExceptHandler)):
            return None
    bound = [b for b in bound if b not in globals_]
    if len(bound) < 2:
        return None
    keep = {u for u in used if u not in bound} | globals_ | {fname}
    pool = []
    fams = NAME_FAMILIES[:]
    rng.shuffle(fams)
    k = 0
    while len(pool) < len(bound) and k < 7:          # take the families column-wise so that related names are really used
        for fam in fams:
            if k < len(fam) and fam[k] not in keep and fam[k] not in pool:
                pool.append(fam[k])
        k += 1
    # keep each family together: sort pool by family, then assign the most related names first
    pool = sorted(pool, key=lambda nm: (next(i for i, fam in enumerate(fams) if nm in fam), len(nm)))[:max(len(bound), 0)]
    if len(pool) < len(bound):
        return None
    order = bound[:]
    rng.shuffle(order)
    m = dict(zip(order, pool))
    nested = {g.name for g in ast.walk(f) if isinstance(g, ast.FunctionDef) and g is not f}
    for n in ast.walk(f):            # keyword calls of renamed nested-function parameters (before the names change)
        if isinstance(n, ast.Call) and isinstance(n.func, ast.Name) and n.func.id in nested:
            for kw in n.keywords:
                if kw.arg in m:
                    kw.arg = m[kw.arg]
    for n in ast.walk(f):
        if isinstance(n, ast.Name) and n.id in m:
            n.id = m[n.id]
        elif isinstance(n, ast.arg) and n.arg in m:
            n.arg = m[n.arg]
        elif isinstance(n, ast.Nonlocal):
            n.names = [m.get(x, x) for x in n.names]
        elif isinstance(n, (ast.FunctionDef, ast.ClassDef)) and n is not f and n.name in m:
            n.name = m[n.name]
    lines = prog.source.split('\n')
    head = '\n'.join(lines[:f.lineno - 1 - len(f.decorator_list)])
    src = head + ('\n' if head else '') + ast.unparse(f) + '\n'
    try:
        compile(src, '<renamed>', 'exec')
    except SyntaxError:
        return None
    q = progen.Program(src, prog.inputs, set(prog.features) | {'prefix_names'}, 'renamed', decisions=prog.decisions,
                       meta={'scenario': prog.meta.get('scenario'), 'renamed_from': prog.key, 'renaming': m})
    return q


def prefix_names(rng, variant):
    """two (or three) locals whose names are in a textual prefix relation; the shorter one is rebound / deleted / used as a loop
    target or closure variable while the longer one holds a value that is read afterwards — and the other way round; also
    attribute / subscript composites next to a plain name with the same spelling prefix"""
    b = _B(rng)
    fam = NAME_FAMILIES[variant % len(NAME_FAMILIES)]
    sh, lg, lg2 = fam[0], fam[1 + variant % 2], fam[3 + variant % 2]
    b.e(0, 'def f(a0, b0, c0):')
    b.e(1, '%s = a0' % sh); b.e(1, '%s = b0' % lg); b.e(1, '%s = c0' % lg2)
    b.features.add('prefix_names')
    form = (variant // len(NAME_FAMILIES)) % 8
    if form == 0:
        b.e(1, '%s = tr(%d, %s)' % (sh, b.slot(), sh))
    elif form == 1:
        b.e(1, 'if d():'); b.e(2, '%s = tr(%d)' % (sh, b.slot()))
    elif form == 2:
        b.e(1, 'for %s in n():' % sh); b.e(2, '%s = %s + tr(%d, %s)' % (lg2, lg2, b.slot(), sh))
    elif form == 3:
        b.e(1, 'del %s' % sh); b.e(1, '%s = tr(%d)' % (sh, b.slot()))
    elif form == 4:
        b.e(1, 'while d():'); b.e(2, '%s += 1' % sh); b.e(2, 'if d():'); b.e(3, '%s = tr(%d, %s)' % (lg, b.slot(), lg))
    elif form == 5:
        b.e(1, 'def g():'); b.e(2, 'nonlocal %s' % sh); b.e(2, '%s = tr(%d, %s)' % (sh, b.slot(), lg)); b.e(2, 'return %s' % lg2)
        b.e(1, 'if d():'); b.e(2, '%s = tr(%d)' % (lg, b.slot())); b.e(1, '%s = g()' % lg2)
    elif form == 6:
        b.e(1, 'o = Obj0()'); b.L.insert(0, 'class Obj0(object):\n    pass')
        b.e(1, 'o.%s = tr(%d, %s)' % (lg, b.slot(), lg)); b.e(1, '%s = tr(%d, o.%s)' % (sh, b.slot(), lg))
        b.e(1, 'if d():'); b.e(2, 'o = Obj0()'); b.e(2, 'o.%s = 0' % lg)
        b.e(1, '%s = tr(%d, o.%s, %s)' % (lg2, b.slot(), lg, sh))
    else:
        b.e(1, 'l = [%s, %s]' % (sh, lg)); b.e(1, 'l[0] = tr(%d, %s)' % (b.slot(), sh)); b.e(1, 'if d():'); b.e(2, 'l = [0, 1]')
        b.e(1, '%s = tr(%d, l[0], %s)' % (sh, b.slot(), lg))
    if variant % 3 == 0:
        b.e(1, 'if d():'); b.e(2, '%s = tr(%d, %s, %s)' % (lg2, b.slot(), lg, lg2))
    b.e(1, 'return tr(0, %s, %s, %s)' % (lg, lg2, sh))
    return b.prog('prefix_names')


def starred_targets(rng, variant):
    """starred unpacking targets — assignment (first / middle / last position, nested tuple, list target), `for` target,
    `with … as (k, *vs)` — each followed by a read, a conditional rebinding, a loop that updates it and a read after the loop"""
    b = _B(rng)
    b.features.add('starred_target')
    b.e(0, 'class cmt(object):'); b.e(1, 'def __enter__(self):'); b.e(2, 'return (7, 8, 9)'); b.e(1, 'def __exit__(self, *e):'); b.e(2, 'return False')
    _head(b)
    b.e(1, 'l0 = [a, b, c, a + b]')
    form = variant % 9
    pre = (variant // 9) % 2          # the starred name already holds a value (it must be killed / redefined)
    if pre:
        b.e(1, 'rest = [tr(%d, 0)]' % b.slot())
    ind = 1
    if form == 0:
        b.e(1, 'head, *rest = l0')
    elif form == 1:
        b.e(1, '*rest, head = l0')
    elif form == 2:
        b.e(1, 'head, *rest, last = l0')
    elif form == 3:
        b.e(1, '(head, *rest), last = (l0, 1)')
    elif form == 4:
        b.e(1, '[head, *rest] = l0')
    elif form == 5:
        b.e(1, 'head = 0'); b.e(1, 'rest = []' if not pre else 'head = 1')
        b.e(1, 'for head, *rest in [[q, q + 1, q + 2] for q in n()]:'); b.e(2, 'y = tr(%d, head, rest)' % b.slot())
    elif form == 6:
        b.e(1, 'with cmt() as (head, *rest):'); b.e(2, 'y = tr(%d, head)' % b.slot())
    elif form == 7:
        b.e(1, 'if d():'); b.e(2, 'head, *rest = l0'); b.e(1, 'else:'); b.e(2, 'head, rest = 0, [1]')
    else:
        b.e(1, 'head, rest = 0, [5]'); b.e(1, 'while d():'); b.e(2, 'head, *rest = rest + [head]')
    follow = (variant // 18) % 4
    if follow == 0:
        b.e(1, 'z = tr(%d, rest)' % b.slot())
    elif follow == 1:
        b.e(1, 'if tr(%d, head):' % b.slot()); b.e(2, 'rest = rest[1:]')
    elif follow == 2:
        b.e(1, 'for i in n():'); b.e(2, 'rest = rest + [i]')
    else:
        b.e(1, 'while d():'); b.e(2, 'z = tr(%d, rest[:1])' % b.slot()); b.e(2, 'if d():'); b.e(3, 'rest = [z]')
    b.filler(1, ['y', 'z'], rng.randrange(0, 2))
    b.e(1, 'return tr(0, rest, head)')
    p = b.prog('starred_target')
    p.decisions = [[1] * 8, [0] * 8, [2, 1, 0, 1, 0, 1, 1, 0], [1, 0, 1, 1, 0, 0, 1, 0], [2, 2, 1, 1, 0, 0, 0, 0], [0, 1, 1, 0, 1, 0, 0, 0]]
    return p


def try_else_finally(rng, variant):
    """try / except / else / finally with a jump in the `else` clause (return, break, continue, raise caught by an outer try),
    a variable assigned just before the jump and read only in the `finally` body / only after the statement; at function level,
    in a `for`, in a `while`; the jump guarded by a decision or not"""
    b = _B(rng)
    b.features.update(['try', 'finally', 'try_else'])
    _head(b)
    loop = variant % 3                 # 0 function level, 1 for, 2 while
    jump = (variant // 3) % 4          # 0 return, 1 break, 2 continue, 3 raise (outer try)
    where = (variant // 12) % 2        # 0 read only in the finally body, 1 read only after the statement
    guarded = (variant // 24) % 2
    if loop == 0 and jump in (1, 2):
        jump = 0
    ind = 1
    if jump == 3:
        b.e(ind, 'try:'); ind += 1
    if loop == 1:
        b.e(ind, 'for i in n():'); ind += 1
    elif loop == 2:
        b.e(ind, 'while d():'); ind += 1
    b.e(ind, 'try:')
    b.e(ind + 1, 'y = tr(%d, y)' % b.slot())
    b.e(ind + 1, 'if d():'); b.e(ind + 2, 'raise E1(tr(%d))' % b.slot())
    b.e(ind, 'except E1:'); b.e(ind + 1, 'w = tr(%d, w)' % b.slot())
    b.e(ind, 'else:')
    b.e(ind + 1, 'x = tr(%d, y)' % b.slot())                    # assigned just before the jump
    js = {0: 'return tr(%d, y)' % b.slot(), 1: 'break', 2: 'continue', 3: 'raise E2(tr(%d))' % b.slot()}[jump]
    if guarded:
        b.e(ind + 1, 'if d():'); b.e(ind + 2, js); b.e(ind + 1, 'y = tr(%d, y)' % b.slot())
    else:
        b.e(ind + 1, js)
    b.e(ind, 'finally:')
    if where == 0:
        b.e(ind + 1, 'z = tr(%d, x)' % b.slot())                # the only read of x
    else:
        b.e(ind + 1, 'z = tr(%d, z)' % b.slot())
    if where == 1:
        b.e(ind, 'w = tr(%d, x)' % b.slot())                    # read only after the statement
    if loop:
        ind -= 1
        if where == 1:
            b.e(ind, 'w = tr(%d, x, w)' % b.slot())
    if jump == 3:
        ind -= 1
        b.e(ind, 'except E2:'); b.e(ind + 1, 'y = tr(%d, z)' % b.slot())
    b.e(1, 'return tr(0, z, w, y)')
    p = b.prog('try_else_finally')
    p.decisions = [[1, 0, 1, 1, 0, 1, 0, 0], [0, 1, 0, 1, 0, 0, 0, 0], [2, 0, 1, 0, 1, 0, 0, 0], [1, 0, 0, 1, 0, 1, 0, 1], [1, 1, 1, 0, 1, 0, 0, 0],
                   [2, 0, 0, 0, 1, 1, 0, 0]]
    return p


def loop_else(rng, variant):
    """for / while loops with an `else:` clause: assignments in the else, `break` / `continue` in the else of an INNER loop
    (they target the OUTER loop), a redefinition later in the outer body, reads after the loops; nested two deep"""
    b = _B(rng)
    b.features.update(['loop_else'])
    _head(b)
    outer = ['for i in n():', 'while d():'][variant % 2]
    inner = ['for j in n():', 'while d():'][(variant // 2) % 2]
    jump = ['break', 'continue', None][(variant // 4) % 3]
    inner_break = (variant // 12) % 2
    redefine = (variant // 24) % 2
    b.e(1, 'r = tr(%d, 9)' % b.slot())
    b.e(1, outer)
    b.e(2, 'y = tr(%d, y)' % b.slot())
    b.e(2, inner)
    b.e(3, 'z = tr(%d, z)' % b.slot())
    if inner_break:
        b.e(3, 'if d():'); b.e(4, 'break')
    b.e(2, 'else:')
    b.e(3, 'r = tr(%d, 1)' % b.slot())                 # definition made in the else clause
    if jump:
        if variant % 5 == 0:
            b.e(3, 'if d():'); b.e(4, jump)
        else:
            b.e(3, jump)
    if redefine:
        b.e(2, 'r = tr(%d, 0)' % b.slot())              # redefinition later in the outer body
    else:
        b.e(2, 'w = tr(%d, r)' % b.slot())
    if variant % 3 == 0:
        b.e(1, 'else:'); b.e(2, 'w = tr(%d, r, w)' % b.slot())
    b.e(1, 'return tr(0, r, w)')
    p = b.prog('loop_else')
    p.decisions = [[1, 1, 0, 0, 0, 0, 0, 0], [2, 0, 1, 0, 0, 0, 0, 0], [1, 2, 0, 1, 0, 0, 0], [1, 1, 1, 0, 1, 0, 0, 0], [2, 1, 0, 1, 1, 0, 0, 0],
                   [1, 0, 1, 1, 1, 0, 0], [0] * 6, [1, 1, 1, 1, 1, 1, 0, 0]]
    return p


def early_binding(rng, variant):
    """the early-binding idiom: a lambda / nested-def parameter whose DEFAULT reads the enclosing variable of the SAME name
    (`lambda k=k: …`, `fs.append(lambda i=i: …)`, `def g(i=i)`), inside loops and after a conditional rebinding"""
    b = _B(rng)
    b.features.update(['lambda', 'early_binding'])
    _head(b)
    form = variant % 6
    wrap = (variant // 6) % 3
    if wrap == 0:
        b.e(1, 'if d():'); b.e(2, 'x = tr(%d, c)' % b.slot())
    elif wrap == 1:
        b.e(1, 'for j in n():'); b.e(2, 'x = tr(%d, j)' % b.slot())
    if form == 0:
        b.e(1, 'k = lambda x=x: tr(%d, x)' % b.slot()); b.e(1, 'y = k()')
    elif form == 1:
        b.e(1, 'fs = []'); b.e(1, 'for i in n():'); b.e(2, 'fs.append(lambda i=i: i + x)'); b.e(1, 'y = [g() for g in fs]')
    elif form == 2:
        b.e(1, 'fs = []'); b.e(1, 'for i in n():'); b.e(2, 'def g(i=i, x=x):'); b.e(3, 'return tr(%d, i, x)' % b.slot()); b.e(2, 'fs.append(g)')
        b.e(1, 'y = [g() for g in fs]')
    elif form == 3:
        b.e(1, 'k = (lambda x=x, y=y: (x, y))'); b.e(1, 'if d():'); b.e(2, 'x = tr(%d)' % b.slot()); b.e(1, 'y = k()')
    elif form == 4:
        b.e(1, 'y = (lambda x=x + 1: x)()')
    else:
        b.e(1, 'k = lambda *, x=x: x'); b.e(1, 'while d():'); b.e(2, 'x = x + 1'); b.e(2, 'k = lambda *, x=x: x'); b.e(1, 'y = k()')
    b.e(1, 'return tr(0, y)')
    p = b.prog('early_binding')
    p.decisions = [[1, 1, 0, 0, 0, 0], [0, 2, 0, 0, 0], [2, 2, 1, 0, 0, 0], [1, 0, 1, 1, 0, 0], [0] * 5, [2, 1, 1, 1, 0, 0]]
    return p


def sibling_closure(rng, variant):
    """a nested function g WITHOUT inner def / lambda that writes a variable of the enclosing function (`nonlocal`) and then calls
    a SIBLING local function h reading that variable: the use-before-overwrite obligation lives in g's own graph"""
    b = _B(rng)
    b.features.update(['nested_def', 'nonlocal', 'sibling_closure'])
    _head(b)
    order = variant % 2               # 0: h defined before g (reaches g through external_defs), 1: after g
    form = (variant // 2) % 4
    hbody = ['return tr(%d, y)', 'return tr(%d, y, x)'][(variant // 8) % 2] % b.slot()

    def def_h():
        b.e(1, 'def h():'); b.e(2, hbody)

    def def_g():
        b.e(1, 'def g(p):')
        b.e(2, 'nonlocal y')
        if form == 0:
            b.e(2, 'y = tr(%d, p)' % b.slot()); b.e(2, 'r = h()')
        elif form == 1:
            b.e(2, 'if d():'); b.e(3, 'y = tr(%d, p)' % b.slot()); b.e(2, 'r = h()')
        elif form == 2:
            b.e(2, 'r = 0'); b.e(2, 'for q in n():'); b.e(3, 'y = y + q'); b.e(3, 'r = r + h()')
        else:
            b.e(2, 'y = tr(%d, p)' % b.slot()); b.e(2, 'if d():'); b.e(3, 'r = h()'); b.e(2, 'else:'); b.e(3, 'r = p')
        b.e(2, 'return r')
    if order == 0:
        def_h(); def_g()
    else:
        def_g(); def_h()
    b.e(1, 'w = g(a)')
    b.e(1, 'return tr(0, w)')
    p = b.prog('sibling_closure')
    p.decisions = [[1, 1, 0, 0], [0, 0, 0], [2, 1, 1, 0], [1, 0, 1, 0]]
    return p


def finally_chain(rng, variant):
    """outer try/finally ⊃ loop ⊃ inner try/finally that contains BOTH a break/continue and a return/raise (either order, each
    guarded by a decision); a variable is assigned right before each jump and read in the inner finally, the outer finally and
    after the statement"""
    b = _B(rng)
    b.features.update(['try', 'finally', 'finally_chain'])
    _head(b)
    loop = ['for i in n():', 'while d():'][variant % 2]
    lj = ['break', 'continue'][(variant // 2) % 2]
    fj = (variant // 4) % 2                     # 0 return, 1 raise (caught by an outermost try)
    order = (variant // 8) % 2                  # which jump comes first in the inner try body
    handler = (variant // 16) % 2               # outer statement also has an except clause
    rekill = (variant // 32) % 2                # the variable is reassigned after the loop (inside the outer try): the value
                                                # assigned before the return reaches the outer finally ONLY along the return path
    ind = 1
    if fj == 1:
        b.e(ind, 'try:'); ind += 1
    b.e(ind, 'try:')
    b.e(ind + 1, 'r = tr(%d, 0)' % b.slot())
    b.e(ind + 1, loop)
    b.e(ind + 2, 'y = tr(%d, y)' % b.slot())
    b.e(ind + 2, 'try:')

    def loop_jump():
        b.e(ind + 3, 'if d():'); b.e(ind + 4, 'r = tr(%d, 2)' % b.slot()); b.e(ind + 4, lj)

    def fn_jump():
        b.e(ind + 3, 'if d():'); b.e(ind + 4, 'r = tr(%d, 1)' % b.slot())
        b.e(ind + 4, 'return tr(%d, r)' % b.slot() if fj == 0 else 'raise E2(tr(%d))' % b.slot())
    if order == 0:
        loop_jump(); fn_jump()
    else:
        fn_jump(); loop_jump()
    b.e(ind + 3, 'r = tr(%d, 3)' % b.slot())
    b.e(ind + 2, 'finally:'); b.e(ind + 3, 'z = tr(%d, r)' % b.slot())          # inner finally reads r
    b.e(ind + 2, 'w = tr(%d, r, w)' % b.slot())
    if rekill:
        b.e(ind + 1, 'r = tr(%d, 5)' % b.slot())
    if handler:
        b.e(ind, 'except E1:'); b.e(ind + 1, 'w = tr(%d, w)' % b.slot())
    b.e(ind, 'finally:'); b.e(ind + 1, 'x = tr(%d, r)' % b.slot())              # outer finally reads r
    if fj == 1:
        ind -= 1
        b.e(ind, 'except E2:'); b.e(ind + 1, 'y = tr(%d, x)' % b.slot())
    b.e(1, 'y = tr(%d, r, x, z)' % b.slot())                                     # read after the statement
    b.e(1, 'return tr(0, y, w)')
    p = b.prog('finally_chain')
    p.decisions = [[1, 0, 1, 0, 0, 0, 0, 0], [1, 1, 0, 0, 0, 0], [2, 0, 0, 0, 1, 0, 0, 0], [2, 0, 0, 1, 0, 0, 0, 0], [1, 0, 0, 1, 0, 1, 0, 0],
                   [2, 1, 0, 0, 1, 0, 0], [1, 0, 0, 0, 0, 0], [0] * 6]
    return p


FAMILIES = [('zero_trip_for', zero_trip, 30), ('closure', closure, 60), ('lambda_later', lambda_later, 6),
            ('closure_binds_local', closure_binds, 12), ('misc', misc, 18),
            ('def_time_reads', def_time, 27), ('closure_in_branch', closure_in_branch, 72),
            ('prefix_names', prefix_names, 80), ('starred_target', starred_targets, 72), ('try_else_finally', try_else_finally, 48),
            ('loop_else', loop_else, 48), ('early_binding', early_binding, 18), ('sibling_closure', sibling_closure, 16),
            ('finally_chain', finally_chain, 64)]


def scenario_programs(rng, scale=1):
    """every variant of every family `scale` times (each time with different random fillers)"""
    for rep in range(scale):
        for name, fn, nvar in FAMILIES:
            for v in range(nvar):
                p = fn(random.Random(rng.getrandbits(40)), v)
                try:
                    compile(p.source, '<scenario>', 'exec')
                except SyntaxError:
                    continue
                yield p
