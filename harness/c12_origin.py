"""C12: correspondence of the two origin-propagation primitives with the model
(`transformer.Base.visit` inheritance on replacement nodes, `origin_info.copy_origin`)."""
import ast
from common import sexp


def _mk_origin(rng):
    from malt.pyct.origin_info import OriginInfo, Location
    line = rng.randrange(1, 9)
    return OriginInfo(Location('/u/case.py', line, rng.randrange(0, 12)), rng.choice(['f', 'g', None]), 'line %d' % line, None)


def _osx(o):
    if o is None:
        return '-'
    return [o.loc.filename, o.loc.lineno, o.loc.col_offset, [] if o.function_name is None else [o.function_name], o.source_code_line]


def _rand_tree(rng, depth):
    """(ast node, model sexp).  Inner nodes are ast.Tuple, leaves ast.Name; every node gets a FRESH ctx object
    (the parser's shared ctx singletons are not part of this primitive-level comparison)."""
    from malt.pyct import anno
    o = _mk_origin(rng) if rng.random() < 0.5 else None
    if depth == 0 or rng.random() < 0.4:
        n = ast.Name(id='v%d' % rng.randrange(100), ctx=ast.Load())
        kids = []
    else:
        sub = [_rand_tree(rng, depth - 1) for _ in range(rng.randrange(0, 4))]
        n = ast.Tuple(elts=[a for a, _ in sub], ctx=ast.Load())
        kids = [b for _, b in sub]
    if o is not None:
        anno.setanno(n, anno.Basic.ORIGIN, o)
    return n, [_osx(o), kids]


def _preorder_origins(n):
    from malt.pyct import anno
    out = [_osx(anno.getanno(n, anno.Basic.ORIGIN, default=None))]
    if isinstance(n, ast.Tuple):
        for e in n.elts:
            out += _preorder_origins(e)
    return out


def requests(rng, count):
    """[(op, request line, expected answer)] from the real functions."""
    from malt.pyct import anno, origin_info, transformer
    out = []

    class Repl(transformer.Base):
        def __init__(self, ctx, repl):
            super().__init__(ctx)
            self.repl = repl

        def visit_Name(self, node):
            return self.repl
    for _ in range(count):
        # --- Base.visit: replacement nodes inherit the origin of the replaced node (else the parent's)
        ctx = transformer.Context(None, None, None)
        po = _mk_origin(rng) if rng.random() < 0.6 else None
        ctx.current_origin = po
        node = ast.Name(id='replaced', ctx=ast.Load())
        no = _mk_origin(rng) if rng.random() < 0.6 else None
        if no is not None:
            anno.setanno(node, anno.Basic.ORIGIN, no)
        res = [_rand_tree(rng, 2) for _ in range(rng.randrange(1, 4))]
        single = len(res) == 1 and rng.random() < 0.5
        repl = res[0][0] if single else [a for a, _ in res]
        got = Repl(ctx, repl).visit(node)
        got = [got] if isinstance(got, ast.AST) else list(got)
        ok_ctx = ctx.current_origin is po
        exp = sexp([_osx(anno.getanno(g, anno.Basic.ORIGIN, default=None)) for g in got]) if ok_ctx else 'current_origin-not-restored'
        out.append(('inherit', 'c12.inherit %s %s %s' % (sexp(_osx(no)), sexp(_osx(po)), sexp([b for _, b in res])), exp))
        # --- copy_origin
        src = ast.Name(id='from', ctx=ast.Load())
        fo = _mk_origin(rng) if rng.random() < 0.8 else None
        if fo is not None:
            anno.setanno(src, anno.Basic.ORIGIN, fo)
        to = [_rand_tree(rng, 3) for _ in range(rng.randrange(1, 3))]
        target = to[0][0] if (len(to) == 1 and rng.random() < 0.5) else [a for a, _ in to]
        origin_info.copy_origin(src, target)
        flat = []
        for a, _ in to:
            flat += _preorder_origins(a)
        out.append(('copyorigin', 'c12.copyorigin %s %s' % (sexp(_osx(fo)), sexp([b for _, b in to])), sexp(flat)))
    return out
