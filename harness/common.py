"""Shared plumbing of the checks: translator, lake build, axiom audit, driver, decision protocol,
evidence and known-findings handling (DESIGN.md §2.6, §2.7).

Exit codes of a check: 0 = property held on everything explored (KNOWN-FINDING lines allowed),
1 = VIOLATION line printed, 2 = infrastructure error (never reported as a violation).
"""
import fcntl, hashlib, json, os, random, re, subprocess, sys, time

HERE = os.path.dirname(os.path.abspath(__file__))
VERIF = os.path.dirname(HERE)
LEAN = os.path.join(VERIF, 'lean')
REPO = os.environ.get('MALT_REPO', '/repo')
def driver_path(prop):
    return os.path.join(LEAN, '.lake', 'build', 'bin', 'drv_' + prop.lower())
ALLOWED_AXIOMS = {'propext', 'Classical.choice', 'Quot.sound'}
FORBIDDEN = re.compile(r'\b(sorry|admit|native_decide|bv_decide|implemented_by)\b|^\s*axiom\s|\bunsafe\s|maxHeartbeats\s+0\b')
GUARD = 'DIASTATIC_MALT_VERIF'

TRUSTED_BASE = [
    'Lean 4.33.0 kernel (lake build; thorough tier re-checks the Props modules with leanchecker)',
    'axioms allowed in property theorems: propext, Classical.choice, Quot.sound (audited with #print axioms on every run)',
    'tools/extract.py (translator: /repo source -> lean/MaltModel/Generated/*.lean)',
    'the S-expression line protocol between harness (Python) and the per-property native driver drv_cXX (Lean) and the canonicalisers on both ends',
    'the correspondence harness and its generators: what they do not generate is not tied to the code',
]


class InfraError(Exception):
    pass


def sh(cmd, cwd=None, timeout=None, env=None, input=None):
    e = dict(os.environ)
    if env:
        e.update(env)
    p = subprocess.run(cmd, cwd=cwd, timeout=timeout, env=e, input=input, text=True,
                       stdout=subprocess.PIPE, stderr=subprocess.STDOUT)
    return p.returncode, p.stdout


class LakeLock:
    def __enter__(self):
        os.makedirs(os.path.join(LEAN, '.lake'), exist_ok=True)
        self.f = open(os.path.join(LEAN, '.lake', 'verif.lock'), 'w')
        fcntl.flock(self.f, fcntl.LOCK_EX)
        return self

    def __exit__(self, *a):
        fcntl.flock(self.f, fcntl.LOCK_UN)
        self.f.close()


def strip_comments(text):
    """Remove Lean comments (nested block comments and line comments) and string literals' content is kept."""
    out = []
    i, depth, n = 0, 0, len(text)
    while i < n:
        if text.startswith('/-', i):
            depth += 1; i += 2; continue
        if depth and text.startswith('-/', i):
            depth -= 1; i += 2; continue
        if depth:
            if text[i] == '\n':
                out.append('\n')
            i += 1; continue
        if text.startswith('--', i):
            while i < n and text[i] != '\n':
                i += 1
            continue
        out.append(text[i]); i += 1
    return ''.join(out)


def theorems_in(relpath):
    """Fully qualified names of the (non-private) theorems declared in a Props file."""
    with open(os.path.join(LEAN, relpath)) as f:
        text = strip_comments(f.read())
    ns, names = [], []
    for line in text.split('\n'):
        m = re.match(r'^namespace\s+(\S+)', line)
        if m:
            ns.append(m.group(1)); continue
        m = re.match(r'^end\s+(\S+)', line)
        if m and ns and ns[-1] == m.group(1):
            ns.pop(); continue
        m = re.match(r'^(?:@\[[^\]]*\]\s*)?theorem\s+(\S+)', line)
        if m:
            names.append('.'.join(ns + [m.group(1)]))
    return names


class Run:
    """One invocation of one check."""

    def __init__(self, prop, tier, seed, level='proof'):
        self.prop, self.tier, self.seed, self.level = prop, tier, seed, level
        self.t0 = time.time()
        self.rng = random.Random(seed)
        self.obligations = []     # dicts: name, kind, ok, detail
        self.failing = []         # dicts: what, cls, case
        self.cov = {}             # extra coverage keys
        self.samples = []
        self.assumptions = []
        self.evaluations = 0
        self.nontrivial = set()
        self.rule = ''
        self.driver_ok = False
        self.axioms = {}
        self.notes = []

    # ---------------------------------------------------------------- obligations
    def oblige(self, name, kind, ok, detail=''):
        self.obligations.append({'name': name, 'kind': kind, 'ok': bool(ok), 'detail': str(detail)[:2000]})
        return ok

    def case(self, key, nontrivial=True):
        """Count one explored case; `key` identifies it for distinctness."""
        self.evaluations += 1
        if nontrivial:
            self.nontrivial.add(key if isinstance(key, (str, int, tuple)) else json.dumps(key, sort_keys=True))

    def sample(self, s, cap=6):
        if len(self.samples) < cap:
            self.samples.append(s)

    def fail(self, what, case, cls=None):
        """A concrete failing input on the real code (direct oracle)."""
        self.failing.append({'what': what, 'cls': cls, 'case': case})

    # ---------------------------------------------------------------- steps 1-2
    def translate(self, names):
        rc, out = sh([sys.executable, os.path.join(VERIF, 'tools', 'extract.py')] + list(names), env={'MALT_REPO': REPO})
        try:
            rep = json.loads(out.strip().split('\n')[-1])
        except Exception:
            self.oblige('translator', 'translator', False, out[-1500:])
            return False
        ok = True
        for n in names:
            probs = rep.get('problems', {}).get(n)
            self.oblige('translator:' + n, 'translator', not probs, probs or '')
            ok = ok and not probs
        return ok

    def lean_build(self, targets, timeout=1500):
        """lake build the given targets (modules / exe). Returns (ok, log)."""
        with LakeLock():
            try:
                rc, out = sh(['lake', 'build'] + list(targets), cwd=LEAN, timeout=timeout)
            except subprocess.TimeoutExpired:
                raise InfraError('lake build timed out')
        if rc != 0 and not re.search(r'error:', out):
            raise InfraError('lake build failed without a Lean error:\n' + out[-2000:])
        return rc == 0, out

    def build_and_audit(self, props_module, extra_targets=None, model_files=(), more_props=()):
        """`more_props`: further Props modules whose theorems belong to this property (each is built and
        audited the same way; a failure in one does not hide the others)."""
        ok = self._build_and_audit_one(props_module, extra_targets, model_files)
        for m in more_props:
            if os.path.exists(os.path.join(LEAN, m.replace('.', '/') + '.lean')):
                ok = self._build_and_audit_one(m, [], (), tag=m.split('.')[-1]) and ok
            else:
                self.notes.append('props module %s not present' % m)
        return ok

    def _build_and_audit_one(self, props_module, extra_targets=None, model_files=(), tag=None):
        """Build Props module + driver, audit axioms of every property theorem in it, grep for
        forbidden constructs in the files that matter.  Each theorem is one obligation."""
        relpath = props_module.replace('.', '/') + '.lean'
        names = theorems_in(relpath)
        ok, log = self.lean_build([props_module])
        if not ok:
            errs = [l for l in log.split('\n') if 'error' in l][:12]
            # which theorems failed? find error lines and map to the nearest preceding theorem
            failed = self._failed_theorems(relpath, log)
            for n in names:
                short = n.split('.')[-1]
                bad = (short in failed) or not failed
                self.oblige('theorem:' + n, 'theorem', not bad, '\n'.join(errs) if bad else '')
            self.notes.append('lake build %s failed' % props_module)
        # the driver is built separately: a broken proof must not take the correspondence down with it
        if extra_targets is None:
            has_drv = os.path.exists(os.path.join(LEAN, 'Driver', self.prop + '.lean'))
            extra_targets = ['drv_' + self.prop.lower()] if has_drv else []
        if extra_targets:
            dok, dlog = self.lean_build(list(extra_targets))
            self.driver_ok = dok and os.path.exists(driver_path(self.prop))
            if not self.driver_ok:
                self.oblige('build:drv_' + self.prop.lower(), 'build', False, '\n'.join([l for l in dlog.split('\n') if 'error' in l][:12]))
        if not ok:
            return False
        # audit
        audit_dir = os.path.join(LEAN, '.lake', 'audit')
        os.makedirs(audit_dir, exist_ok=True)
        path = os.path.join(audit_dir, 'Audit_%s_%d.lean' % (tag or self.prop, os.getpid()))   # private to this run: concurrent runs must not clobber each other
        with open(path, 'w') as f:
            f.write('import %s\n' % props_module)
            for n in names:
                f.write('#print axioms %s\n' % n)
        with LakeLock():
            rc, out = sh(['lake', 'env', 'lean', path], cwd=LEAN, timeout=900)
        axioms = {}
        for m in re.finditer(r"'([^']+)' depends on axioms: \[([^\]]*)\]", out):
            axioms[m.group(1)] = [a.strip() for a in m.group(2).replace('\n', ' ').split(',') if a.strip()]
        for m in re.finditer(r"'([^']+)' does not depend on any axioms", out):
            axioms[m.group(1)] = []
        self.axioms.update(axioms)
        try:
            os.remove(path)
        except OSError:
            pass
        all_ok = True
        for n in names:
            if n not in axioms:
                all_ok = False
                self.oblige('theorem:' + n, 'theorem', False, 'not found by #print axioms: ' + out[-500:])
            else:
                extra = [a for a in axioms[n] if a not in ALLOWED_AXIOMS]
                self.oblige('theorem:' + n, 'theorem', not extra, 'axioms: %s' % axioms[n])
                all_ok = all_ok and not extra
        # forbidden constructs
        files = [relpath] + list(model_files)
        hits = []
        for rp in files:
            p = os.path.join(LEAN, rp)
            if not os.path.exists(p):
                continue
            with open(p) as f:
                body = strip_comments(f.read())
            for i, line in enumerate(body.split('\n'), 1):
                if FORBIDDEN.search(line):
                    hits.append('%s:%d: %s' % (rp, i, line.strip()[:120]))
        self.oblige('grep:no-sorry-axiom-native_decide:' + props_module.split('.')[-1], 'audit', not hits, '\n'.join(hits))
        if self.tier == 'thorough':
            with LakeLock():
                rc, out = sh(['lake', 'env', 'leanchecker', props_module], cwd=LEAN, timeout=3000)
            self.oblige('leanchecker:' + props_module, 'audit', rc == 0, out[-800:])
            all_ok = all_ok and rc == 0
        return all_ok and not hits

    def _failed_theorems(self, relpath, log):
        with open(os.path.join(LEAN, relpath)) as f:
            lines = f.read().split('\n')
        starts = []
        for i, l in enumerate(lines, 1):
            m = re.match(r'^(?:private\s+)?(?:theorem|example|lemma|def)\s*(\S*)', l)
            if m:
                starts.append((i, m.group(1)))
        failed = set()
        for m in re.finditer(re.escape(relpath) + r':(\d+):\d+:', log):
            if 'error' not in log[m.start() - 10:m.start()]:
                continue
            ln = int(m.group(1))
            cur = None
            for s, n in starts:
                if s <= ln:
                    cur = n
            if cur is not None:
                failed.add(cur)
        return failed

    # ---------------------------------------------------------------- driver
    def drive(self, lines, timeout=900):
        if not self.driver_ok:
            raise InfraError('driver not built')
        data = '\n'.join(lines) + '\n'
        p = subprocess.run([driver_path(self.prop)], input=data, text=True, stdout=subprocess.PIPE, stderr=subprocess.PIPE, timeout=timeout)
        if p.returncode != 0:
            raise InfraError('driver exited %d: %s' % (p.returncode, p.stderr[-500:]))
        out = p.stdout.split('\n')
        if out and out[-1] == '':
            out.pop()
        if len(out) != len(lines):
            raise InfraError('driver answered %d lines for %d requests' % (len(out), len(lines)))
        return out

    # ---------------------------------------------------------------- finish
    def finish(self):
        wall = time.time() - self.t0
        kf_all = load_known_findings()
        listed = [k for k in kf_all if k.get('property') == self.prop and k.get('status', 'open') == 'open']
        new_fail, known_hits = [], {}
        for f in self.failing:
            k = next((k for k in listed if f.get('cls') is not None and k.get('class') == f['cls']), None)
            if k is not None:
                known_hits.setdefault(k['id'], []).append(f)
            else:
                new_fail.append(f)
        broken = [o for o in self.obligations if not o['ok']]
        out_lines, violations = [], 0
        rdir = os.path.join(VERIF, 'replays', self.prop)
        for k in listed:
            out_lines.append('KNOWN-FINDING: property=%s %s' % (self.prop, k['what']))
        if new_fail:
            os.makedirs(rdir, exist_ok=True)
            seen = set()
            for f in new_fail:
                h = hashlib.sha1(json.dumps(f, sort_keys=True, default=str).encode()).hexdigest()[:12]
                if h in seen:
                    continue
                seen.add(h)
                if len(seen) > 5:
                    break
                path = os.path.join(rdir, h + '.json')
                with open(path, 'w') as fh:
                    json.dump({'property': self.prop, 'seed': self.seed, 'tier': self.tier, 'what': f['what'],
                               'class': f.get('cls'), 'case': f['case'],
                               'broken_obligations': [o['name'] for o in broken]}, fh, indent=1, default=str)
                out_lines.append('VIOLATION property=%s replay=%s' % (self.prop, os.path.relpath(path, VERIF)))
                violations += 1
        elif broken:
            os.makedirs(rdir, exist_ok=True)
            h = hashlib.sha1(json.dumps([o['name'] for o in broken]).encode()).hexdigest()[:12]
            path = os.path.join(rdir, 'obligation-' + h + '.json')
            with open(path, 'w') as fh:
                json.dump({'property': self.prop, 'seed': self.seed, 'tier': self.tier,
                           'no_failing_input_found': True,
                           'broken_obligations': broken,
                           'searched': self.cov.get('search', 'direct oracle on %d cases' % self.evaluations)}, fh, indent=1)
            out_lines.append('VIOLATION property=%s replay=%s no-failing-input-found' % (self.prop, os.path.relpath(path, VERIF)))
            violations += 1
        n_ob = len(self.obligations)
        n_ok = len([o for o in self.obligations if o['ok']])
        coverage = {
            'obligations': n_ob, 'discharged': n_ok,
            'checker_cmd': 'cd lean && lake build MaltModel.Props.%s drv_%s && lake env lean .lake/audit/Audit_%s_<pid>.lean' % (self.prop, self.prop.lower(), self.prop)
                           + (' && lake env leanchecker MaltModel.Props.%s' % self.prop if self.tier == 'thorough' else ''),
            'trusted_base': TRUSTED_BASE + self.assumptions,
            'evaluations': self.evaluations,
            'distinct_nontrivial': len(self.nontrivial),
            'rule': self.rule,
            'samples': self.samples or ['(no case explored)'],
            'obligation_list': [{'name': o['name'], 'kind': o['kind'], 'ok': o['ok']} for o in self.obligations],
            'axioms': self.axioms,
            'known_findings_listed': [k['id'] for k in listed],
            'known_finding_hits': {k: len(v) for k, v in known_hits.items()},
            'notes': self.notes,
        }
        coverage.update(self.cov)
        # keys the evidence schema types as integers / strings / lists keep that type; richer values move to *_detail
        for k in ('programs', 'states', 'transitions', 'traces_validated_against_impl', 'disagreements_checked'):
            v = coverage.get(k)
            if v is not None and not (isinstance(v, int) and not isinstance(v, bool)):
                coverage[k + '_detail'] = v
                n = None
                if isinstance(v, dict):
                    n = v.get(k) if isinstance(v.get(k), int) else sum(x for x in v.values() if isinstance(x, int) and not isinstance(x, bool))
                if isinstance(n, int) and n > 0:
                    coverage[k] = n
                else:
                    del coverage[k]
        if 'explanation' in coverage and not isinstance(coverage['explanation'], str):
            coverage['explanation_detail'] = coverage.pop('explanation')
        if 'exhaustive' in coverage and not isinstance(coverage['exhaustive'], bool):
            coverage['exhaustive_detail'] = coverage.pop('exhaustive')
        ev = {'property_id': self.prop, 'tier': self.tier, 'seed': self.seed, 'level': self.level,
              'coverage': coverage, 'assumptions': self.assumptions, 'wall_s': round(wall, 2), 'violations': violations}
        os.makedirs(os.path.join(VERIF, 'evidence'), exist_ok=True)
        with open(os.path.join(VERIF, 'evidence', self.prop + '.json'), 'w') as fh:
            json.dump(ev, fh, indent=1, default=str)
        for l in out_lines:
            print(l)
        print('%s tier=%s seed=%d obligations=%d/%d cases=%d nontrivial=%d failing=%d(new %d) wall=%.1fs' % (
            self.prop, self.tier, self.seed, n_ok, n_ob, self.evaluations, len(self.nontrivial),
            len(self.failing), len(new_fail), wall))
        for o in broken[:10]:
            print('  broken obligation: %s :: %s' % (o['name'], o['detail'][:300].replace('\n', ' | ')))
        return 1 if violations else 0


def load_known_findings():
    out = []
    p = os.path.join(VERIF, 'known_findings.json')
    if os.path.exists(p):
        with open(p) as f:
            out += json.load(f).get('findings', [])
    d = os.path.join(VERIF, 'known_findings.d')
    if os.path.isdir(d):
        for fn in sorted(os.listdir(d)):
            if fn.endswith('.json'):
                with open(os.path.join(d, fn)) as f:
                    out += json.load(f).get('findings', [])
    return out


def sexp(x):
    """Python -> S-expression text. str = atom, bool = True/False, list/tuple = list."""
    if isinstance(x, bool):
        return 'True' if x else 'False'
    if isinstance(x, int):
        return str(x)
    if isinstance(x, str):
        if x == '' or any(c in x for c in ' ()"\n\t\\\r'):
            return '"' + x.replace('\\', '\\\\').replace('"', '\\"').replace('\n', '\\n').replace('\t', '\\t').replace('\r', '\\r') + '"'
        return x
    if isinstance(x, (list, tuple)):
        return '(' + ' '.join(sexp(e) for e in x) + ')'
    raise TypeError(type(x))


def parse_sexp(s):
    """S-expression text -> nested lists of str."""
    pos = 0
    n = len(s)

    def skip():
        nonlocal pos
        while pos < n and s[pos] in ' \n\t\r':
            pos += 1

    def one():
        nonlocal pos
        skip()
        if pos >= n:
            raise ValueError('eof')
        c = s[pos]
        if c == '(':
            pos += 1
            out = []
            while True:
                skip()
                if pos >= n:
                    raise ValueError('eof in list')
                if s[pos] == ')':
                    pos += 1
                    return out
                out.append(one())
        if c == '"':
            pos += 1
            buf = []
            while s[pos] != '"':
                if s[pos] == '\\':
                    pos += 1
                    buf.append({'n': '\n', 't': '\t', 'r': '\r'}.get(s[pos], s[pos]))
                else:
                    buf.append(s[pos])
                pos += 1
            pos += 1
            return ''.join(buf)
        st = pos
        while pos < n and s[pos] not in ' ()\n\t\r':
            pos += 1
        return s[st:pos]

    v = one()
    skip()
    if pos != n:
        raise ValueError('trailing input')
    return v
