"""Instrumented execution for the dynamic oracles of C06 / C07.

`Instrumented(source)` parses the module source twice: tree A is analysed by the REAL analyses
(dataflow_common.Analysis), tree B (structurally identical, same preorder ids via pyast.Ser) is rewritten so
that running `f` reports, per *activation* of `f` and of every function nested in it:

  node visits      one step per executed CFG node (statement, if/while test, for header, with item, def, args)
  reads            every Name load (wrapped as `__T.rd(id, 'x', x)`), AugAssign targets
  writes / dels    after the binding statement (for targets: inside the iterator wrapper, per produced item)
  foreign events   writes by OTHER activations to a variable this activation can see (closures, nonlocal, global),
                   reads by functions lexically nested in this one (closure reads)

Everything is computed from these events alone: last writer of each read, variables bound at each compound-statement
entry, and for every read the range of earlier steps at whose exit the value read was already in place.
Executions in which an exception is raised by anything but an explicit `raise` statement of the activation that
handles / propagates it are *implicit-exception* runs, which the properties set aside; they are counted and dropped.
"""
import ast, copy, types

import pyast
import dataflow_common as dc

T = '_mvT_'


class NotInstrumentable(Exception):
    pass


# ---------------------------------------------------------------------------------------------
# static scoping of the functions of the tree (Python's rules; classes / walrus are rejected)
# ---------------------------------------------------------------------------------------------
class FnStatic:
    def __init__(self, node, fid, parent):
        self.node, self.fid, self.parent = node, fid, parent
        self.params, self.bound, self.globals_, self.nonlocals = [], set(), set(), set()
        self.is_lambda = isinstance(node, ast.Lambda)
        self.args_id = None
        self.names_used = set()


def _params(args):
    out = [a.arg for a in args.posonlyargs + args.args]
    if args.vararg:
        out.append(args.vararg.arg)
    out += [a.arg for a in args.kwonlyargs]
    if args.kwarg:
        out.append(args.kwarg.arg)
    return out


def _store_names(t):
    out = []
    for n in ast.walk(t):
        if isinstance(n, ast.Name) and isinstance(n.ctx, (ast.Store, ast.Del)):
            out.append(n.id)
    return out


def scan_functions(f, ser):
    """-> {fid: FnStatic} for f and every def/lambda nested in it."""
    fns = {}

    def scan_fn(node, parent):
        fs = FnStatic(node, ser.id_of(node), parent)
        fns[fs.fid] = fs
        fs.params = _params(node.args)
        fs.args_id = ser.id_of(node.args)
        fs.bound.update(fs.params)
        body = [node.body] if fs.is_lambda else node.body
        for s in body:
            scan(s, fs, ())
        return fs

    def scan(n, fs, comp_targets):
        if isinstance(n, ast.ClassDef):
            # limited support: a class body of simple statements.  Names bound in the body are class-local (treated like
            # comprehension targets: reads of them inside the body are not reads of the function's variables).
            fs.bound.add(n.name)
            for x in n.decorator_list + n.bases + [k.value for k in n.keywords]:
                scan(x, fs, comp_targets)
            local = set(comp_targets)
            for st in n.body:
                if not isinstance(st, (ast.Assign, ast.AnnAssign, ast.AugAssign, ast.Expr, ast.Pass)):
                    raise NotInstrumentable('ClassDef with ' + type(st).__name__)
                for m in ast.walk(st):
                    if isinstance(m, (ast.Lambda, ast.ListComp, ast.SetComp, ast.DictComp, ast.GeneratorExp, ast.NamedExpr)):
                        raise NotInstrumentable('ClassDef with ' + type(m).__name__)
                    if isinstance(m, ast.Name) and isinstance(m.ctx, (ast.Store, ast.Del)):
                        local.add(m.id)
            for st in n.body:
                for m in ast.walk(st):
                    if isinstance(m, ast.Name) and isinstance(m.ctx, ast.Load) and m.id not in local:
                        fs.names_used.add(m.id)
            return
        if isinstance(n, (ast.AsyncFunctionDef, ast.AsyncFor, ast.AsyncWith, ast.Yield, ast.YieldFrom, ast.Await,
                          ast.NamedExpr)) or type(n).__name__ in ('Match', 'TryStar', 'TypeAlias'):
            raise NotInstrumentable(type(n).__name__)
        if isinstance(n, ast.FunctionDef):
            fs.bound.add(n.name)
            for d in n.decorator_list:
                scan(d, fs, comp_targets)
            for d in n.args.defaults + [k for k in n.args.kw_defaults if k is not None]:
                scan(d, fs, comp_targets)
            scan_fn(n, fs)
            return
        if isinstance(n, ast.Lambda):
            for d in n.args.defaults + [k for k in n.args.kw_defaults if k is not None]:
                scan(d, fs, comp_targets)
            scan_fn(n, fs)
            return
        if isinstance(n, ast.Global):
            fs.globals_.update(n.names)
            return
        if isinstance(n, ast.Nonlocal):
            fs.nonlocals.update(n.names)
            return
        if isinstance(n, (ast.Import, ast.ImportFrom)):
            for a in n.names:
                fs.bound.add((a.asname or a.name).split('.')[0])
            return
        if isinstance(n, (ast.ListComp, ast.SetComp, ast.GeneratorExp, ast.DictComp)):
            tg = set(comp_targets)
            for g in n.generators:
                tg.update(_store_names(g.target))
            # the FIRST iterable is evaluated in the enclosing scope: names in it are not the comprehension's targets
            scan(n.generators[0].iter, fs, comp_targets)
            for c in ast.iter_child_nodes(n):
                scan(c, fs, tuple(tg))
            return
        if isinstance(n, ast.ExceptHandler) and n.name:
            raise NotInstrumentable('except-as')
        if isinstance(n, ast.Name):
            if n.id in comp_targets:
                return
            fs.names_used.add(n.id)
            if isinstance(n.ctx, (ast.Store, ast.Del)):
                fs.bound.add(n.id)
            return
        for c in ast.iter_child_nodes(n):
            scan(c, fs, comp_targets)
    scan_fn(f, None)
    for fs in fns.values():
        fs.bound -= fs.globals_ | fs.nonlocals
    return fns


def resolve(fns, fid, name):
    """owner function id of `name` as seen from function `fid`, or 'G' (module global / builtin)."""
    fs = fns[fid]
    first = True
    while fs is not None:
        if name in fs.globals_ and first:
            return 'G'
        if name in fs.bound and not (first and name in fs.nonlocals):
            return fs.fid
        if name in fs.globals_:
            return 'G'
        first = False
        fs = fs.parent
    return 'G'


# ---------------------------------------------------------------------------------------------
# the rewriter (tree B)
# ---------------------------------------------------------------------------------------------
def _call(meth, *args):
    return ast.Call(func=ast.Attribute(value=ast.Name(id=T, ctx=ast.Load()), attr=meth, ctx=ast.Load()),
                    args=list(args), keywords=[])


def _c(v):
    return ast.Constant(value=v)


def _names_tuple(names):
    return ast.Tuple(elts=[_c(x) for x in names], ctx=ast.Load())


class Rewriter:
    def __init__(self, ser, fns):
        self.ser, self.fns = ser, fns

    def nid(self, n):
        return self.ser.id_of(n)

    # ---- expressions: wrap Name loads
    def expr(self, e, comp=()):
        if e is None:
            return None
        if isinstance(e, ast.Name):
            if isinstance(e.ctx, ast.Load) and e.id not in comp and e.id != T:
                return ast.copy_location(_call('rd', _c(self.nid(e)), _c(e.id), e), e)
            return e
        if isinstance(e, ast.Lambda):
            fid = self.nid(e)
            new = ast.Lambda(args=self.arguments(e.args, comp),
                             body=_call('lam', _c(fid), ast.Lambda(args=ast.arguments(posonlyargs=[], args=[], vararg=None, kwonlyargs=[],
                                                                                      kw_defaults=[], kwarg=None, defaults=[]),
                                                                   body=self.expr(e.body, comp))))
            return ast.copy_location(new, e)
        if isinstance(e, (ast.ListComp, ast.SetComp, ast.GeneratorExp, ast.DictComp)):
            tg = set(comp)
            for g in e.generators:
                tg.update(_store_names(g.target))
            tg = tuple(tg)
            for gi, g in enumerate(e.generators):
                # the first iterable is evaluated in the enclosing scope, before any target exists
                g.iter = self.expr(g.iter, comp if gi == 0 else tg)
                g.ifs = [self.expr(i, tg) for i in g.ifs]
            if isinstance(e, ast.DictComp):
                e.key, e.value = self.expr(e.key, tg), self.expr(e.value, tg)
            else:
                e.elt = self.expr(e.elt, tg)
            return e
        for field, v in ast.iter_fields(e):
            if isinstance(v, ast.expr):
                setattr(e, field, self.expr(v, comp))
            elif isinstance(v, list):
                setattr(e, field, [self.expr(x, comp) if isinstance(x, ast.expr) else (self.kw(x, comp) if isinstance(x, ast.keyword) else x)
                                   for x in v])
        return e

    def kw(self, k, comp):
        k.value = self.expr(k.value, comp)
        return k

    def arguments(self, a, comp=()):
        a.defaults = [self.expr(d, comp) for d in a.defaults]
        a.kw_defaults = [self.expr(d, comp) if d is not None else None for d in a.kw_defaults]
        return a

    # ---- statements
    def ev(self, meth, *args):
        return ast.Expr(value=_call(meth, *args))

    def block(self, stmts):
        out = []
        for s in stmts:
            out.extend(self.stmt(s))
        return out

    def guard(self, node_ast, e):
        """`(__T.node(id) or e')` — the node event precedes the evaluation of the expression"""
        return ast.BoolOp(op=ast.Or(), values=[_call('node', _c(self.nid(node_ast))), self.expr(e)])

    def stmt(self, s):
        sid = self.nid(s)
        node_ev = self.ev('node', _c(sid))
        if isinstance(s, ast.FunctionDef):
            pre = [node_ev]
            s.decorator_list = [self.expr(d) for d in s.decorator_list]
            s.args = self.arguments(s.args)
            self.function(s)
            return pre + [s, self.ev('wr', _c(sid), _names_tuple([s.name]))]
        if isinstance(s, ast.ClassDef):
            s.decorator_list = [self.expr(d) for d in s.decorator_list]
            s.bases = [self.expr(b) for b in s.bases]
            for k in s.keywords:
                k.value = self.expr(k.value)
            local = set()
            for st in s.body:
                for m in ast.walk(st):
                    if isinstance(m, ast.Name) and isinstance(m.ctx, (ast.Store, ast.Del)):
                        local.add(m.id)
            local = tuple(local)
            for st in s.body:       # the body runs during the visit of the ClassDef node; its own bindings are class-local
                for field, v in ast.iter_fields(st):
                    if isinstance(v, ast.expr) and not (field in ('target',) or field == 'annotation'):
                        setattr(st, field, self.expr(v, local))
            return [node_ev, s, self.ev('wr', _c(sid), _names_tuple([s.name]))]
        if isinstance(s, (ast.Assign, ast.AnnAssign, ast.AugAssign)):
            pre = [node_ev]
            if isinstance(s, ast.Assign):
                targets = s.targets
                s.value = self.expr(s.value)
            elif isinstance(s, ast.AnnAssign):
                targets = [s.target]
                if s.value is None:
                    return [node_ev, s]
                s.value = self.expr(s.value)
            else:
                targets = [s.target]
                if isinstance(s.target, ast.Name):
                    pre.append(self.ev('rdaug', _c(self.nid(s.target)), _c(s.target.id)))
                s.value = self.expr(s.value)
            names = []
            for t in targets:
                names += _store_names(t)
                self.target_subexprs(t)
            post = [self.ev('wr', _c(sid), _names_tuple(names))] if names else []
            return pre + [s] + post
        if isinstance(s, ast.Expr):
            s.value = self.expr(s.value)
            return [node_ev, s]
        if isinstance(s, ast.Return):
            s.value = self.expr(s.value)
            return [node_ev, s]
        if isinstance(s, ast.Raise):
            if s.exc is not None:
                s.exc = _call('mark', self.expr(s.exc))
            s.cause = self.expr(s.cause)
            return [self.ev('rnode', _c(sid)), s]
        if isinstance(s, ast.Assert):
            s.test = self.expr(s.test)
            s.msg = self.expr(s.msg)
            return [node_ev, s]
        if isinstance(s, ast.Delete):
            names = []
            for t in s.targets:
                names += _store_names(t)
                self.target_subexprs(t)
            return [node_ev, s] + ([self.ev('dl', _c(sid), _names_tuple(names))] if names else [])
        if isinstance(s, (ast.Import, ast.ImportFrom)):
            names = [(a.asname or a.name).split('.')[0] for a in s.names]
            return [node_ev, s, self.ev('wr', _c(sid), _names_tuple(names))]
        if isinstance(s, (ast.Global, ast.Nonlocal)):
            return [s, node_ev]          # declarations must precede any use; the node has no observable effect
        if isinstance(s, (ast.Pass, ast.Break, ast.Continue)):
            return [node_ev, s]
        if isinstance(s, ast.If):
            s.test = self.guard(s.test, s.test)
            s.body, s.orelse = self.block(s.body), self.block(s.orelse)
            return [s]
        if isinstance(s, ast.While):
            s.test = self.guard(s.test, s.test)
            s.body, s.orelse = self.block(s.body), self.block(s.orelse)
            return [s]
        if isinstance(s, ast.For):
            names = _store_names(s.target)
            self.target_subexprs(s.target)
            it_id = self.nid(s.iter)
            s.iter = _call('it', _c(it_id), self.guard(s.iter, s.iter), _names_tuple(names))
            s.body, s.orelse = self.block(s.body), self.block(s.orelse)
            return [s]
        if isinstance(s, ast.With):
            # `with A as x, B as y: body`  ==  `with A as x: with B as y: body`
            items = s.items
            body = self.block(s.body)
            for it in reversed(items):
                iid = self.nid(it)
                names = _store_names(it.optional_vars) if it.optional_vars is not None else []
                if it.optional_vars is not None:
                    self.target_subexprs(it.optional_vars)
                it.context_expr = self.guard(it, it.context_expr)
                inner = ([self.ev('wr', _c(iid), _names_tuple(names))] if names else []) + body
                body = [ast.With(items=[it], body=inner, type_comment=None)]
            return body
        if isinstance(s, ast.Try):
            s.body = self.block(s.body)
            for h in s.handlers:
                if h.name:
                    raise NotInstrumentable('except-as')
                h.type = self.expr(h.type)
                h.body = [self.ev('handler', _c(self.nid(h)))] + self.block(h.body)
            s.orelse, s.finalbody = self.block(s.orelse), self.block(s.finalbody)
            return [s]
        raise NotInstrumentable(type(s).__name__)

    def target_subexprs(self, t):
        """loads inside assignment targets (`a[i] = …`, `o.v = …`): wrap the inner loads"""
        if isinstance(t, (ast.Tuple, ast.List)):
            for e in t.elts:
                self.target_subexprs(e)
        elif isinstance(t, ast.Starred):
            self.target_subexprs(t.value)
        elif isinstance(t, ast.Attribute):
            t.value = self.expr(t.value)
        elif isinstance(t, ast.Subscript):
            t.value = self.expr(t.value)
            t.slice = self.expr(t.slice)

    def function(self, f):
        """rewrite the body of FunctionDef f in place"""
        fid = self.nid(f)
        a, e = '_mv_a_', '_mv_e_'
        body = self.block(f.body)
        wrapped = ast.Try(
            body=body or [ast.Pass()],
            handlers=[ast.ExceptHandler(type=ast.Name(id='BaseException', ctx=ast.Load()), name=e,
                                        body=[self.ev('exc', ast.Name(id=a, ctx=ast.Load()), ast.Name(id=e, ctx=ast.Load())), ast.Raise(exc=None, cause=None)])],
            orelse=[], finalbody=[self.ev('leave', ast.Name(id=a, ctx=ast.Load()))])
        f.body = [ast.Assign(targets=[ast.Name(id=a, ctx=ast.Store())], value=_call('enter', _c(fid)), type_comment=None), wrapped]


# ---------------------------------------------------------------------------------------------
# runtime
# ---------------------------------------------------------------------------------------------
class Act:
    __slots__ = ('fid', 'aid', 'steps', 'last', 'bound', 'reads', 'entries', 'live_obs', 'ended', 'exc', 'implicit', 'raise_step', 'cut', 'def_time')

    def __init__(self, fid, aid):
        self.fid, self.aid = fid, aid
        self.steps = []          # dicts: node, reads, writes, dels, fwrites, creads, touched
        self.last = {}           # name -> ('direct'|'foreign'|'del', step index, node id / fn id)
        self.bound = set()       # names owned by this activation that are currently bound
        self.reads = []          # (step, name_node_id, name, last-writer snapshot)
        self.entries = []        # (step, frozenset(bound owned names))   -- one per step (cheap)
        self.live_obs = []       # (i0, j, name, reader) : value in place since step i0 read at step j
        self.ended = False
        self.exc = None
        self.implicit = False
        self.def_time = None     # when the def statement that created this activation's function object last ran
        self.raise_step = None   # index of the step of the explicit raise whose exception is propagating
        self.cut = None          # number of leading steps that precede any propagation through a `finally` body


class Tracer:
    def __init__(self, fns):
        self.fns = fns
        self.stack = []
        self.acts = []
        self.implicit = False
        self._anc = {}
        self.clock = 0
        self.last_def = {}       # function id -> clock of the last execution of its def statement

    # ---- helpers
    def _owner_act(self, pos, name):
        """activation owning `name` as seen from the activation at stack position pos"""
        a = self.stack[pos]
        o = resolve(self.fns, a.fid, name)
        if o == 'G':
            return 'G'
        for p in range(pos, -1, -1):
            if self.stack[p].fid == o:
                return self.stack[p].aid
        return None

    def _is_ancestor(self, anc_fid, fid):
        k = (anc_fid, fid)
        if k not in self._anc:
            fs = self.fns[fid].parent
            r = False
            while fs is not None:
                if fs.fid == anc_fid:
                    r = True
                    break
                fs = fs.parent
            self._anc[k] = r
        return self._anc[k]

    def _cur(self, a):
        return a.steps[-1] if a.steps else None

    def _others_seeing(self, name, ident):
        top = len(self.stack) - 1
        for p in range(top - 1, -1, -1):
            a = self.stack[p]
            if name in self.fns[a.fid].names_used or name in self.fns[a.fid].bound or name in self.fns[a.fid].nonlocals \
                    or name in self.fns[a.fid].globals_:
                if self._owner_act(p, name) == ident:
                    yield a

    # ---- events
    def enter(self, fid):
        a = Act(fid, len(self.acts))
        a.def_time = self.last_def.get(fid)
        self.acts.append(a)
        self.stack.append(a)
        fs = self.fns[fid]
        self.node(fs.args_id)
        self.wr(fs.args_id, tuple(fs.params))
        return a

    def leave(self, a):
        a.ended = True
        while self.stack and self.stack[-1] is not a:
            self.stack.pop().ended = True
        if self.stack:
            self.stack.pop()

    def _propagation_ends(self, a):
        """the exception raised at a.raise_step is caught / leaves the function: if statements ran in between, they were
        `finally` bodies executed during propagation — a route the CFG does not contain and the properties set aside"""
        if a.raise_step is not None:
            if len(a.steps) - 1 > a.raise_step and a.cut is None:
                a.cut = a.raise_step + 1
            a.raise_step = None

    def exc(self, a, e):
        a.exc = type(e).__name__
        self._propagation_ends(a)
        if getattr(e, '_mv_explicit', None) != a.aid:
            a.implicit = True
            self.implicit = True

    def rnode(self, nid):
        self.node(nid)
        a = self.stack[-1]
        if a.raise_step is None:
            a.raise_step = len(a.steps) - 1

    def mark(self, e):
        if isinstance(e, type):
            e = e()
        try:
            e._mv_explicit = self.stack[-1].aid
        except Exception:
            pass
        return e

    def handler(self, hid):
        import sys
        e = sys.exc_info()[1]
        self._propagation_ends(self.stack[-1])
        if getattr(e, '_mv_explicit', None) != self.stack[-1].aid:
            self.stack[-1].implicit = True
            self.implicit = True

    def lam(self, fid, thunk):
        a = Act(fid, len(self.acts))
        self.acts.append(a)
        self.stack.append(a)
        fs = self.fns[fid]
        try:
            self.node(fs.args_id)
            self.wr(fs.args_id, tuple(fs.params))
            self.node_by_body(fid)
            return thunk()
        finally:
            self.leave(a)

    def node_by_body(self, fid):
        self.node(self.fns[fid].body_id)

    def node(self, nid):
        a = self.stack[-1]
        a.steps.append({'node': nid, 'reads': set(), 'writes': set(), 'dels': set(), 'fwrites': set(), 'creads': set(), 'touched': set()})
        a.entries.append(frozenset(a.bound))
        return None

    def _read(self, a, name, reader_fid, name_id, later=False):
        st = self._cur(a)
        if st is None:
            return
        j = len(a.steps) - 1
        if name in st['touched']:
            return                   # not upward exposed in this step: it reads a value produced within the step
        if reader_fid is None:
            st['reads'].add(name)
        else:
            st['creads'].add((reader_fid, name))
        lw = a.last.get(name)
        i0 = lw[1] if lw is not None else 0
        a.live_obs.append((i0, j, name, reader_fid, name_id, later))

    def rd(self, name_id, name, value):
        a = self.stack[-1]
        top = len(self.stack) - 1
        ident = self._owner_act(top, name)
        st = self._cur(a)
        if st is not None:
            lw = a.last.get(name)
            a.reads.append((len(a.steps) - 1, name_id, name, lw, ident == a.aid, ident))
            self._read(a, name, None, name_id)
        if ident is not None:
            # a read by ANOTHER local function running during activation o (one nested in o's function, or a sibling / outer
            # local function that o called) of a variable o's own code can see: a closure read in o's trace
            for o in self._others_seeing(name, ident):
                later = a.def_time is not None and o.def_time is not None and a.def_time > o.def_time
                self._read(o, name, a.fid, name_id, later)
        return value

    def rdaug(self, name_id, name):
        try:
            self.rd(name_id, name, None)
        except Exception:
            pass

    def _touch(self, names, nid, kind):
        a = self.stack[-1]
        top = len(self.stack) - 1
        st = self._cur(a)
        for name in names:
            ident = self._owner_act(top, name)
            if st is not None:
                (st['writes'] if kind == 'direct' else st['dels']).add(name)
                st['touched'].add(name)
                a.last[name] = (kind, len(a.steps) - 1, nid)
                if ident == a.aid:
                    (a.bound.add if kind == 'direct' else a.bound.discard)(name)
            if ident is not None:
                for o in self._others_seeing(name, ident):
                    so = self._cur(o)
                    if so is None:
                        continue
                    so['fwrites'].add(name)
                    so['touched'].add(name)
                    o.last[name] = ('foreign', len(o.steps) - 1, a.fid)
                    if ident == o.aid:
                        (o.bound.add if kind == 'direct' else o.bound.discard)(name)

    def wr(self, nid, names):
        if nid in self.fns:                       # a nested def statement has just created the function object
            self.clock += 1
            self.last_def[nid] = self.clock
        self._touch(names, nid, 'direct')

    def dl(self, nid, names):
        self._touch(names, nid, 'del')

    def it(self, nid, iterable, names):
        first = True
        for item in iterable:
            if not first:
                self.node(nid)
            first = False
            self._touch(names, nid, 'direct')
            yield item
        if not first:
            self.node(nid)


class Instrumented:
    """analysed tree A + instrumented, executable tree B of one module source defining `f`."""

    def __init__(self, source, fname='f'):
        try:
            compile(source, '<program>', 'exec')
        except SyntaxError as e:
            raise NotInstrumentable('program does not compile: %s' % e.msg)
        tree_a = ast.parse(source)
        fa = [s for s in tree_a.body if isinstance(s, ast.FunctionDef) and s.name == fname]
        if not fa:
            raise NotInstrumentable('no function ' + fname)
        self.analysis = dc.Analysis(fa[0], source)
        self.ser = self.analysis.ser
        tree_b = ast.parse(source)
        fb = [s for s in tree_b.body if isinstance(s, ast.FunctionDef) and s.name == fname][0]
        ser_b = pyast.Ser(fb)
        if ser_b.text() != self.ser.text():
            raise NotInstrumentable('the two parses differ')
        self.fns = scan_functions(fb, ser_b)
        for fs in self.fns.values():
            if fs.is_lambda:
                fs.body_id = ser_b.id_of(fs.node.body)
        rw = Rewriter(ser_b, self.fns)
        fb.decorator_list = []
        rw.function(fb)
        ast.fix_missing_locations(tree_b)
        try:
            self.code = compile(tree_b, '<instrumented>', 'exec')
        except SyntaxError as e:
            raise NotInstrumentable('instrumented program does not compile: %s' % e.msg)
        self.fname = fname
        self.top_fid = ser_b.id_of(fb)

    def module(self):
        mod = types.ModuleType('mv_instr')
        self.tracer = Tracer(self.fns)
        mod.__dict__[T] = self.tracer
        exec(self.code, mod.__dict__)
        return mod

    def run(self, args, decisions, run_program):
        """-> (outcome, tracer) for one execution"""
        mod = self.module()
        out, log, g = run_program(mod, getattr(mod, self.fname), args, decisions)
        return out, self.tracer
