"""C01J — development alias for the jump-lowering part of C01 (`./check C01J`); evidence in evidence/C01J.json."""
import json
import c01_jumps


def check(run):
    c01_jumps.check_part(run)


def replay(run, path):
    import progen
    with open(path) as f:
        rep = json.load(f)
    print(json.dumps({k: rep[k] for k in rep if k != 'case'}, indent=1))
    case = rep.get('case') or {}
    pj = case.get('program')
    if pj is None:
        check(run)
        return run.finish()
    print(pj['source'][len(progen.PRELUDE):] if pj['source'].startswith(progen.PRELUDE) else pj['source'])
    c01_jumps.check_part(run, jobs=[(pj, False, True)])
    return run.finish()
