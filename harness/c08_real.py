"""C08 — running the real activity analysis and reading its annotations in the model's format."""
import ast

import common
from common import sexp
import pyast

KEYS = ['SCOPE', 'ARGS_SCOPE', 'COND_SCOPE', 'ITERATE_SCOPE', 'BODY_SCOPE', 'ORELSE_SCOPE', 'ARGS_AND_BODY_SCOPE']


def _malt():
    from malt.pyct import anno, qual_names, transformer
    from malt.pyct.static_analysis import activity, annos
    return anno, qual_names, transformer, activity, annos


def qn_str(q):
    """Structural rendering of a qual_names.QN (same format as the model's QN.toStr)."""
    if q.has_subscript():
        return qn_str(q.qn[0]) + '[' + qn_str(q.qn[1]) + ']'
    if q.has_attr():
        return qn_str(q.qn[0]) + '.' + q.qn[1]
    b = q.qn[0]
    if isinstance(b, str):
        return b
    return '<%s:%s>' % (type(b.value).__name__, repr(b.value))


def qset(s):
    return sorted(set(qn_str(q) for q in s))


def literal_aliasing(tree):
    """Two subscript constants that compare equal but are spelled differently (1 / True / 1.0):
    Python identifies their Literal QNs, the model does not -> such functions are set aside."""
    seen = {}
    for n in ast.walk(tree):
        if isinstance(n, ast.Subscript) and isinstance(n.slice, ast.Constant) and n.slice.value is not Ellipsis:
            v = n.slice.value
            try:
                k = hash(v)
            except TypeError:
                continue
            for (v2, sp) in seen.get(k, []):
                if v2 == v and sp != (type(v).__name__, repr(v)):
                    return True
            seen.setdefault(k, []).append((v, (type(v).__name__, repr(v))))
    return False


def has_unknown(sx):
    """Does the serialised tree contain a node kind the Lean side only knows generically?"""
    if isinstance(sx, list):
        if len(sx) > 2 and sx[0] in ('Other', 'OtherStmt') and isinstance(sx[2], str) and sx[2].startswith('Unknown:'):
            return True
        return any(has_unknown(x) for x in sx)
    return False


class Impl(object):
    """One run of qual_names.resolve + activity.resolve on a fresh statement node."""

    def __init__(self, node, extra_tests=None):
        """node: a fresh ast statement (usually a FunctionDef).  extra_tests: optional callable
        For-node -> expression to attach as anno.Basic.EXTRA_LOOP_TEST before the analysis."""
        anno, qual_names, transformer, activity, annos = _malt()
        self.anno, self.annos_mod = anno, annos
        self.node = node
        extras = {}
        if extra_tests:
            for n in ast.walk(node):
                if isinstance(n, ast.For):
                    x = extra_tests(n)
                    if x is not None:
                        extras[id(n)] = x
        self.ser = pyast.Ser(node, annotate_for=(lambda f: extras.get(id(f))) if extras else None)
        self.crash = None
        self.exc = None
        try:
            qual_names.resolve(node)
            for n in ast.walk(node):
                if id(n) in extras:
                    qual_names.resolve(extras[id(n)])
                    anno.setanno(n, anno.Basic.EXTRA_LOOP_TEST, extras[id(n)])
            ctx = transformer.Context(transformer.EntityInfo(
                name=getattr(node, 'name', 'f'), source_code='', source_file=None, future_features=(), namespace={}),
                None, None)
            activity.resolve(node, ctx, None)
        except AssertionError as e:
            self.crash, self.exc = 'literalAssert', e
        except AttributeError as e:
            self.crash, self.exc = ('handlerName' if "'str' object" in str(e) else 'other:AttributeError'), e
        except Exception as e:  # noqa
            self.crash, self.exc = 'other:' + type(e).__name__, e
        self.key_objs = [(anno.Static.SCOPE, 'SCOPE')] + [(getattr(annos.NodeAnno, k), k) for k in KEYS[1:]]

    def scope_obj(self, node, key):
        for ko, kn in self.key_objs:
            if kn == key:
                return self.anno.getanno(node, ko, default=None)
        raise KeyError(key)

    def scope_list(self, sc):
        ps = []
        for k, owner in sorted(((qn_str(k), owner) for k, owner in sc.params.items()), key=lambda t: t[0]):
            ps.append([k, self.ser.id_of(owner) or 0])
        return [bool(sc.isolated), sc.function_name if sc.function_name is not None else '-',
                qset(sc.isolated_names), qset(sc.read), qset(sc.modified), qset(sc.deleted), qset(sc.bound),
                qset(sc.globals), qset(sc.nonlocals), qset(sc.annotations), ps, qset(sc.referenced)]

    def annotations(self):
        """[[node id, KEY, scope list], ...] sorted by (node id, KEY) — the model's annosSexp."""
        out = []
        for i in sorted(self.ser.nodes):
            n = self.ser.nodes[i]
            for ko, kn in sorted(self.key_objs, key=lambda t: t[1]):
                if self.anno.hasanno(n, ko):
                    out.append([i, kn, self.scope_list(self.anno.getanno(n, ko))])
        return out

    def text(self):
        if self.crash:
            return sexp(['crash', self.crash])
        return sexp(self.annotations())


def fresh(node):
    """A fresh copy of a statement node (no annotations left over from earlier analyses)."""
    return ast.parse(ast.unparse(node)).body[0]
