"""C13 callables zoo: every callable kind is built from a *recipe*; the facts the model's `Desc` needs are
declared by the recipe (what was built), never computed with malt's own predicates.

A base recipe is a name from BASES (optionally `name:param`); `build(name, env)` returns a `Built` with
  f            the callable
  facts        dict of Desc facts (see `desc_sexp`)
  self_val     tag of the receiver Python prepends (bound method / callable object / metaclass call), or None
  binds        whether Python's call protocol prepends `self_val`
  loggable     the underlying target logs ('run', converted?, *binding) into `log`
  sig          'std' (a=0, b=2, *rest, k=3, **kw) or a list of explicit (args, kwargs) shapes for foreign callables
  target_ents  the entities whose conversion counts as "conversion of this target was attempted"
"""
import collections, decimal, functools, importlib, inspect, math, operator, os, re, copy, sys, types, unittest, weakref

ZOO_SRC = r'''
import sys, os, collections, dataclasses, functools, unittest
API_SUFFIX = os.path.join('malt', 'impl', 'api.py')
GLOG = []


def _probe():
    """Is the code that called me generated (converted) code?  Walks over the call-wrapper frames."""
    f = sys._getframe(1)
    while f is not None and f.f_code.co_filename.endswith(API_SUFFIX):
        f = f.f_back
    # the recipes' own code lives in this file, in '<string>' (exec) or in '<c13-no-such-file>'; anything else is generated
    return f.f_code.co_filename not in (__file__, '<string>', '<c13-no-such-file>')


_probe.autograph_info__ = None   # an artifact: the wrapper never converts the probe itself


def gfn(a=0, b=2, *rest, k=3, **kw):
    conv = _probe()
    if a:
        r = ('T', a, b, rest, k, sorted(kw.items()))
    else:
        r = ('F', a, b, rest, k, sorted(kw.items()))
    GLOG.append(('run', conv) + r)
    return r


def make_fn(log):
    def target(a=0, b=2, *rest, k=3, **kw):
        conv = _probe()
        if a:
            r = ('T', a, b, rest, k, sorted(kw.items()))
        else:
            r = ('F', a, b, rest, k, sorted(kw.items()))
        log.append(('run', conv) + r)
        return r
    return target


def make_raiser(log):
    def target(a=0, b=2, *rest, k=3, **kw):
        conv = _probe()
        log.append(('run', conv, 'R', a, b, rest, k, sorted(kw.items())))
        if a:
            raise ValueError('boom %s' % (a,))
        return b
    return target


def make_lambda(log):
    return lambda a=0, b=2, *rest, k=3, **kw: (log.append(('run', _probe(), 'L', a, b, rest, k, sorted(kw.items()))), ('L', a, b, rest, k, sorted(kw.items())) if a else ('l', a, b, rest, k, sorted(kw.items())))[1]


def make_gen(log):
    def target(a=0, b=2, *rest, k=3, **kw):
        conv = _probe()
        log.append(('run', conv, 'G', a, b, rest, k, sorted(kw.items())))
        if a:
            yield a
        yield ('G', a, b, rest, k, sorted(kw.items()))
    return target


def make_forelse(log):
    def target(a=0, b=2, *rest, k=3, **kw):
        conv = _probe()
        for i in rest:
            pass
        else:
            r = ('E', a, b, rest, k, sorted(kw.items()))
        log.append(('run', conv) + r)
        return r
    return target


def make_decorated(log):
    def inner(*args, **kwargs):
        return ('inner', len(args), sorted(kwargs))

    def wrapper(a=0, b=2, *rest, k=3, **kw):
        conv = _probe()
        if a:
            r = ('T', a, b, rest, k, sorted(kw.items()))
        else:
            r = ('F', a, b, rest, k, sorted(kw.items()))
        log.append(('run', conv) + r)
        log.append(inner(a, *rest, **kw))
        return r
    return functools.wraps(inner)(wrapper), inner


def make_lru(log):
    return functools.lru_cache()(make_fn(log))


class C(object):
    def __init__(self, log, tag='SELF'):
        self.log = log
        self.tag = tag

    def m(self, a=0, b=2, *rest, k=3, **kw):
        conv = _probe()
        if a:
            r = ('T', self.tag, a, b, rest, k, sorted(kw.items()))
        else:
            r = ('F', self.tag, a, b, rest, k, sorted(kw.items()))
        self.log.append(('run', conv) + r)
        return r

    def gm(self, a=0, b=2, *rest, k=3, **kw):
        conv = _probe()
        self.log.append(('run', conv, 'G', self.tag, a, b, rest, k, sorted(kw.items())))
        if a:
            yield a
        yield ('G', self.tag, a, b, rest, k, sorted(kw.items()))

    @classmethod
    def cm(cls, a=0, b=2, *rest, k=3, **kw):
        conv = _probe()
        if a:
            r = ('T', cls.CLSTAG, a, b, rest, k, sorted(kw.items()))
        else:
            r = ('F', cls.CLSTAG, a, b, rest, k, sorted(kw.items()))
        cls.CLSLOG.append(('run', conv) + r)
        return r

    @staticmethod
    def sm(a=0, b=2, *rest, k=3, **kw):
        conv = _probe()
        if a:
            r = ('T', a, b, rest, k, sorted(kw.items()))
        else:
            r = ('F', a, b, rest, k, sorted(kw.items()))
        GLOG.append(('run', conv) + r)
        return r

    def __call__(self, a=0, b=2, *rest, k=3, **kw):
        conv = _probe()
        if a:
            r = ('T', self.tag, a, b, rest, k, sorted(kw.items()))
        else:
            r = ('F', self.tag, a, b, rest, k, sorted(kw.items()))
        self.log.append(('run', conv) + r)
        return r


def make_class(log):
    """A fresh class per build (class-level log for the classmethod)."""
    class K(C):
        CLSTAG = 'CLS'
        CLSLOG = log
    return K


class SubInherit(C):
    pass


class SubOverride(C):
    def m(self, a=0, b=2, *rest, k=3, **kw):
        conv = _probe()
        if a:
            r = ('T', self.tag, a, b, rest, k, sorted(kw.items()))
        else:
            r = ('F', self.tag, a, b, rest, k, sorted(kw.items()))
        self.log.append(('run', conv) + r)
        return r

    def __call__(self, a=0, b=2, *rest, k=3, **kw):
        conv = _probe()
        if a:
            r = ('T', self.tag, a, b, rest, k, sorted(kw.items()))
        else:
            r = ('F', self.tag, a, b, rest, k, sorted(kw.items()))
        self.log.append(('run', conv) + r)
        return r


class GenCall(object):
    def __init__(self, log, tag='OBJ'):
        self.log = log
        self.tag = tag

    def __call__(self, a=0, b=2, *rest, k=3, **kw):
        conv = _probe()
        self.log.append(('run', conv, 'G', self.tag, a, b, rest, k, sorted(kw.items())))
        if a:
            yield a
        yield ('G', self.tag, a, b, rest, k, sorted(kw.items()))


class ForElseCall(object):
    def __init__(self, log, tag='OBJ'):
        self.log = log
        self.tag = tag

    def __call__(self, a=0, b=2, *rest, k=3, **kw):
        conv = _probe()
        for i in rest:
            pass
        else:
            r = ('E', self.tag, a, b, rest, k, sorted(kw.items()))
        self.log.append(('run', conv) + r)
        return r


class UnhashFail(ForElseCall):
    __hash__ = None

    def __eq__(self, other):
        return self is other


class Unhash(C):
    __hash__ = None

    def __eq__(self, other):
        return self is other


class Slots(object):
    __slots__ = ('log', 'tag')

    def __init__(self, log, tag='OBJ'):
        self.log = log
        self.tag = tag

    def __call__(self, a=0, b=2, *rest, k=3, **kw):
        conv = _probe()
        if a:
            r = ('T', self.tag, a, b, rest, k, sorted(kw.items()))
        else:
            r = ('F', self.tag, a, b, rest, k, sorted(kw.items()))
        self.log.append(('run', conv) + r)
        return r


class TC(unittest.TestCase):
    def runTest(self):
        pass

    def m(self, a=0, b=2, *rest, k=3, **kw):
        conv = _probe()
        if a:
            r = ('T', 'SELF', a, b, rest, k, sorted(kw.items()))
        else:
            r = ('F', 'SELF', a, b, rest, k, sorted(kw.items()))
        self.log.append(('run', conv) + r)
        return r


NT = collections.namedtuple('NT', ['x', 'y'])


class NTS(NT):
    def m(self, a=0, b=2, *rest, k=3, **kw):
        conv = _probe()
        if a:
            r = ('T', 'SELF', a, b, rest, k, sorted(kw.items()))
        else:
            r = ('F', 'SELF', a, b, rest, k, sorted(kw.items()))
        self.x.append(('run', conv) + r)
        return r


class UserClass(object):
    def __init__(self, a=0, b=2, *rest, k=3, **kw):
        self.bound = (a, b, rest, k, sorted(kw.items()))
        GLOG.append(('run', _probe(), 'init') + self.bound)


class Meta(type):
    def __call__(cls, a=0, b=2, *rest, k=3, **kw):
        conv = _probe()
        if a:
            r = ('T', cls.CLSTAG, a, b, rest, k, sorted(kw.items()))
        else:
            r = ('F', cls.CLSTAG, a, b, rest, k, sorted(kw.items()))
        GLOG.append(('run', conv) + r)
        return super().__call__(r)


class WithMeta(metaclass=Meta):
    CLSTAG = 'CLS'

    def __init__(self, r):
        self.bound = r


class PStr(str):
    _IS_TENSORFLOW_PLUGIN = True


# ---- targets that cannot be converted for a reason located INSIDE their body (the target itself is an ordinary function)

class _Holder(object):
    pass


HOLDER = _Holder()
setattr(HOLDER, '__hid', 'hidden')


def make_nested_gen(log):
    def target(a=0, b=2, *rest, k=3, **kw):
        conv = _probe()

        def gen():
            for i in rest:
                if i:
                    yield i
        r = ('N', a, b, rest, k, sorted(kw.items()))
        log.append(('run', conv) + r)
        total = []
        for v in gen():
            total.append(v)
        return r + (total, list(gen()))
    return target


def make_nested_yield_from(log):
    def target(a=0, b=2, *rest, k=3, **kw):
        conv = _probe()

        def gen():
            if rest:
                yield from rest
            yield a
        r = ('Y', a, b, rest, k, sorted(kw.items()))
        log.append(('run', conv) + r)
        return r + (list(gen()),)
    return target


def make_whileelse(log):
    def target(a=0, b=2, *rest, k=3, **kw):
        conv = _probe()
        i = 0
        while i < len(rest):
            i += 1
        else:
            r = ('W', a, b, rest, k, sorted(kw.items()))
        log.append(('run', conv) + r)
        return r + (i,)
    return target


def make_nested_forelse(log):
    def target(a=0, b=2, *rest, k=3, **kw):
        conv = _probe()

        def count():
            n = 0
            for x in rest:
                n += 1
            else:
                n += 100
            return n
        r = ('O', a, b, rest, k, sorted(kw.items()))
        log.append(('run', conv) + r)
        return r + (count(),)
    return target


def make_mangled(log):
    def target(a=0, b=2, *rest, k=3, **kw):
        conv = _probe()
        if a:
            r = ('M', a, b, rest, k, sorted(kw.items()))
        else:
            r = ('m', a, b, rest, k, sorted(kw.items()))
        log.append(('run', conv) + r)
        return r + (HOLDER.__hid,)
    return target


def make_except_as(log):
    def target(a=0, b=2, *rest, k=3, **kw):
        conv = _probe()
        try:
            v = int('not a number')
        except ValueError as e:
            v = type(e).__name__
        r = ('X', a, b, rest, k, sorted(kw.items()))
        log.append(('run', conv) + r)
        return r + (v,)
    return target


def _drive(coro):
    """run a coroutine that never suspends to completion, without an event loop (never converted: marked as an artifact)"""
    try:
        coro.send(None)
    except StopIteration as stop:
        return stop.value
    coro.close()
    return 'suspended'


_drive.autograph_info__ = None


def make_nested_async(log):
    def target(a=0, b=2, *rest, k=3, **kw):
        conv = _probe()

        async def co():
            if a:
                return ('co', a)
            return ('co', 0)
        r = ('A', a, b, rest, k, sorted(kw.items()))
        log.append(('run', conv) + r)
        return r + (_drive(co()),)
    return target


class FailC(object):
    """methods whose conversion FAILS for a reason inside their body; variable-arity and fixed-arity signatures"""
    CLSTAG = 'CLS'
    CLSLOG = GLOG

    def __init__(self, log, tag='SELF'):
        self.log = log
        self.tag = tag
        self.__x = 'priv'

    def m_forelse(self, a=0, b=2, *rest, k=3, **kw):
        conv = _probe()
        for i in rest:
            pass
        else:
            r = ('E', self.tag, a, b, rest, k, sorted(kw.items()))
        self.log.append(('run', conv) + r)
        return r

    def m_mangled(self, a=0, b=2, *rest, k=3, **kw):
        conv = _probe()
        if a:
            r = ('M', self.tag, a, b, rest, k, sorted(kw.items()))
        else:
            r = ('m', self.tag, a, b, rest, k, sorted(kw.items()))
        self.log.append(('run', conv) + r)
        return r + (self.__x,)

    def m_fixed(self, a, b):
        conv = _probe()
        for i in (a, b):
            pass
        else:
            r = ('E', self.tag, a, b)
        self.log.append(('run', conv) + r)
        return r

    @classmethod
    def cm_forelse(cls, a=0, b=2, *rest, k=3, **kw):
        conv = _probe()
        for i in rest:
            pass
        else:
            r = ('E', cls.CLSTAG, a, b, rest, k, sorted(kw.items()))
        cls.CLSLOG.append(('run', conv) + r)
        return r

    @classmethod
    def cm_fixed(cls, a, b):
        conv = _probe()
        n = 0
        while n < 1:
            n += 1
        else:
            r = ('W', cls.CLSTAG, a, b)
        cls.CLSLOG.append(('run', conv) + r)
        return r

    @staticmethod
    def sm_whileelse(a=0, b=2, *rest, k=3, **kw):
        conv = _probe()
        n = 0
        while n < len(rest):
            n += 1
        else:
            r = ('W', a, b, rest, k, sorted(kw.items()))
        GLOG.append(('run', conv) + r)
        return r

    @staticmethod
    def sm_fixed(a, b):
        conv = _probe()
        for i in (a,):
            pass
        else:
            r = ('E', a, b)
        GLOG.append(('run', conv) + r)
        return r


@dataclasses.dataclass
class DataCallable(object):
    """a default dataclass defines __eq__ and therefore has __hash__ = None: an unhashable callable object"""
    log: list
    tag: str = 'OBJ'

    def __call__(self, a=0, b=2, *rest, k=3, **kw):
        conv = _probe()
        if a:
            r = ('T', self.tag, a, b, rest, k, sorted(kw.items()))
        else:
            r = ('F', self.tag, a, b, rest, k, sorted(kw.items()))
        self.log.append(('run', conv) + r)
        return r


class HashRaises(C):
    """a callable object whose __hash__ raises"""
    def __hash__(self):
        raise TypeError('unhashable on purpose')

    def __eq__(self, other):
        return self is other


def make_fail_class(log):
    class K(FailC):
        CLSLOG = log
    return K


def traced(fn, log):
    """a user decorator: all its wrappers share ONE code object; functools.wraps copies fn.__module__ onto the wrapper"""
    @functools.wraps(fn)
    def wrapper(a=0, b=2, *rest, k=3, **kw):
        conv = _probe()
        if a:
            r = ('T', a, b, rest, k, sorted(kw.items()))
        else:
            r = ('F', a, b, rest, k, sorted(kw.items()))
        log.append(('run', conv) + r)
        log.append(('inner', fn(a)))
        return r
    return wrapper


def traced_target(x):
    if x:
        return ('user', x)
    return ('user', 0)


class FalsyBool(C):
    """instances are falsy through __bool__"""
    def __bool__(self):
        return False


class FalsyLen(C):
    """instances are falsy through __len__"""
    def __len__(self):
        return 0


class EmptyList(list):
    """an empty list subclass with a method and a __call__: a falsy receiver"""
    def m(self, a=0, b=2, *rest, k=3, **kw):
        conv = _probe()
        if a:
            r = ('T', self.tag, a, b, rest, k, sorted(kw.items()))
        else:
            r = ('F', self.tag, a, b, rest, k, sorted(kw.items()))
        self.log.append(('run', conv) + r)
        return r


class FalsyMeta(type):
    def __len__(cls):
        return 0


def make_falsy_class(log):
    """a class that is itself falsy (metaclass __len__ == 0), with a classmethod"""
    class K(C, metaclass=FalsyMeta):
        CLSTAG = 'CLS'
        CLSLOG = log
    return K


class Mixin(object):
    def m(self, a=0, b=2, *rest, k=3, **kw):
        conv = _probe()
        if a:
            r = ('T', 'SELF', a, b, rest, k, sorted(kw.items()))
        else:
            r = ('F', 'SELF', a, b, rest, k, sorted(kw.items()))
        self.log.append(('run', conv) + r)
        return r


class MixTC(Mixin, unittest.TestCase):
    def runTest(self):
        pass


class MixPlain(Mixin):
    pass


def posonly(a, /, b=2, *, c=3):
    conv = _probe()
    if a:
        r = ('T', a, b, c)
    else:
        r = ('F', a, b, c)
    GLOG.append(('run', conv) + r)
    return r


class PM(object):
    def __init__(self, log):
        self.log = log

    def _m(self, a=0, b=2, *rest, k=3, **kw):
        conv = _probe()
        if a:
            r = ('T', 'SELF', a, b, rest, k, sorted(kw.items()))
        else:
            r = ('F', 'SELF', a, b, rest, k, sorted(kw.items()))
        self.log.append(('run', conv) + r)
        return r
    pm = functools.partialmethod(_m, 'pm1', k='pmk')
'''

NOSOURCE_SRC = '''
def target(a=0, b=2, *rest, k=3, **kw):
    conv = _probe()
    if a:
        r = ('T', a, b, rest, k, sorted(kw.items()))
    else:
        r = ('F', a, b, rest, k, sorted(kw.items()))
    log.append(('run', conv) + r)
    return r
'''


class ZooEnv(object):
    """The temporary zoo module + the fake modules registered for the rule-table tests."""

    def __init__(self, tmpdir, rule_prefixes):
        self.name = 'c13zoo_%d' % os.getpid()
        self.path = os.path.join(tmpdir, self.name + '.py')
        with open(self.path, 'w') as f:
            f.write(ZOO_SRC)
        sys.path.insert(0, tmpdir)
        self.mod = importlib.import_module(self.name)
        self.tmpdir = tmpdir
        self.fake = {}
        self.rule_prefixes = list(rule_prefixes)

    def register_fake(self, modname):
        """Make `modname` resolvable by inspect.getmodule.  Only names that are not loaded/real."""
        if modname in sys.modules:
            return modname in self.fake
        m = types.ModuleType(modname)
        self.fake[modname] = m
        sys.modules[modname] = m
        return True

    def close(self):
        for n in self.fake:
            sys.modules.pop(n, None)
        sys.modules.pop(self.name, None)
        if self.tmpdir in sys.path:
            sys.path.remove(self.tmpdir)


OPAQUE = 'opaque'


def ent(mod=None, gen=False, is_class=False, has_call=True, call_differs=True, is_method=False, owner_known=False,
        testcase=False, nt=False, nt_base=False, call=OPAQUE, definer=OPAQUE):
    return ['ent', 'none' if mod is None else list(mod), gen, is_class, has_call, call_differs, is_method, owner_known,
            testcase, nt, nt_base, call, definer]


def class_ent(mod, nt=False, nt_base=False):
    return ent(mod=mod, is_class=True, nt=nt, nt_base=nt_base)


def method_ent(fn_mod, cls_mod, gen=False, testcase=False, definer_nt=False, definer_nt_base=False):
    return ent(mod=fn_mod, gen=gen, is_method=True, owner_known=True, testcase=testcase,
               definer=class_ent(cls_mod, definer_nt, definer_nt_base))


def default_facts(**kw):
    d = dict(cacheable=True, artifact=False, builtin='notBuiltin', wrapt=False, lru=False, ctor=False, known=False,
             tf=False, ent=OPAQUE, kind='function', has_code=True, string_file=False, fail=None, already_converted=False)
    d.update(kw)
    return d


class Built(object):
    def __init__(self, f, facts, self_val=None, binds=False, loggable=True, sig='std', target_ents=None, log=None,
                 needs_self=None, result_kind='plain', note='', prebuilt_partial=False):
        self.prebuilt_partial = prebuilt_partial
        self.soft = False                          # conversion may fail for undeclared reasons (direct oracle only)   # b.f is itself a functools.partial built by the recipe
        self.f, self.facts, self.self_val, self.binds = f, facts, self_val, binds
        self.loggable, self.sig, self.log = loggable, sig, log
        self.target_ents = target_ents if target_ents is not None else [f]
        self.needs_self = needs_self          # an explicit first argument the *caller* passes (unbound method)
        self.result_kind = result_kind
        self.note = note


def cacheable_by_python(obj):
    """hashable and weak-referenceable (plain Python facts, no malt code involved)."""
    key = obj.__func__ if inspect.ismethod(obj) else obj
    try:
        hash(key)
        weakref.ref(key)
        return True
    except TypeError:
        return False


def mod_comps(name):
    return name.split('.')


class CountLen(object):
    """argument object with counted special methods (effects of builtins)"""

    def __init__(self, log, items):
        self.log, self.items = log, list(items)

    def __len__(self):
        self.log.append(('len',))
        return len(self.items)

    def __abs__(self):
        self.log.append(('abs',))
        return 7

    def __iter__(self):
        self.log.append(('iter',))
        return iter(self.items)

    def __int__(self):
        self.log.append(('int',))
        return 5

    def __float__(self):
        self.log.append(('float',))
        return 2.5

    def __repr__(self):
        return 'CountLen(%r)' % (self.items,)

    def __str__(self):
        self.log.append(('str',))
        return 'CL'


def build(name, env, log):
    """name -> Built.  `env` is a ZooEnv, `log` the effect log the target writes to."""
    Z = env.mod
    M = [env.name]
    base, _, param = name.partition(':')

    if base == 'fn':
        f = Z.make_fn(log)
        return Built(f, default_facts(ent=ent(mod=M)))
    if base == 'gfn':
        return Built(Z.gfn, default_facts(ent=ent(mod=M)), log=Z.GLOG)
    if base == 'raiser':
        f = Z.make_raiser(log)
        return Built(f, default_facts(ent=ent(mod=M)))
    if base == 'lambda':
        f = Z.make_lambda(log)
        return Built(f, default_facts(ent=ent(mod=M)))
    if base == 'fn_mod':          # function whose __module__ names `param`
        f = Z.make_fn(log)
        loaded = env.register_fake(param) if param not in sys.modules else True
        f.__module__ = param
        resolvable = param in sys.modules
        return Built(f, default_facts(ent=ent(mod=mod_comps(param) if resolvable else None)), note='module=' + param)
    if base == 'fn_unloadedmod':  # __module__ names a module that is not loaded: inspect.getmodule gives None
        f = Z.make_fn(log)
        f.__module__ = 'malt.c13_not_loaded'
        return Built(f, default_facts(ent=ent(mod=None)))
    if base == 'genfn':
        f = Z.make_gen(log)
        return Built(f, default_facts(ent=ent(mod=M, gen=True), fail=('featureCheck', 'unsupportedElement')), result_kind='iter')
    if base == 'forelse':
        f = Z.make_forelse(log)
        return Built(f, default_facts(ent=ent(mod=M), fail=('featureCheck', 'unsupportedElement')))
    if base in ('nested_gen', 'nested_yield_from', 'whileelse', 'nested_forelse', 'mangled'):
        # documented unsupported constructs located inside the body: rejected by the unsupported-feature check
        f = getattr(Z, 'make_' + base)(log)
        return Built(f, default_facts(ent=ent(mod=M), fail=('featureCheck', 'unsupportedElement')))
    if base in ('except_as', 'nested_async'):
        # constructs the pipeline may or may not handle (not a documented limitation): no failure is DECLARED; the oracle is
        # transparency + the fallback contract whenever a conversion is observed to fail
        f = getattr(Z, 'make_' + base)(log)
        b = Built(f, default_facts(ent=ent(mod=M)))
        b.soft = True
        return b
    if base == 'nosource':
        ns = {'__name__': env.name, 'log': log, '_probe': Z._probe}
        exec(compile(NOSOURCE_SRC, '<c13-no-such-file>', 'exec'), ns)
        f = ns['target']
        return Built(f, default_facts(ent=ent(mod=M), fail=('sourceLookup', 'inaccessibleSource')))
    if base == 'execfn':
        ns = {'__name__': env.name, 'log': log, '_probe': Z._probe}
        exec(NOSOURCE_SRC, ns)
        f = ns['target']
        return Built(f, default_facts(ent=ent(mod=M), string_file=True))
    if base == 'decorated':
        f, inner = Z.make_decorated(log)
        return Built(f, default_facts(ent=ent(mod=M)))
    if base == 'lru':
        f = Z.make_lru(log)
        return Built(f, default_facts(ent=ent(mod=M), lru=True, kind='callableObject', has_code=False))
    if base == 'dnc':
        from malt.impl import api
        f = api.do_not_convert(Z.make_fn(log))
        return Built(f, default_facts(ent=ent(mod=M), artifact=True))
    if base == 'tograph':
        from malt.impl import api
        f = api.to_graph(Z.make_fn(log), experimental_optional_features=None)
        return Built(f, default_facts(ent=ent(mod=M), artifact=True, already_converted=True))
    if base == 'convertwrapped':
        from malt.impl import api
        f = api.convert(recursive=True, optional_features=None)(Z.make_fn(log))
        return Built(f, default_facts(ent=ent(mod=M), artifact=True, already_converted=True))
    if base == 'fn_artifact':     # a closure of the common factory, marked as an autograph artifact
        f = Z.make_fn(log)
        f.autograph_info__ = None
        return Built(f, default_facts(ent=ent(mod=M), artifact=True))
    if base == 'traced_copy':     # wrapper of a user decorator around copy.copy: functools.wraps makes it look like a member of `copy`
        f = Z.traced(copy.copy, log)
        return Built(f, default_facts(ent=ent(mod=['copy'])))
    if base == 'traced_user':     # the same decorator (same code object) around a user function
        f = Z.traced(Z.traced_target, log)
        return Built(f, default_facts(ent=ent(mod=M)))
    if base == 'fn_selfattr':     # a plain function carrying a user-set __self__ attribute
        f = Z.make_fn(log)
        f.__self__ = 'FOREIGN'
        return Built(f, default_facts(ent=ent(mod=M)), self_val='FOREIGN', binds=False)
    if base == 'tfplugin':
        f = Z.make_fn(log)
        f.__module__ = Z.PStr(env.name)
        return Built(f, default_facts(ent=ent(mod=M), tf=True))

    # ---- methods
    if base == 'bound':
        o = Z.C(log)
        return Built(o.m, default_facts(kind='method', ent=method_ent(M, M)), self_val='SELF', binds=True)
    if base == 'unbound':
        o = Z.C(log)
        return Built(Z.C.m, default_facts(ent=ent(mod=M)), needs_self=o)
    if base == 'classm':
        K = Z.make_class(log)
        return Built(K.cm, default_facts(kind='method', ent=method_ent(M, M)), self_val='CLS', binds=True)
    if base == 'classm_inst':
        K = Z.make_class(log)
        return Built(K(log).cm, default_facts(kind='method', ent=method_ent(M, M)), self_val='CLS', binds=True)
    if base == 'staticm':
        return Built(Z.C.sm, default_facts(ent=ent(mod=M)), log=Z.GLOG)
    if base == 'bound_gen':
        o = Z.C(log)
        return Built(o.gm, default_facts(kind='method', ent=method_ent(M, M, gen=True),
                                         fail=('featureCheck', 'unsupportedElement')), self_val='SELF', binds=True, result_kind='iter')
    if base == 'bound_allowcls':  # method defined by a class of an allow-listed module (function's module is the zoo's)
        env.register_fake(param)
        K = type('AllowK', (Z.SubOverride,), {})
        K.__module__ = param
        K.m = types.FunctionType(Z.SubOverride.m.__code__, Z.SubOverride.m.__globals__, 'm', Z.SubOverride.m.__defaults__)
        K.m.__kwdefaults__ = Z.SubOverride.m.__kwdefaults__
        o = K(log)
        return Built(o.m, default_facts(kind='method', ent=method_ent(M, mod_comps(param))), self_val='SELF', binds=True)
    if base == 'bound_sub_inherit':   # user subclass of an allow-listed class, method inherited
        env.register_fake(param)
        Base = type('AllowBase', (Z.SubOverride,), {})
        Base.__module__ = param
        Base.m = types.FunctionType(Z.SubOverride.m.__code__, Z.SubOverride.m.__globals__, 'm', Z.SubOverride.m.__defaults__)
        Base.m.__kwdefaults__ = Z.SubOverride.m.__kwdefaults__
        Sub = type('UserSub', (Base,), {})
        Sub.__module__ = env.name
        o = Sub(log)
        return Built(o.m, default_facts(kind='method', ent=method_ent(M, mod_comps(param))), self_val='SELF', binds=True)
    if base == 'bound_sub_override':  # user subclass of an allow-listed class overriding the method
        env.register_fake(param)
        Base = type('AllowBase', (Z.C,), {})
        Base.__module__ = param
        Sub = type('UserSub', (Base,), {'m': Z.SubOverride.__dict__['m']})
        Sub.__module__ = env.name
        o = Sub(log)
        return Built(o.m, default_facts(kind='method', ent=method_ent(M, M)), self_val='SELF', binds=True)
    if base == 'bound_testcase':
        o = Z.TC()
        o.log = log
        return Built(o.m, default_facts(kind='method', ent=method_ent(M, M, testcase=True)), self_val='SELF', binds=True)
    if base in ('bound_falsy_bool', 'bound_falsy_len'):      # bound method of a FALSY instance
        o = (Z.FalsyBool if base == 'bound_falsy_bool' else Z.FalsyLen)(log)
        assert not o
        return Built(o.m, default_facts(kind='method', ent=method_ent(M, M)), self_val='SELF', binds=True)
    if base == 'bound_emptylist':
        o = Z.EmptyList()
        o.log, o.tag = log, 'SELF'
        assert not o
        return Built(o.m, default_facts(kind='method', ent=method_ent(M, M)), self_val='SELF', binds=True)
    if base in ('classm_falsy', 'classm_falsy_inst'):         # classmethod bound to a FALSY class
        K = Z.make_falsy_class(log)
        assert not K
        f = K.cm if base == 'classm_falsy' else K(log).cm
        return Built(f, default_facts(kind='method', ent=method_ent(M, M)), self_val='CLS', binds=True)
    if base == 'callobj_falsy':
        o = Z.FalsyBool(log, 'OBJ')
        return Built(o, default_facts(kind='callableObject', ent=ent(mod=M, call=method_ent(M, M))), self_val='OBJ', binds=True,
                     target_ents=[Z.C.__call__])
    if base == 'mix_tc':          # a mixin method reached through a TestCase subclass: allow-listed because of its OWNER
        o = Z.MixTC()
        o.log = log
        return Built(o.m, default_facts(kind='method', ent=method_ent(M, M, testcase=True)), self_val='SELF', binds=True)
    if base == 'mix_plain':       # the same function bound to an ordinary instance
        o = Z.MixPlain()
        o.log = log
        return Built(o.m, default_facts(kind='method', ent=method_ent(M, M)), self_val='SELF', binds=True)
    if base == 'nt_sub_method':
        o = Z.NTS(log, 2)
        return Built(o.m, default_facts(kind='method', ent=method_ent(M, M, definer_nt=True, definer_nt_base=True)),
                     self_val='SELF', binds=True)
    if base == 'nt_inherited':
        o = Z.NT(1, 2)
        return Built(o._replace, default_facts(kind='method', ent=method_ent(['collections'], M, definer_nt=True)),
                     self_val='SELF', binds=True, loggable=False, sig=[((), {'x': 5}), ((), None), ((), {})], result_kind='repr')

    if base == 'partialmethod':   # functools.partialmethod: attribute access gives a functools.partial over the bound method
        o = Z.PM(log)
        return Built(o.pm, default_facts(kind='method', ent=method_ent(M, M)), self_val='SELF', binds=True,
                     target_ents=[Z.PM._m], prebuilt_partial=True)
    if base == 'posonly':         # positional-only and keyword-only parameters
        return Built(Z.posonly, default_facts(ent=ent(mod=M)), log=Z.GLOG, loggable=False, result_kind='plain',
                     sig=[(('v1',), None), (('v1', 'v2'), {'c': 'vc'}), (('',), {'b': 'vb'}), ((), {'a': 'bad'})])
    if base == 'staticmethod_obj':   # a staticmethod object is callable (3.10+), through a native __call__
        o = staticmethod(Z.make_fn(log))
        return Built(o, default_facts(kind='callableObject', has_code=False, cacheable=cacheable_by_python(o), ent=ent(mod=M)))

    # ---- methods whose conversion fails (fallback with a receiver): variable-arity and fixed-arity signatures
    FAILF = ('featureCheck', 'unsupportedElement')
    FIXED = [(('v1', 'v2'), None), (('v1',), {'b': 'vb'}), ((), {'a': 'va', 'b': 'vb'}), (('v1',), None)]
    if base in ('bound_forelse', 'bound_mangled'):
        o = Z.FailC(log)
        f = o.m_forelse if base == 'bound_forelse' else o.m_mangled
        return Built(f, default_facts(kind='method', ent=method_ent(M, M), fail=FAILF), self_val='SELF', binds=True)
    if base == 'bound_fixed_forelse':
        o = Z.FailC(log)
        return Built(o.m_fixed, default_facts(kind='method', ent=method_ent(M, M), fail=FAILF), self_val='SELF', binds=True,
                     loggable=False, sig=FIXED)
    if base in ('classm_forelse', 'classm_inst_forelse'):
        K = Z.make_fail_class(log)
        f = K.cm_forelse if base == 'classm_forelse' else K(log).cm_forelse
        return Built(f, default_facts(kind='method', ent=method_ent(M, M), fail=FAILF), self_val='CLS', binds=True)
    if base == 'classm_fixed_whileelse':
        K = Z.make_fail_class(log)
        return Built(K.cm_fixed, default_facts(kind='method', ent=method_ent(M, M), fail=FAILF), self_val='CLS', binds=True,
                     loggable=False, sig=FIXED)
    if base in ('staticm_whileelse', 'staticm_inst_whileelse'):
        f = Z.FailC.sm_whileelse if base == 'staticm_whileelse' else Z.FailC(log).sm_whileelse
        return Built(f, default_facts(ent=ent(mod=M), fail=FAILF), log=Z.GLOG)
    if base == 'staticm_fixed_forelse':
        return Built(Z.FailC.sm_fixed, default_facts(ent=ent(mod=M), fail=FAILF), log=Z.GLOG, loggable=False, sig=FIXED)

    # ---- callable objects
    if base == 'callobj':
        o = Z.C(log, 'OBJ')
        return Built(o, default_facts(kind='callableObject', ent=ent(mod=M, call=method_ent(M, M))), self_val='OBJ', binds=True,
                     target_ents=[Z.C.__call__])
    if base == 'callobj_allowcls':    # instance of a class of an allow-listed module
        env.register_fake(param)
        K = type('AllowObj', (Z.SubOverride,), {})
        K.__module__ = param
        o = K(log, 'OBJ')
        return Built(o, default_facts(kind='callableObject', ent=ent(mod=mod_comps(param), call=method_ent(M, M))),
                     self_val='OBJ', binds=True, target_ents=[Z.SubOverride.__call__])
    if base == 'callobj_allowcall':   # user class whose __call__ is inherited from a class of an allow-listed module
        env.register_fake(param)
        Base = type('AllowBase', (Z.C,), {'__call__': Z.SubOverride.__dict__['__call__']})
        Base.__module__ = param
        Sub = type('UserSub', (Base,), {})
        Sub.__module__ = env.name
        o = Sub(log, 'OBJ')
        return Built(o, default_facts(kind='callableObject', ent=ent(mod=M, call=method_ent(M, mod_comps(param)))),
                     self_val='OBJ', binds=True, target_ents=[Z.SubOverride.__dict__['__call__']])
    if base == 'callobj_gen':
        o = Z.GenCall(log)
        return Built(o, default_facts(kind='callableObject', ent=ent(mod=M, call=method_ent(M, M, gen=True)),
                                      fail=('featureCheck', 'unsupportedElement')),
                     self_val='OBJ', binds=True, target_ents=[Z.GenCall.__call__], result_kind='iter')
    if base == 'callobj_forelse':
        o = Z.ForElseCall(log)
        return Built(o, default_facts(kind='callableObject', ent=ent(mod=M, call=method_ent(M, M)),
                                      fail=('featureCheck', 'unsupportedElement')),
                     self_val='OBJ', binds=True, target_ents=[Z.ForElseCall.__call__])
    if base == 'callobj_unhash_fail':
        o = Z.UnhashFail(log)
        return Built(o, default_facts(kind='callableObject', cacheable=False, ent=ent(mod=M, call=method_ent(M, M)),
                                      fail=('featureCheck', 'unsupportedElement')),
                     self_val='OBJ', binds=True, target_ents=[Z.ForElseCall.__call__])
    if base == 'callobj_unhash':
        o = Z.Unhash(log, 'OBJ')
        return Built(o, default_facts(kind='callableObject', cacheable=False, ent=ent(mod=M, call=method_ent(M, M))),
                     self_val='OBJ', binds=True, target_ents=[Z.C.__call__])
    if base == 'callobj_dataclass':
        o = Z.DataCallable(log)
        return Built(o, default_facts(kind='callableObject', cacheable=False, ent=ent(mod=M, call=method_ent(M, M))),
                     self_val='OBJ', binds=True, target_ents=[Z.DataCallable.__call__])
    if base == 'callobj_hash_raises':
        o = Z.HashRaises(log, 'OBJ')
        return Built(o, default_facts(kind='callableObject', cacheable=False, ent=ent(mod=M, call=method_ent(M, M))),
                     self_val='OBJ', binds=True, target_ents=[Z.C.__call__])
    if base == 'callobj_slots':
        o = Z.Slots(log)
        return Built(o, default_facts(kind='callableObject', cacheable=False, ent=ent(mod=M, call=method_ent(M, M))),
                     self_val='OBJ', binds=True, target_ents=[Z.Slots.__call__])
    if base == 'callobj_native':
        o = operator.itemgetter(1)
        return Built(o, default_facts(kind='callableObject', has_code=False, cacheable=cacheable_by_python(o),
                                      ent=ent(mod=['operator'])),
                     loggable=False, sig=[(([7, 8, 9],), None), (([7, 8],), {})], result_kind='repr')
    if base == 'method_descriptor':
        o = str.upper
        return Built(o, default_facts(kind='callableObject', has_code=False, cacheable=cacheable_by_python(o), ent=ent(mod=None)),
                     loggable=False, sig=[(('abc',), None), (('x',), {})], result_kind='repr')
    if base == 'noncallable':
        o = 3
        return Built(o, default_facts(kind='callableObject', has_code=False, cacheable=False, ent=ent(mod=None, has_call=False)),
                     loggable=False, sig=[((), None), ((1,), {})], result_kind='repr')
    if base == 'wrapt_fn':
        import wrapt

        def passthrough(wrapped, instance, args, kwargs):
            return wrapped(*args, **kwargs)
        o = wrapt.FunctionWrapper(Z.make_fn(log), passthrough)
        # a wrapt proxy forwards __class__/__code__: the stdlib sees a function with a code object
        return Built(o, default_facts(kind='function', wrapt=True, has_code=True, cacheable=cacheable_by_python(o),
                                      ent=ent(mod=M)))

    # ---- classes
    if base == 'class_user':
        return Built(Z.UserClass, default_facts(kind='callableObject', ctor=True, has_code=False, ent=class_ent(M)),
                     log=Z.GLOG, result_kind='bound_attr', loggable=False,
                     sig=[((), None), (('v1',), None), (('v1', 'v2', 'v3'), {}), (('v1',), {'k': 'vk', 'z': 'vz'})])
    if base == 'class_nt':
        return Built(Z.NT, default_facts(kind='callableObject', ctor=True, has_code=False, ent=class_ent(M, nt=True)),
                     loggable=False, sig=[((1, 2), None), ((1,), {'y': 3}), ((), {'x': 1, 'y': 2})], result_kind='repr')
    if base == 'class_nt_sub':
        return Built(Z.NTS, default_facts(kind='callableObject', ctor=True, has_code=False, ent=class_ent(M, nt=True, nt_base=True)),
                     loggable=False, sig=[((1, 2), None), ((1,), {'y': 3})], result_kind='repr')
    if base == 'class_meta':
        return Built(Z.WithMeta, default_facts(kind='callableObject', ent=class_ent(M)), self_val='CLS', binds=True,
                     log=Z.GLOG, target_ents=[Z.Meta.__call__], result_kind='bound_attr')
    if base == 'class_stdlib':
        return Built(collections.OrderedDict, default_facts(kind='callableObject', ctor=True, known=True, has_code=False,
                                                             ent=class_ent(['collections'])),
                     loggable=False, sig=[((), None), (([('a', 1)],), {}), ((), {'b': 2})], result_kind='repr')

    # ---- members of the loaded stdlib modules named by is_unsupported
    if base == 'known_member':
        table = {
            're.match': (re.match, ['re'], [(('a+', 'aab'), None), (('b', 'aab'), {'flags': 0})], 'match'),
            'copy.deepcopy': (copy.deepcopy, ['copy'], [(([1, [2]],), None), (({'a': [1]},), {})], 'repr'),
            'collections.namedtuple': (collections.namedtuple, ['collections'], [(('P', ['u', 'v']), None), (('P', 'u v'), {'rename': False})], 'ntclass'),
            'inspect.isfunction': (inspect.isfunction, ['inspect'], [((len,), None), ((build,), {})], 'repr'),
        }
        f, m, sig, rk = table[param]
        return Built(f, default_facts(known=True, ent=ent(mod=m)), loggable=False, sig=sig, result_kind=rk)
    if base == 'numpy_fn':
        import numpy
        return Built(numpy.sum, default_facts(ent=ent(mod=['numpy']), cacheable=cacheable_by_python(numpy.sum),
                                              kind='function' if inspect.isfunction(numpy.sum) else 'callableObject',
                                              has_code=hasattr(numpy.sum, '__code__')),
                     loggable=False, sig=[(([1, 2, 3],), None), (([[1, 2], [3, 4]],), {'axis': 0})], result_kind='repr')

    # ---- builtins
    if base == 'builtin':
        cl = lambda items: CountLen(log, items)  # noqa: E731
        table = {
            # overloaded (members of py_builtins.SUPPORTED_BUILTINS)
            'abs': (abs, 'overloaded', [((-3,), None), ((cl([]),), {})]),
            'len': (len, 'overloaded', [((cl([1, 2]),), None), (([1, 2, 3],), {})]),
            'int': (int, 'overloaded', [(('11',), {'base': 2}), ((cl([]),), None), ((), None)]),
            'float': (float, 'overloaded', [(('1.5',), None), ((cl([]),), {}), ((), None)]),
            'print': (print, 'overloaded', [(('x', cl([])), {'sep': '-', 'end': '!\n'}), (('y',), None), ((), {})]),
            'range': (range, 'overloaded', [((3,), None), ((1, 7, 2), {})]),
            'enumerate': (enumerate, 'overloaded', [((cl(['a', 'b']),), None), ((['a', 'b'], 3), {})]),
            'zip': (zip, 'overloaded', [(([1, 2], cl(['a', 'b'])), None), ((), {})]),
            'map': (map, 'overloaded', [((str, cl([1, 2])), None)]),
            'filter': (filter, 'overloaded', [((None, cl([0, 1, 2])), {})]),
            'any': (any, 'overloaded', [((cl([0, 1]),), None)]),
            'all': (all, 'overloaded', [((cl([0, 1]),), {})]),
            'sorted': (sorted, 'overloaded', [((cl([3, 1, 2]),), None), (([3, 1, 2],), {'reverse': True}), ((['b', 'A'],), {'key': str.lower})]),
            # other builtins / C functions / builtin classes / bound builtin methods
            'min': (min, 'plain', [((3, 1, 2), None), (([],), {'default': 9})]),
            'max': (max, 'plain', [(([1, 5],), {'key': abs})]),
            'sum': (sum, 'plain', [((cl([1, 2]),), None), (([1, 2], 10), {})]),
            'repr': (repr, 'plain', [(('x',), None)]),
            'isinstance': (isinstance, 'plain', [((1, int), {})]),
            'next': (next, 'plain', [((iter([1]),), None), ((iter([]), 'd'), {})]),
            'getattr': (getattr, 'plain', [((3, 'real'), None), ((3, 'nope', 'dflt'), {})]),
            'dict': (dict, 'plain', [((), {'a': 1}), (([('b', 2)],), None)]),
            'list': (list, 'plain', [((cl([1, 2]),), None), ((), {})]),
            'ValueError': (ValueError, 'plain', [(('msg',), None)]),
            'math.floor': (math.floor, 'plain', [((2.5,), None), ((-2.5,), {})]),
            'operator.add': (operator.add, 'plain', [((1, 2), None)]),
            'list.append': (None, 'plain', [(('v1',), None), (('v2',), {})]),
            'str.upper_bound': ('abc'.upper, 'plain', [((), None), ((), {})]),
            # native callables that merely SHARE THE NAME of an overloaded builtin (they are not that builtin)
            'operator.abs': (operator.abs, 'plain', [((-3,), None), ((cl([]),), {})]),
            'decimal.ctx.abs': (decimal.Context(prec=2).abs, 'plain', [((decimal.Decimal('-1.2345'),), None), ((decimal.Decimal('7.777'),), {})]),
        }
        if param.startswith('numpy.'):
            import numpy
            arr = numpy.array([[0, 1], [2, 3]])
            table.update({
                'numpy.any': (arr.any, 'plain', [((), None), ((), {'axis': 0}), ((1,), {})]),
                'numpy.all': (arr.all, 'plain', [((), None), ((), {'axis': 1})]),
                'numpy.sum_m': (arr.sum, 'plain', [((), None), ((0,), {})]),
                'numpy.max_m': (arr.max, 'plain', [((), {}), ((), {'axis': 0})]),
            })
        f, bk, sig = table[param]
        extra = {}
        if param == 'list.append':
            target_list = ['init']
            f = target_list.append
            extra['effect_obj'] = target_list
        b = Built(f, default_facts(builtin=bk, kind='callableObject', has_code=False, ent=OPAQUE,
                                   cacheable=cacheable_by_python(f)),
                  loggable=False, sig=sig, result_kind='iterish')
        b.extra = extra
        return b
    raise KeyError(name)


def rule_test_modules(rule_prefixes):
    """module names that exercise the rule table: exact, dotted child, non-dotted extension, first-match conflicts"""
    out = []
    for p in rule_prefixes:
        out += [p + '.c13x', p + 'c13x', p + '.c13x.deep']
    return out


BASES_STATIC = [
    'fn', 'gfn', 'raiser', 'lambda', 'fn_unloadedmod', 'genfn', 'forelse', 'nested_gen', 'nested_yield_from', 'whileelse',
    'nested_forelse', 'mangled', 'except_as', 'nested_async', 'nosource', 'execfn', 'decorated', 'lru', 'dnc',
    'tograph', 'convertwrapped', 'fn_selfattr', 'tfplugin',
    'partialmethod', 'posonly', 'staticmethod_obj',
    'fn_artifact', 'traced_copy', 'traced_user', 'mix_tc', 'mix_plain', 'bound_falsy_bool', 'bound_falsy_len', 'bound_emptylist', 'classm_falsy', 'classm_falsy_inst', 'callobj_falsy',
    'bound', 'unbound', 'classm', 'classm_inst', 'staticm', 'bound_gen', 'bound_testcase', 'nt_sub_method', 'nt_inherited',
    'bound_allowcls:malt.c13fake', 'bound_sub_inherit:malt.c13fake', 'bound_sub_override:malt.c13fake',
    'callobj', 'callobj_allowcls:malt.c13fake', 'callobj_allowcall:malt.c13fake', 'callobj_gen', 'callobj_forelse',
    'callobj_unhash_fail', 'callobj_unhash', 'callobj_dataclass', 'callobj_hash_raises', 'callobj_slots', 'callobj_native', 'method_descriptor', 'noncallable', 'wrapt_fn',
    'class_user', 'class_nt', 'class_nt_sub', 'class_meta', 'class_stdlib',
    'known_member:re.match', 'known_member:copy.deepcopy', 'known_member:collections.namedtuple', 'known_member:inspect.isfunction',
    'numpy_fn',
] + ['builtin:' + b for b in [
    'abs', 'len', 'int', 'float', 'print', 'range', 'enumerate', 'zip', 'map', 'filter', 'any', 'all', 'sorted',
    'min', 'max', 'sum', 'repr', 'isinstance', 'next', 'getattr', 'dict', 'list', 'ValueError', 'math.floor', 'operator.add',
    'list.append', 'str.upper_bound', 'operator.abs', 'decimal.ctx.abs', 'numpy.any', 'numpy.all', 'numpy.sum_m', 'numpy.max_m']]


def desc_sexp(facts, in_cache=False, fail_override='keep'):
    """facts dict -> the model's (desc …) S-expression (as nested Python lists)."""
    fail = facts['fail'] if fail_override == 'keep' else fail_override
    return ['desc', in_cache, facts['cacheable'], facts['artifact'], facts['builtin'], facts['wrapt'], facts['lru'],
            facts['ctor'], facts['known'], facts['tf'], facts['ent'], facts['kind'], facts['has_code'], facts['string_file'],
            'none' if fail is None else [fail[0], fail[1]]]


PARTIAL_FACTS = default_facts(kind='callableObject', has_code=False, ent=ent(mod=['functools']))
