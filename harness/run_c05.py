"""C05 — the control-flow graph contains every control path that can execute.

Obligations
  theorems        lean/MaltModel/Props/C05.lean (audited: axioms, forbidden constructs)
  correspondence  graphs: `cfg.build` of the REAL code == the Lean model `Cfg.build`, field by field (nodes in index
                  order, entry, exits, errors, edges, stmt_prev, stmt_next, dead-code roots), for every function of
                  /repo and every skeleton of the bounded space;
                  walk: the Lean control-skeleton semantics `walkFn` == CPython executing the instrumented copy, on the
                  same decision vectors
  checkers        verified Lean checkers run on the REAL graphs: `wellFormed` (C05_wellformed_checker) and
                  `pathCheck` (C05_paths_checker: accepts only graphs in which EVERY walk of the function is a path)
  direct oracle   (needs no Lean) instrumented copy executed by CPython for all/many decision vectors: the probe trace
                  must start at the entry, follow edges of the REAL graph, and a completed run must end in an
                  exit/error node; next/prev mirror on the real Node objects
"""
import ast, json, multiprocessing, os, subprocess, sys, time

import common
from common import sexp
import pyast, progen
import c05_real, c05_gen, c05_instr

MODEL_FILES = ['MaltModel/Py/Trace.lean', 'MaltModel/Cfg/Builder.lean', 'MaltModel/Cfg/AstToCfg.lean',
               'MaltModel/Cfg/Check.lean', 'MaltModel/Proofs/C05Proj.lean', 'MaltModel/Proofs/C05Check.lean',
               'MaltModel/Proofs/C05Frame.lean', 'MaltModel/Proofs/C05FrameX.lean', 'MaltModel/Proofs/C05Paths3.lean', 'MaltModel/Proofs/C05Paths3Exit.lean', 'MaltModel/Proofs/C05Paths3B.lean', 'MaltModel/Proofs/C05Paths3T.lean', 'MaltModel/Proofs/C05Paths3C.lean', 'MaltModel/Proofs/C05Wf.lean', 'MaltModel/Proofs/C05Owners.lean',
               'MaltModel/Drv/C05.lean']

CLS_JUMP = 'jump_in_handler_of_try_with_finally'

TIERS = {
    # exhaustive sub-space, sampled space, cap on the sampled space, decision-vector bounds
    'quick': dict(exh=(4, 3, False), big=(5, 3, True), cap=80000, dec_len=7, dec_runs=48, progen_skel=150, progen_rand=60),
    'thorough': dict(exh=(5, 3, False), big=(7, 4, True), cap=900000, dec_len=9, dec_runs=96, progen_skel=1500, progen_rand=600),
}


# ------------------------------------------------------------------------------------------------
# one program: everything that can be said about it without Lean, plus the driver requests
# ------------------------------------------------------------------------------------------------
class Case:
    def __init__(self, key, source, fn=None):
        self.key, self.source = key, source
        if fn is None:
            fn = ast.parse(source).body[0]
        self.fn = fn
        self.ser = pyast.Ser(fn)
        self.text = self.ser.text()
        self.real = c05_real.RealGraphs(fn, self.ser)
        self.runs = []            # (decisions, trace, outcome, consumed by the walk, decisions of the walk)
        self.runs_exhausted = None
        self.instr_src = None

    def execute(self, dec_len, dec_runs):
        self.instr_src = c05_instr.instrument(self.fn, self.ser)
        f = c05_instr.compile_instr(self.instr_src)
        self.runs, self.runs_exhausted = c05_instr.decision_vectors(f, dec_len, dec_runs)
        # every nested function / method whose graph the same cfg.build call returned is executed too (its own copy)
        self.sub_runs = {}
        for node in ast.walk(self.fn):
            if type(node) is ast.FunctionDef and node is not self.fn:
                sid = self.ser.id_of(node)
                if sid in self.real.graphs:
                    try:
                        sf = c05_instr.compile_instr(c05_instr.instrument(node, self.ser))
                    except c05_instr.Unsupported:
                        continue
                    self.sub_runs[sid] = c05_instr.decision_vectors(sf, dec_len, min(dec_runs, 12))[0]

    def subgraph_failures(self):
        """every graph of the returned dict belongs to its own function: the entry is the function's first node (its
        arguments, after the lambdas in their defaults) and the index holds only nodes of that function's own subtree"""
        bad = []
        for fid, g in sorted(self.real.graphs.items()):
            node = self.ser.nodes.get(fid)
            if node is None or not hasattr(node, 'args'):
                continue
            own = {self.ser.id_of(n) for n in ast.walk(node)}
            first = (c05_instr.kid_lams(node.args, self.ser) + [self.ser.id_of(node.args)])[0]
            if g['entry'] != first:
                bad.append('graph of %s: entry is %s, not the first node of the function %s' % (self.label(fid), self.label(g['entry']), self.label(first)))
            foreign = [i for i in g['nodes'] if i not in own]
            if foreign:
                bad.append('graph of %s: its index contains nodes outside the function: %s' % (self.label(fid), [self.label(i) for i in foreign[:4]]))
        return bad

    def path_failures(self):
        """direct oracle: every probe trace is a path entry -> exit/error of the REAL graph (the function's own graph, and
        for every nested function the graph the same cfg.build call returned for it)"""
        g = self.real.graphs.get(self.ser.id_of(self.fn))
        if g is None:
            return [('no graph for the function', None)]
        bad = [(w, d, None) for w, d in self._trace_failures(g, self.runs, '')]
        for sid, runs in sorted(getattr(self, 'sub_runs', {}).items()):
            # the class of such a failure is judged on the nested function taken as a root
            bad += [(w, None, ast.unparse(self.ser.nodes[sid]))
                    for w, _ in self._trace_failures(self.real.graphs[sid], runs, 'nested function %s: ' % self.label(sid))[:2]]
        return bad

    def _trace_failures(self, g, runs, prefix):
        edges = {tuple(e) for e in g['edges']}
        final = set(g['exits']) | set(g['errors'])
        nodes = set(g['nodes'])
        bad = []
        for dec, trace, outcome, consumed, _wdec in runs:
            why = None
            if not trace or trace[0] != g['entry']:
                why = 'trace does not start at the entry node'
            else:
                for a, b in zip(trace, trace[1:]):
                    if (a, b) not in edges:
                        why = 'executed %s then %s: not an edge of the graph' % (self.label(a), self.label(b))
                        break
                if why is None and trace[-1] not in final:
                    why = 'run ended at %s which is neither an exit nor an error node' % self.label(trace[-1])
                if why is None and not set(trace) <= nodes:
                    why = 'executed node missing from the graph index'
            if why:
                bad.append((prefix + why + (' (decisions %s)' % dec if prefix else ''), dec))
        return bad

    def label(self, i):
        n = self.ser.nodes.get(i)
        if n is None:
            return '#%s' % i
        try:
            s = ast.unparse(n.context_expr if isinstance(n, ast.withitem) else n)
        except Exception:
            s = type(n).__name__
        return '#%d `%s`' % (i, s.split('\n')[0][:40])


def _drive(lines):
    p = subprocess.run([common.driver_path('C05')], input='\n'.join(lines) + '\n', text=True,
                       stdout=subprocess.PIPE, stderr=subprocess.PIPE)
    if p.returncode != 0:
        raise common.InfraError('drv_c05 exited %d: %s' % (p.returncode, p.stderr[-400:]))
    out = p.stdout.split('\n')
    if out and out[-1] == '':
        out.pop()
    if len(out) != len(lines):
        raise common.InfraError('drv_c05 answered %d lines for %d requests' % (len(out), len(lines)))
    return out


def new_stats():
    return dict(programs=0, graphs=0, graph_equal=0, both_error=0, error_kinds={}, skipped_other=0,
                runs=0, run_outcomes={}, runs_exhaustive=0, walk_equal=0, wf_ok=0, pc_ok=0, pc_rejected_expected=0,
                nodes=0, edges=0, max_nodes=0, features={}, mirror_checked=0, nontrivial=0, owners_equal=0,
                hyp={'supported': 0, 'parsed_shape': 0, 'distinct_keys3': 0, 'no_jump_in_handler_of_try_with_finally': 0,
                     'fnFrag3': 0, 'in_scope_of_C05_paths': 0, 'of_which_with_a_finally_block': 0,
                     'covered_by_checker_only': 0, 'of_which_in_the_known_finding_class': 0,
                     'of_which_real_builder_fails_an_assert': 0},
                fails=[], broken={})


def merge_stats(a, b):
    for k, v in b.items():
        if isinstance(v, dict):
            d = a.setdefault(k, {})
            for kk, vv in v.items():
                if isinstance(vv, list):
                    d.setdefault(kk, [])
                    d[kk] = (d[kk] + vv)[:5]
                else:
                    d[kk] = d.get(kk, 0) + vv
        elif isinstance(v, list):
            a[k] = a.get(k, []) + v
        elif k == 'max_nodes':
            a[k] = max(a.get(k, 0), v)
        else:
            a[k] = a.get(k, 0) + v
    return a


def broken(st, name, detail):
    st['broken'].setdefault(name, [])
    if len(st['broken'][name]) < 5:
        st['broken'][name].append(detail)


def process(cases, driver_ok, execute, dec_len=0, dec_runs=0):
    """All obligations for a list of Case objects; returns a stats dict (picklable)."""
    st = new_stats()
    lines, plan = [], []
    for c in cases:
        st['programs'] += 1
        fid = c.ser.id_of(c.fn)
        for k in c.ser.kinds:
            st['features'][k] = st['features'].get(k, 0) + 1
        if c05_real.has_other(c.ser):
            st['skipped_other'] += 1
            continue
        if c.real.error:
            kind = c.real.error.split(':')[0]
            st['error_kinds'][kind] = st['error_kinds'].get(kind, 0) + 1
        else:
            st['mirror_checked'] += len(c.real.graphs)
            if not c.real.mirror_ok:
                st['fails'].append({'what': 'successor and predecessor links of the real nodes do not mirror each other: ' + c.real.mirror_detail,
                                    'case': {'source': c.source, 'key': c.key}, 'pred': None})
            for why in c05_real.stmt_edge_failures(c.real)[:2]:
                st['fails'].append({'what': 'statement-level edges disagree with the node graph: ' + why,
                                    'case': {'source': c.source, 'key': c.key}, 'pred': None})
            for why in c.subgraph_failures()[:2]:
                st['fails'].append({'what': why, 'case': {'source': c.source, 'key': c.key}, 'pred': None})
            if c.real.unknown_nodes:
                broken(st, 'correspondence:c05.graph', '%s: graph node outside the serialised AST' % c.key)
            g = c.real.graphs.get(fid)
            if g:
                st['graphs'] += len(c.real.graphs)
                st['nodes'] += len(g['nodes']); st['edges'] += len(g['edges'])
                st['max_nodes'] = max(st['max_nodes'], len(g['nodes']))
                if len(g['nodes']) > 2:
                    st['nontrivial'] += 1
            if execute and g:
                try:
                    c.execute(dec_len, dec_runs)
                except c05_instr.Unsupported:
                    c.runs = []
                st['runs'] += len(c.runs)
                if c.runs_exhausted:
                    st['runs_exhaustive'] += 1
                for _, _, o, _, _ in c.runs:
                    st['run_outcomes'][o] = st['run_outcomes'].get(o, 0) + 1
                for why, dec, sub in c.path_failures():
                    st['fails'].append({'what': why, 'case': {'source': c.source, 'key': c.key, 'decisions': dec},
                                        'pred': 'path', 'cls_source': sub})
        if driver_ok:
            lines.append('c05.graph ' + c.text); plan.append(('graph', c))
            lines.append('c05.hyp ' + c.text); plan.append(('hyp', c))
            if not c.real.error and fid in c.real.owners:
                lines.append('c05.owners ' + c.text); plan.append(('owners', c))
            if not c.real.error:
                for gid, g in sorted(c.real.graphs.items()):
                    lines.append('c05.wf ' + sexp(c05_real.graph_sexp(gid, g))); plan.append(('wf', c))
                g = c.real.graphs.get(fid)
                if g:
                    lines.append('c05.pathcheck %s %s' % (c.text, sexp(c05_real.graph_sexp(fid, g)))); plan.append(('pc', c))
                if c.runs:
                    lines.append('c05.walk %s %s' % (c.text, sexp([list(r[4]) for r in c.runs]))); plan.append(('walk', c))
    if driver_ok and lines:
        answers = _drive(lines)
        need_class = []
        for (what, c), ans in zip(plan, answers):
            if ans in ('bad-node', 'bad-args', 'bad-op', 'bad-line'):
                broken(st, 'correspondence:c05.' + what, '%s: driver answered %s' % (c.key, ans))
                continue
            if what == 'graph':
                merr, mg = c05_real.parse_model_graphs(ans)
                if c.real.error or merr:
                    if bool(c.real.error) != bool(merr):
                        broken(st, 'correspondence:c05.graph', json.dumps({'key': c.key, 'source': c.source, 'real_error': c.real.error, 'model_error': merr}))
                    else:
                        st['both_error'] += 1
                    continue
                d = c05_real.diff_graphs(c.real.graphs, mg)
                if d:
                    broken(st, 'correspondence:c05.graph', json.dumps({'key': c.key, 'source': c.source, 'diff': d}))
                else:
                    st['graph_equal'] += len(mg)
            elif what == 'hyp':
                sup, frag3, dist, nojump, distown, shape, frag2 = [v == 'True' for v in common.parse_sexp(ans)]
                c.hyp_owner = sup and distown
                h = st['hyp']
                h['supported'] += sup; h['parsed_shape'] += shape; h['distinct_keys3'] += dist; h['fnFrag3'] += frag3
                h['no_jump_in_handler_of_try_with_finally'] += nojump
                # programs under the proved theorem C05_paths (all its hypotheses hold and the graph exists) vs the rest
                if sup and shape and dist and nojump and not c.real.error:
                    h['in_scope_of_C05_paths'] += 1
                    h['of_which_with_a_finally_block'] += (not frag2)
                elif sup:
                    h['covered_by_checker_only'] += 1
                    h['of_which_in_the_known_finding_class'] += (not nojump)
                    h['of_which_real_builder_fails_an_assert'] += bool(c.real.error)
                # the key-distinctness hypothesis holds of every serialised program (ids are distinct AST nodes)
                if not dist:
                    broken(st, 'hypothesis:fnDistinctKeys3', json.dumps({'key': c.key, 'source': c.source}))
                # the shape conditions hold of every parsed program of the walk's language
                if sup and not shape:
                    broken(st, 'hypothesis:fnParsedShape', json.dumps({'key': c.key, 'source': c.source}))
                # fnFrag3 is exactly: supported, parsed shape, outside the class of the known finding
                if frag3 != (sup and shape and nojump):
                    broken(st, 'hypothesis:fnFrag3', json.dumps({'key': c.key, 'source': c.source, 'frag3': frag3,
                           'supported': sup, 'shape': shape, 'nojump': nojump}))
            elif what == 'owners':
                # lexical containment (the Lean specification `fnOwnSpec`) == the real builder's `owners`, node by node
                if getattr(c, 'hyp_owner', False):
                    spec = [[int(v) for v in row] for row in common.parse_sexp(ans)]
                    if spec == c.real.owners[c.ser.id_of(c.fn)]:
                        st['owners_equal'] = st.get('owners_equal', 0) + 1
                    else:
                        broken(st, 'correspondence:c05.owners', json.dumps({'key': c.key, 'source': c.source,
                               'real': c.real.owners[c.ser.id_of(c.fn)][:12], 'spec': spec[:12]}))
            elif what == 'wf':
                if ans == 'True':
                    st['wf_ok'] += 1
                else:
                    broken(st, 'checker:wellFormed', json.dumps({'key': c.key, 'source': c.source, 'answer': ans}))
                    st['fails'].append({'what': 'the real graph is not well-formed: ' + ans,
                                        'case': {'source': c.source, 'key': c.key}, 'pred': None})
            elif what == 'pc':
                if ans == 'True':
                    st['pc_ok'] += 1
                else:
                    need_class.append((c, ans))
            elif what == 'walk':
                got = common.parse_sexp(ans)
                for (dec, trace, outcome, consumed, wdec), m in zip(c.runs, got):
                    mtrace = [int(x) for x in m[0]]
                    mout = {'normal': 'completed', 'return': 'completed'}.get(m[1], m[1])
                    if mtrace == trace and mout == outcome and int(m[2]) == consumed:
                        st['walk_equal'] += 1
                    else:
                        broken(st, 'correspondence:c05.walk', json.dumps({'key': c.key, 'source': c.source, 'decisions': dec, 'walk_decisions': wdec,
                               'cpython': [trace, outcome, consumed], 'model': [mtrace, m[1], int(m[2])]}))
        # a graph rejected by the verified path checker: acceptable only in a known class
        if need_class:
            cls = _drive(['c05.class ' + c.text for c, _ in need_class])
            for (c, ans), k in zip(need_class, cls):
                if k == CLS_JUMP:
                    st['pc_rejected_expected'] += 1
                else:
                    broken(st, 'checker:pathCheck', json.dumps({'key': c.key, 'source': c.source, 'answer': ans, 'class': k}))
    # class of every failing case, computed by the Lean driver from the program alone
    if st['fails'] and driver_ok:
        todo = [f for f in st['fails'] if f['pred'] == 'path']
        if todo:
            srcs = [f.pop('cls_source', None) or f['case']['source'] for f in todo]
            texts = [pyast.Ser(ast.parse(s).body[0]).text() for s in srcs]
            for f, k in zip(todo, _drive(['c05.class ' + t for t in texts])):
                f['cls'] = k if k != 'none' else None
    return st


def _skeleton_worker(args):
    (n, d, rich), idxs, driver_ok, dec_len, dec_runs = args
    sys.path.insert(0, common.REPO)
    sp = c05_gen.Space(n, d, rich)
    st_all = new_stats()
    CH = 400
    for s in range(0, len(idxs), CH):
        cases = []
        for i in idxs[s:s + CH]:
            body = sp.unrank(i)
            cases.append(Case('skel-%d-%d-%d-%d' % (n, d, int(rich), i), c05_gen.render(body)))
        st = process(cases, driver_ok, True, dec_len, dec_runs)
        st['fails'] = st['fails'][:40]
        merge_stats(st_all, st)
        st_all['fails'] = st_all['fails'][:80]
    return st_all


def _family_worker(args):
    idxs, driver_ok, dec_len, dec_runs = args[:4]
    which = args[4] if len(args) > 4 else 'nested-try'
    sys.path.insert(0, common.REPO)
    fam = {'nested-try': c05_gen.nested_try_family, 'raise-handler': c05_gen.raise_handler_family, 'leaf-kind': c05_gen.leaf_kind_family,
           'local-class': c05_gen.local_class_family}[which]()
    cases = [Case('%s-%d' % (which, i), c05_gen.render(fam[i])) for i in idxs]
    st = process(cases, driver_ok, True, dec_len, dec_runs)
    st['fails'] = st['fails'][:40]
    return st


def _repo_worker(args):
    paths_idx, driver_ok = args
    sys.path.insert(0, common.REPO)
    fns = list(progen.repo_functions())
    cases = []
    for i in paths_idx:
        rf = fns[i]
        cases.append(Case('repo:%s:%s' % (rf.path, rf.qualname), ast.unparse(rf.node), fn=rf.node))
    return process(cases, driver_ok, False)


def _progen_worker(args):
    """Programs of the shared generators (harness/progen.py): their function `f` as one more syntactic + executable corpus."""
    kind, seed, n, driver_ok, dec_len, dec_runs = args
    import random
    sys.path.insert(0, common.REPO)
    rng = random.Random(seed)
    if kind == 'skeleton':
        progs = progen.skeleton_programs(5, 3, cap=n, rng=rng, rich=True)
    else:
        progs = progen.random_programs(rng, n, size=14)
    cases = []
    for p in progs:
        try:
            tree = ast.parse(p.source)
        except SyntaxError:
            continue
        for node in tree.body:
            if isinstance(node, ast.FunctionDef) and node.name == p.fname:
                cases.append(Case('progen:%s:%s' % (kind, p.key), ast.unparse(node)))
    st = process(cases, driver_ok, True, dec_len, dec_runs)
    st['fails'] = st['fails'][:40]
    return st


def _pool():
    n = min(16, os.cpu_count() or 4)
    return multiprocessing.get_context('fork').Pool(n)


def run_space(run, pool, params, idxs, cfg):
    idxs = list(idxs)
    nw = 16 * 4
    chunks = [idxs[k::nw] for k in range(nw)]
    res = pool.map(_skeleton_worker, [(params, ch, run.driver_ok, cfg['dec_len'], cfg['dec_runs']) for ch in chunks if ch])
    st = new_stats()
    for r in res:
        merge_stats(st, r)
    return st


def absorb(run, st, label):
    run.evaluations += st['programs'] + st['runs']
    for i in range(st['nontrivial']):
        run.nontrivial.add((label, i))
    for f in st['fails']:
        run.fail(f['what'], f['case'], f.get('cls'))
    return st


def check(run):
    cfg = TIERS[run.tier]
    run.rule = ('programs: every FunctionDef of /repo (graphs only) + control skeletons enumerated in canonical order '
                '(all nestings of if/while/for(+else)/with/try-except-else-finally/break/continue/return/raise/nested def, '
                'rich mode adds lambdas/class/return-lambda leaves; jumps only where legal; dead code included) up to a '
                '[plus the targeted exhaustive families c05_gen.nested_try_family (try statements nested inside finally/handler/else parts of another try) c05_gen.local_class_family (local classes with methods / control flow / nested classes followed by nested defs and lambdas; every sub-graph of the returned dict is checked), c05_gen.leaf_kind_family (every simple-statement kind in every statement position of the small skeletons) and c05_gen.raise_handler_family (nested trys with bare/Exception/BaseException/class/tuple handlers and raises of ordinary and BaseException-only classes)] '
                'statement and depth bound, exhaustive below the bound, stride-sampled (seed-derived offset) above the cap; '
                'per program the decision tree of the instrumented copy is enumerated depth-first up to a length/run bound. '
                'A case is a (program) or (program, decision vector); non-trivial = the function graph has more than 2 nodes')
    run.assumptions += [
        'Py.Trace.walk is a hand-written description of CPython control flow on the modelled statements (validated on every run '
        'against CPython executing the instrumented copy; not proved)',
        'lambda/def/class definitions are atomic nodes executed just before the statement that contains them; class bodies have no graph',
        'context managers do not swallow exceptions; exceptions propagating through finally blocks and implicit exceptions are exempt (property text)',
        'functions using match / try* / type aliases (serialised as OtherStmt) and async constructs are outside the modelled language: counted, graph-compared where the model mirrors generic_visit, not walked',
        'programs on which the real cfg.build itself raises (`except E as name`, DESIGN §8) are set aside and counted (both_error)',
    ]
    run.build_and_audit('MaltModel.Props.C05', model_files=MODEL_FILES)
    t0 = time.time()
    total = new_stats()
    # ---- every statement kind has its visitor: the `visit_*` methods the real AstToCfg class has == those the model mirrors
    if run.driver_ok:
        sys.path.insert(0, common.REPO)
        from malt.pyct import cfg as real_cfg
        real_vis = {n[len('visit_'):] for n in vars(real_cfg.AstToCfg) if n.startswith('visit_')} - {'Print'}   # ast.Print: Python 2 only
        model_vis = set(common.parse_sexp(_drive(['c05.visitors x'])[0]))
        run.oblige('C05_visitors_cover_statements', 'correspondence', real_vis == model_vis,
                   'visit_* methods of the real AstToCfg but not mirrored by the model: %s; mirrored by the model but missing from '
                   'the real class (the statement kind falls back to generic_visit and gets no CFG node): %s'
                   % (sorted(real_vis - model_vis), sorted(model_vis - real_vis)))
        run.cov['visitors'] = sorted(real_vis)
    with _pool() as pool:
        # ---- corpus of past failures / witnesses, replayed first
        cdir = os.path.join(common.VERIF, 'corpus', 'C05')
        corpus = []
        if os.path.isdir(cdir):
            for fn in sorted(os.listdir(cdir)):
                if fn.endswith('.json'):
                    with open(os.path.join(cdir, fn)) as f:
                        corpus.append((fn, json.load(f)))
        known = [k for k in common.load_known_findings() if k.get('property') == 'C05']
        for k in known:
            # the witness of an open finding must still fail; the witness of a fixed one is a must-pass case
            corpus.append(('known:' + k['id'], {'source': k['witness']['source'], 'expect_fail': k.get('status', 'open') == 'open'}))
        ccases = [Case('corpus:' + n, j['source']) for n, j in corpus]
        st = process(ccases, run.driver_ok, True, cfg['dec_len'] + 2, 400)
        witness_fails = {c.key for c in ccases for f in st['fails'] if f['case']['key'] == c.key}
        for (n, j), c in zip(corpus, ccases):
            if j.get('expect_fail'):
                run.oblige('known-finding-witness-still-fails:' + n, 'witness', c.key in witness_fails,
                           'the listed witness no longer fails on the real code: the finding must be removed and the hypothesis dropped')
            else:
                run.oblige('corpus-case-is-built:' + n, 'witness', not c.real.error,
                           'cfg.build raises on a must-pass corpus case: %s' % c.real.error)
        absorb(run, st, 'corpus'); merge_stats(total, dict(st, fails=[]))
        run.cov['corpus_cases'] = len(ccases)

        # ---- all functions of /repo: graph correspondence + checkers on the real graphs
        nfn = sum(1 for _ in progen.repo_functions())
        parts = [list(range(k, nfn, 32)) for k in range(32)]
        st = new_stats()
        for r in pool.map(_repo_worker, [(p, run.driver_ok) for p in parts if p]):
            merge_stats(st, r)
        absorb(run, st, 'repo'); repo_st = st
        run.cov['repo_functions'] = {k: st[k] for k in ('programs', 'graphs', 'graph_equal', 'both_error', 'error_kinds',
                                                         'skipped_other', 'wf_ok', 'pc_ok', 'pc_rejected_expected', 'max_nodes')}
        merge_stats(total, dict(st, fails=[]))

        # ---- programs of the shared generators (progen): skeletons (stride-sampled there) and typed random programs
        st = new_stats()
        jobs = [('skeleton', run.seed * 100 + k, cfg['progen_skel'], run.driver_ok, cfg['dec_len'], cfg['dec_runs']) for k in range(16)] + \
               [('random', run.seed * 100 + 50 + k, cfg['progen_rand'], run.driver_ok, cfg['dec_len'], cfg['dec_runs']) for k in range(16)]
        for r in pool.map(_progen_worker, jobs):
            merge_stats(st, r)
        absorb(run, st, 'progen')
        run.cov['progen_programs'] = {k: st[k] for k in ('programs', 'graphs', 'graph_equal', 'both_error', 'runs', 'walk_equal', 'pc_ok',
                                                          'pc_rejected_expected', 'max_nodes')}
        merge_stats(total, dict(st, fails=[]))

        # ---- targeted exhaustive family: try statements nested inside finally blocks / handlers / else blocks
        nfam = len(c05_gen.nested_try_family())
        st = new_stats()
        for r in pool.map(_family_worker, [(list(range(k, nfam, 32)), run.driver_ok, cfg['dec_len'] + 1, 2 * cfg['dec_runs']) for k in range(32)]):
            merge_stats(st, r)
        absorb(run, st, 'nested-try')
        run.cov['nested_try_family'] = dict({k: st[k] for k in ('programs', 'graphs', 'graph_equal', 'both_error', 'runs', 'walk_equal',
                                                                'pc_ok', 'pc_rejected_expected', 'runs_exhaustive')}, size=nfam, exhaustive=True)
        merge_stats(total, dict(st, fails=[]))

        # ---- targeted exhaustive family: which handler of which enclosing try an explicit raise reaches (handler types)
        nfam = len(c05_gen.raise_handler_family())
        st = new_stats()
        for r in pool.map(_family_worker, [(list(range(k, nfam, 32)), run.driver_ok, cfg['dec_len'] + 1, 2 * cfg['dec_runs'], 'raise-handler') for k in range(32)]):
            merge_stats(st, r)
        absorb(run, st, 'raise-handler')
        run.cov['raise_handler_family'] = dict({k: st[k] for k in ('programs', 'graphs', 'graph_equal', 'both_error', 'runs', 'walk_equal',
                                                                   'pc_ok', 'pc_rejected_expected', 'runs_exhaustive', 'run_outcomes')}, size=nfam, exhaustive=True)
        merge_stats(total, dict(st, fails=[]))

        # ---- targeted exhaustive family: local classes followed by nested defs / lambdas (several builders live in one cfg.build call)
        nfam = len(c05_gen.local_class_family())
        st = new_stats()
        for r in pool.map(_family_worker, [(list(range(k, nfam, 32)), run.driver_ok, cfg['dec_len'], cfg['dec_runs'], 'local-class') for k in range(32)]):
            merge_stats(st, r)
        absorb(run, st, 'local-class')
        run.cov['local_class_family'] = dict({k: st[k] for k in ('programs', 'graphs', 'graph_equal', 'both_error', 'runs', 'walk_equal',
                                                                 'wf_ok', 'pc_ok', 'runs_exhaustive')}, size=nfam, exhaustive=True)
        merge_stats(total, dict(st, fails=[]))

        # ---- targeted exhaustive family: every leaf kind in every statement position of the small skeletons
        nfam = len(c05_gen.leaf_kind_family())
        st = new_stats()
        for r in pool.map(_family_worker, [(list(range(k, nfam, 64)), run.driver_ok, cfg['dec_len'], cfg['dec_runs'], 'leaf-kind') for k in range(64)]):
            merge_stats(st, r)
        absorb(run, st, 'leaf-kind')
        run.cov['leaf_kind_family'] = dict({k: st[k] for k in ('programs', 'graphs', 'graph_equal', 'both_error', 'runs', 'walk_equal',
                                                               'pc_ok', 'pc_rejected_expected', 'runs_exhaustive')}, size=nfam, exhaustive=True,
                                           leaf_kinds=[' '.join(str(x) for x in l) for l in c05_gen.LEAF_KINDS] + ['BRK', 'CONT'])
        merge_stats(total, dict(st, fails=[]))

        # ---- skeleton spaces
        spaces = []
        n, d, rich = cfg['exh']
        sp = c05_gen.Space(n, d, rich)
        st = run_space(run, pool, cfg['exh'], range(sp.size), cfg)
        absorb(run, st, 'exh')
        spaces.append({'max_stmts': n, 'max_depth': d, 'rich_leaves': rich, 'size': sp.size, 'explored': st['programs'],
                       'exhaustive': True, 'runs': st['runs'], 'programs_with_complete_decision_tree': st['runs_exhaustive']})
        merge_stats(total, dict(st, fails=[]))
        n, d, rich = cfg['big']
        sp = c05_gen.Space(n, d, rich)
        idxs, exh, stride, offset = c05_gen.sample_indices(sp.size, cfg['cap'], run.seed)
        st = run_space(run, pool, cfg['big'], idxs, cfg)
        absorb(run, st, 'big')
        spaces.append({'max_stmts': n, 'max_depth': d, 'rich_leaves': rich, 'size': sp.size, 'cap': cfg['cap'],
                       'explored': st['programs'], 'exhaustive': exh, 'stride': stride, 'offset': offset, 'runs': st['runs'],
                       'programs_with_complete_decision_tree': st['runs_exhaustive']})
        merge_stats(total, dict(st, fails=[]))
    run.cov['spaces'] = spaces
    run.cov['exhaustive'] = all(s['exhaustive'] for s in spaces)
    run.cov['totals'] = {k: total[k] for k in ('programs', 'graphs', 'graph_equal', 'both_error', 'runs', 'run_outcomes', 'walk_equal',
                                               'wf_ok', 'pc_ok', 'pc_rejected_expected', 'mirror_checked', 'owners_equal', 'nodes', 'edges', 'max_nodes')}
    run.cov['hypotheses_on_explored_programs'] = total['hyp']
    run.cov['error_kinds_of_real_builder'] = total['error_kinds']
    run.cov['constructs'] = dict(sorted(total['features'].items(), key=lambda kv: -kv[1])[:40])
    run.cov['decision_bounds'] = {'max_len': cfg['dec_len'], 'max_runs_per_program': cfg['dec_runs']}

    # ---- obligations from the accumulated statistics
    if run.driver_ok:
        names = ['correspondence:c05.graph', 'correspondence:c05.walk', 'correspondence:c05.owners', 'checker:wellFormed',
                 'checker:pathCheck', 'hypothesis:fnDistinctKeys3', 'hypothesis:fnParsedShape', 'hypothesis:fnFrag3']
        for nme in names:
            det = total['broken'].get(nme, [])
            run.oblige(nme, nme.split(':')[0], not det, '\n'.join(det[:3]))
        for nme, det in total['broken'].items():
            if nme not in names:
                run.oblige(nme, 'correspondence', False, '\n'.join(det[:3]))
    else:
        run.oblige('correspondence:c05', 'correspondence', False, 'driver unavailable')
    # samples
    sp = c05_gen.Space(*cfg['exh'])
    for i in (sp.size // 3, sp.size - 7):
        c = Case('sample-%d' % i, c05_gen.render(sp.unrank(i)))
        c.execute(cfg['dec_len'], 4)
        g = c.real.graphs.get(c.ser.id_of(c.fn))
        run.sample({'source': c.source, 'real_edges': g and g['edges'], 'entry': g and g['entry'], 'exits': g and g['exits'],
                    'runs': [{'decisions': r[0], 'trace': r[1], 'outcome': r[2]} for r in c.runs[:3]]})
    run.cov['search'] = ('direct oracle: %d instrumented executions over %d programs (every probe trace checked to be an entry-to-exit/error '
                         'path of the real graph); verified path checker on %d real graphs (covers all decision sequences of those programs)'
                         % (total['runs'], total['programs'], total['pc_ok'] + total['pc_rejected_expected']))
    run.cov['wall_search_s'] = round(time.time() - t0, 1)


def replay(run, path):
    with open(path) as f:
        rep = json.load(f)
    case = rep.get('case', rep)
    print('replaying', path)
    print(case.get('source', ''))
    c = Case('replay', case['source'])
    if c.real.error:
        print('real cfg.build raised:', c.real.error)
        return 0
    g = c.real.graphs[c.ser.id_of(c.fn)]
    print('entry', c.label(g['entry']), 'exits', [c.label(i) for i in g['exits']], 'errors', [c.label(i) for i in g['errors']])
    for a, b in g['edges']:
        print('   %s -> %s' % (c.label(a), c.label(b)))
    f = c05_instr.compile_instr(c05_instr.instrument(c.fn, c.ser))
    decs = [case['decisions']] if case.get('decisions') is not None else None
    if decs is None:
        c.execute(9, 200)
    else:
        tr, out, consumed, _, taken, wtaken = c05_instr.run(f, decs[0])
        c.runs = [(taken, tr, out, consumed, wtaken)]
    bad = c.path_failures()
    for why, dec, _sub in bad[:5]:
        print('FAILS decisions=%s: %s' % (dec, why))
    for dec, tr, out, _, _ in c.runs[:3]:
        print('run', dec, out, [c.label(i) for i in tr])
    if not bad:
        print('no failing run: every probe trace is a path of the real graph')
    return 1 if bad else 0
