"""C19 helper: run the REAL type inference of /repo on a program with the truthful harness resolver, capture the
real `Analyzer.in_/out`, the `TYPES` / `CLOSURE_TYPES` annotations and the resolver's answers; instrument and execute the
program to log run-time types; compute the taint sets the partial theorem assumes away.

Nothing here re-implements the inference: `analyse()` calls qual_names / activity / cfg / reaching_definitions /
reaching_fndefs / type_inference exactly as tests/pyct/static_analysis/type_inference_test.py does.
"""
import ast, copy, contextlib

import common
import pyast
import c19_types as T


class Unsupported(Exception):
    pass


class AnalysisTimeout(Exception):
    """The real analysis did not reach a fixed point within the time limit."""


@contextlib.contextmanager
def time_limit(seconds):
    import signal

    def handler(signum, frame):
        raise AnalysisTimeout()
    old = signal.signal(signal.SIGALRM, handler)
    signal.alarm(seconds)
    try:
        yield
    finally:
        signal.alarm(0)
        signal.signal(signal.SIGALRM, old)


def _mods():
    from malt.pyct import anno, cfg, qual_names, transformer
    from malt.pyct.static_analysis import activity, annos, reaching_definitions, reaching_fndefs, type_inference
    return dict(anno=anno, cfg=cfg, qual_names=qual_names, transformer=transformer, activity=activity, annos=annos,
                rd=reaching_definitions, fnd=reaching_fndefs, ti=type_inference)


def make_resolver(ti, rules, ser, log):
    """The harness resolver: converts the real calls to canonical queries, answers with `rules`, logs (query, answer)."""

    def ask(q):
        a = rules.answer(q)
        log[q] = a
        return T.py_set(a)

    class TruthfulResolver(ti.Resolver):
        def res_name(self, ns, types_ns, name):
            return ask(('name', str(name))), None

        def res_value(self, ns, value):
            if type(value) not in T.BASE:
                T.register_class(type(value))
            return ask(('value', type(value).__name__, repr(value)))

        def res_arg(self, ns, types_ns, f_name, name, type_anno, f_is_local):
            return ask(('arg', str(f_name), str(name), '' if type_anno is None else str(type_anno), bool(f_is_local)))

        def res_call(self, ns, types_ns, node, f_type, args, keywords):
            q = ('call', ser.id_of(node), T.canon_set(f_type), tuple(T.canon_set(a) for a in args),
                 tuple(T.canon_set(a) for a in keywords))
            return ask(q), None

        def res_slice(self, ns, types_ns, node_or_slice, value, slice_):
            if isinstance(node_or_slice, int):
                return ask(('sliceidx', node_or_slice, T.canon_set(value), T.canon_set(slice_)))
            return ask(('slice', ser.id_of(node_or_slice), T.canon_set(value), T.canon_set(slice_)))

        def res_compare(self, ns, types_ns, node, left, right):
            return ask(('compare', ser.id_of(node), T.canon_set(left), tuple(T.canon_set(r) for r in right)))

        def res_unop(self, ns, types_ns, node, opnd):
            return ask(('unop', ser.id_of(node), T.canon_set(opnd)))

        def res_binop(self, ns, types_ns, node, left, right):
            return ask(('binop', ser.id_of(node), T.canon_set(left), T.canon_set(right)))

        def res_list_literal(self, ns, elt_types):
            return ask(('listlit', tuple(T.canon_set(e) for e in elt_types)))

    return TruthfulResolver()


@contextlib.contextmanager
def _recording(ti, store):
    """Keep every Analyzer the real FunctionVisitor creates, a snapshot of the closure types it starts from, and watch
    its visits for NON-MONOTONE transitions: an assignment target that was left with its old (stale) type set at one
    visit because the value's type was unknown, and is strongly updated at a later visit of the same node.  (With a
    monotone transfer function the chaotic iteration only ever grows the maps; such a transition is the one way the
    pinned transfer function is not monotone.)  Observed facts about the run, not about whether anything failed."""
    cls = ti.Analyzer
    orig_init, orig_visit, orig_inf_init = cls.__init__, cls.visit_node, ti.StmtInferrer.__init__
    last = {}

    def init(self, *a, **k):
        orig_init(self, *a, **k)
        # closure_types is a live dict (the CLOSURE_TYPES annotation): later analyses of sibling functions keep adding
        # to it; what THIS analysis sees is its content now
        self._closure_snapshot = {k_: set(v) for k_, v in self.closure_types.items()}
        self._stale_kept = {}
        self._unbounded = False
        self._nonmono = set()
        self._visits = 0
        store.append(self)

    def inf_init(self, *a, **k):
        orig_inf_init(self, *a, **k)
        last['inf'] = self

    def visit_node(self, node):
        res = orig_visit(self, node)
        self._visits += 1
        if self._visits % 25 == 0 and any(type_depth(t) > 40 for ts in self.out[node].types.values() for t in ts):
            self._unbounded = True        # product types nest ever deeper: the abstract domain has no finite height
            raise AnalysisTimeout()
        if self._visits >= visit_cap(len(self.graph.index)):
            raise AnalysisTimeout()       # deterministic cap: converging runs on these programs need a few hundred visits
        # NON-MONOTONE step of this node's transfer function, witnessed by two states the run visited: types_in grew
        # (key-wise superset) but types_out did not.  On the pinned tree this happens when a value of unknown type
        # becomes known (the target's stale set is replaced by strong update) or when the resolver's answer becomes
        # unknown / narrower for larger argument sets; a broken join or work list does not produce it (there types_in
        # itself shrinks).
        tin = {str(k_): frozenset(v_) for k_, v_ in self.in_[node].types.items()}
        tout = {str(k_): frozenset(v_) for k_, v_ in self.out[node].types.items()}
        hist = self._stale_kept.setdefault(id(node), [])
        for (pin, pout) in hist:
            if all(k_ in tin and v_ <= tin[k_] for k_, v_ in pin.items()):
                for k_, v_ in pout.items():
                    if not (k_ in tout and v_ <= tout[k_]):
                        self._nonmono.add(k_)
        if (tin, tout) not in hist:
            hist.append((tin, tout))
            if len(hist) > 8:
                del hist[1]
        return res
    cls.__init__, cls.visit_node, ti.StmtInferrer.__init__ = init, visit_node, inf_init
    try:
        yield
    finally:
        cls.__init__, cls.visit_node, ti.StmtInferrer.__init__ = orig_init, orig_visit, orig_inf_init


def type_depth(t):
    """Nesting depth of a (product) type, iteratively."""
    d, level = 0, [t]
    while level:
        nxt = []
        for x in level:
            if isinstance(x, tuple):
                nxt.extend(x)
        if not nxt:
            break
        d += 1
        level = nxt
        if d > 60:
            break
    return d


def visit_cap(nnodes):
    return 3000 + 300 * nnodes


class OrderedFrozenSet(frozenset):
    """A frozenset that iterates in a fixed order.  `cfg.Node.next` is a frozenset whose iteration order (by object
    address) is unspecified and differs from process to process; the work list of GraphVisitor visits successors in
    that order.  The harness fixes ONE legal order (ascending serial id of the successor's AST node) so that runs are
    reproducible and can be compared step by step with the model, which uses the same order."""

    def __new__(cls, items, key):
        self = super().__new__(cls, items)
        self._order = sorted(items, key=key)
        return self

    def __iter__(self):
        return iter(self._order)


def _index_sexp(x, out):
    if isinstance(x, list):
        if len(x) > 1 and isinstance(x[0], str) and isinstance(x[1], int) and not isinstance(x[1], bool):
            out[x[1]] = x
        for e in x:
            _index_sexp(e, out)


def tmap_of(typemap):
    return {str(k): T.canon_set(v) for k, v in typemap.types.items()}


class FnInfo:
    """Everything about one function (top-level or nested) of an analysed program."""


class Analysis:
    def __init__(self, source, fname, rules_factory, namespace):
        """source: module text whose last top-level statement is `def <fname>`; rules_factory(ser) -> T.Rules."""
        m = _mods()
        self.m = m
        anno = m['anno']
        mod = ast.parse(source)
        fnode = [s for s in mod.body if isinstance(s, ast.FunctionDef) and s.name == fname][-1]
        self.module, self.fnode, self.source = mod, fnode, source
        self.ser = pyast.Ser(fnode)
        self.sub = {}
        _index_sexp(self.ser.sexp, self.sub)
        self.rules = rules_factory(self.ser)
        self.qlog = {}
        self.resolver = make_resolver(m['ti'], self.rules, self.ser, self.qlog)
        ctx = m['transformer'].Context(m['transformer'].EntityInfo(name=fname, source_code=source, source_file='<c19>',
                                                                   future_features=(), namespace=namespace), None, None)
        self.analyzers = []
        self.diverged = None
        try:
            node = m['qual_names'].resolve(fnode)
            node = m['activity'].resolve(node, ctx)
            self.graphs = m['cfg'].build(node)
            for g in self.graphs.values():
                for cn in g.index.values():
                    cn.next = OrderedFrozenSet(cn.next, key=lambda x: self.ser.id_of(x.ast_node) or 0)
            node = m['rd'].resolve(node, ctx, self.graphs)
            node = m['fnd'].resolve(node, ctx, self.graphs)
            with _recording(m['ti'], self.analyzers), time_limit(300):
                node = m['ti'].resolve(node, ctx, self.graphs, self.resolver)
        except (AnalysisTimeout, RecursionError) as e:
            if not self.analyzers:
                raise
            self.diverged = self.analyzers[-1]          # the analysis of this function hit the visit cap
            if isinstance(e, RecursionError):
                self.diverged._unbounded = True
        except (NotImplementedError, AssertionError, AttributeError, KeyError, ValueError, TypeError) as e:
            raise Unsupported('%s: %s' % (type(e).__name__, e))
        # For-statement of each iter node
        self.for_of_iter = {}
        self.parent_fn = {}
        for n in ast.walk(fnode):
            if isinstance(n, ast.For):
                self.for_of_iter[id(n.iter)] = n
        self.fns = [self._fn_info(a) for a in self.analyzers]
        self._independent_fndefs()
        self.nonmono = {str(a.scope.function_name): sorted(a._nonmono) for a in self.analyzers if a._nonmono}
        self.by_def = {fi.def_id: fi for fi in self.fns}
        # annotations on the whole tree
        self.types_anno = {}
        self.closure_anno = {}
        for n in ast.walk(fnode):
            i = self.ser.id_of(n)
            if i is None:
                continue
            if anno.hasanno(n, anno.Static.TYPES):
                self.types_anno[i] = T.canon_set(anno.getanno(n, anno.Static.TYPES))
            if isinstance(n, ast.FunctionDef) and anno.hasanno(n, anno.Static.CLOSURE_TYPES):
                self.closure_anno[i] = {str(k): T.canon_set(v) for k, v in anno.getanno(n, anno.Static.CLOSURE_TYPES).items()}

    # ------------------------------------------------------------------
    def _fn_info(self, an):
        m, anno, ser = self.m, self.m['anno'], self.ser
        fi = FnInfo()
        fdef = next(k for k, g in self.graphs.items() if g is an.graph)
        fi.fdef, fi.an = fdef, an
        fi.diverged = an is self.diverged
        fi.visits = an._visits
        fi.def_id = ser.id_of(fdef)
        sc = an.scope
        fi.env = {'fname': str(sc.function_name), 'is_local': sc.parent.parent is not None,
                  'bound': sorted(str(q) for q in sc.bound), 'nonlocals': sorted(str(q) for q in sc.nonlocals),
                  'closure': {str(k): T.canon_set(v) for k, v in an._closure_snapshot.items()}}
        nodes = []
        fi.cfg_of = {}
        for cn in an.graph.index.values():
            a = cn.ast_node
            i = ser.id_of(a)
            if i is None:
                raise Unsupported('CFG node without serial id: %r' % a)
            fi.cfg_of[i] = cn
            if id(a) in self.for_of_iter:
                f = self.for_of_iter[id(a)]
                nd = ['foriter', self.sub[ser.id_of(f.target)], self.sub[i]]
            elif isinstance(a, ast.stmt):
                nd = ['stmt', self.sub[i]]
            else:
                nd = ['expr', self.sub[i]]
            sc_n = anno.getanno(a, anno.Static.SCOPE, default=None)
            reads = sorted({str(q) for q in sc_n.read}) if sc_n is not None else []
            defs = anno.getanno(a, anno.Static.DEFINED_FNS_IN, default=())
            defs_in = sorted((ser.id_of(d), d.name) for d in defs if isinstance(d, ast.FunctionDef))
            nodes.append({'id': i, 'node': nd, 'succs': sorted(ser.id_of(x.ast_node) for x in cn.next),
                          'has_scope': sc_n is not None, 'reads': reads, 'defs_in': defs_in,
                          'in': tmap_of(an.in_[cn]), 'out': tmap_of(an.out[cn]), 'ast': a})
        nodes.sort(key=lambda d: d['id'])
        fi.nodes = nodes
        fi.entry = ser.id_of(an.graph.entry.ast_node)
        # reachable from the entry
        succ = {d['id']: d['succs'] for d in nodes}
        seen, todo = set(), [fi.entry]
        while todo:
            x = todo.pop()
            if x in seen:
                continue
            seen.add(x)
            todo.extend(succ[x])
        fi.reach = sorted(seen)
        return fi

    def _independent_fndefs(self):
        """Reaching definitions of function NAMES computed here, from the CFG alone: a `def` statement defines its name,
        nothing ever kills a definition, every definition that reaches a node along SOME path counts; a nested function
        starts from what reaches its own `def` statement.  Compared with the real DEFINED_FNS_IN annotation (which is an
        input of the model and of `_update_closure_types`)."""
        self.defs_mismatch = []
        indep_at_def = {}
        for fi in sorted(self.fns, key=lambda f: f.def_id):
            ext = indep_at_def.get(fi.def_id, frozenset())
            succ = {d['id']: d['succs'] for d in fi.nodes}
            isdef = {d['id']: isinstance(d['ast'], ast.FunctionDef) for d in fi.nodes}
            din = {i: set() for i in succ}
            din[fi.entry] = set(ext)
            work = [fi.entry]
            seen = set()
            while work:
                i = work.pop()
                out = din[i] | ({i} if isdef[i] else set())
                first = i not in seen
                seen.add(i)
                for k in succ[i]:
                    if not out <= din[k] or k not in seen:
                        din[k] |= out
                        work.append(k)
                if first:
                    pass
            for d in fi.nodes:
                if d['id'] not in fi.reach:
                    continue
                if isdef[d['id']]:
                    indep_at_def[d['id']] = frozenset(din[d['id']])
                # the real analysis starts a re-visit of a node from that node's previous OUT, so a `def` node visited
                # twice counts itself (and a nested function then sees itself) — harmless, schedule dependent: ignored
                ign = {fi.def_id} | ({d['id']} if isdef[d['id']] else set())
                real = {i for i, _ in d['defs_in']}
                if real - ign != din[d['id']] - ign:
                    self.defs_mismatch.append({'function': fi.fdef.name, 'node': d['id'], 'line': getattr(d['ast'], 'lineno', None),
                                               'real': sorted(real), 'independent': sorted(din[d['id']])})

    # ------------------------------------------------------------------ serialisation for the driver
    def env_sexp(self, fi):
        e = fi.env
        return ['env', e['fname'], bool(e['is_local']), e['bound'], e['nonlocals'], T.map_sexp(e['closure'])]

    def graph_sexp(self, fi):
        return ['graph', fi.entry, [[d['id'], d['node'], d['succs'], bool(d['has_scope']), d['reads'],
                                     [[i, n] for i, n in d['defs_in']]] for d in fi.nodes]]

    def table_sexp(self, extra=None):
        log = dict(self.qlog)
        if extra:
            log.update(extra)
        items = sorted(log.items(), key=lambda kv: repr(kv[0]))
        return ['table'] + [[T.query_sexp(q), T.set_sexp(a)] for q, a in items]

    def nmap_sexp(self, fi, which):
        return [[d['id'], T.map_sexp(d[which])] for d in fi.nodes]

    # ------------------------------------------------------------------ real new_symbols at the solution
    def real_new_symbols(self, fi, d):
        """Re-run the real StmtInferrer of node `d` on its final types_in.  The last visit of the node by the real
        analysis used exactly this types_in (in_ is stored by the same visit), so the TYPES annotations it rewrites
        are unchanged (the resolver is deterministic)."""
        ti = self.m['ti']
        an = fi.an
        cn = fi.cfg_of[d['id']]
        inf = ti.StmtInferrer(self.resolver, an.scope, an.namespace, an.closure_types, an.in_[cn])
        inf.visit(cn.ast_node)
        return {str(k): T.canon_set(v) for k, v in inf.new_symbols.items()}


# ---------------------------------------------------------------------------------------------------------------
# Syntactic facts
# ---------------------------------------------------------------------------------------------------------------
def stored_names(node):
    """Names in Store/Del position inside an AST node, not descending into nested function bodies."""
    out = []

    def walk(n, top):
        if isinstance(n, (ast.FunctionDef, ast.Lambda)) and not top:
            return
        if isinstance(n, (ast.ListComp, ast.SetComp, ast.DictComp, ast.GeneratorExp)):
            return          # comprehension targets live in the comprehension's own scope
        if isinstance(n, ast.Name) and isinstance(n.ctx, (ast.Store, ast.Del)):
            out.append(n.id)
        for c in ast.iter_child_nodes(n):
            walk(c, False)
    walk(node, True)
    return out


def read_names(node):
    out = []
    for n in ast.walk(node):
        if isinstance(n, ast.Name) and isinstance(n.ctx, ast.Load):
            out.append(n.id)
    return out


def own_statements(fdef):
    """Statements of a function body, not descending into nested defs."""
    out = []

    def walk(stmts):
        for s in stmts:
            out.append(s)
            if isinstance(s, ast.FunctionDef):
                continue
            for f in ('body', 'orelse', 'finalbody'):
                walk(getattr(s, f, []) or [])
    walk(fdef.body)
    return out


def nested_defs(fdef, deep=True):
    out = []

    def walk(stmts):
        for s in stmts:
            if isinstance(s, ast.FunctionDef):
                out.append(s)
                if deep:
                    walk(s.body)
                continue
            for f in ('body', 'orelse', 'finalbody'):
                walk(getattr(s, f, []) or [])
    walk(fdef.body)
    return out


def nonlocal_stores(fdef):
    """Names declared `nonlocal` in `fdef` itself and stored in its own body."""
    decl = set()
    for s in own_statements(fdef):
        if isinstance(s, ast.Nonlocal):
            decl.update(s.names)
    st = set()
    for s in own_statements(fdef):
        if isinstance(s, ast.FunctionDef):
            st.add(s.name)
            continue
        for n in _own_exprs(s):
            st.update(stored_names(n))
    return decl & st


def _own_exprs(s):
    """The parts of a compound statement that belong to it (not its nested blocks)."""
    if isinstance(s, (ast.If, ast.While)):
        return [s.test]
    if isinstance(s, ast.For):
        return [s.target, s.iter]
    if isinstance(s, ast.With):
        return list(s.items)
    if isinstance(s, ast.Try):
        return []
    return [s]


DIVERGENCE_CLASS = 'no_fixed_point_nonmonotone_transfer'
UNBOUNDED_CLASS = 'no_fixed_point_unbounded_product_types'
UNLISTED_PARAM = 'untyped_parameter_never_typed (not a finding: the pinned code reports nothing for it)'
CLASS_ORDER = ['retyped_by_untracked_binder', 'retyped_by_untyped_assignment', 'nonlocal_rebound_in_callee',
               'retyped_by_local_call_side_effect', 'captured_var_rebound_by_calling_statement',
               'local_function_called_from_sibling', 'starred_target_typed_by_position']


def compute_taint(an):
    """For every function of the analysed program: name -> set of classes (why its recorded types may be wrong).

    This is the least set satisfying the closure conditions of `taintClosed` (lean/MaltModel/Analysis/TypeInf.lean) plus
    the inter-procedural seeds the per-function theorem takes as parameters (`W`, truthfulness of `closure_types`)."""
    order = sorted(an.fns, key=lambda fi: fi.def_id)       # outer functions first (preorder ids)
    parent = {}
    for fi in order:
        for d in nested_defs(fi.fdef, deep=False):
            parent[an.ser.id_of(d)] = fi
    taint = {}
    wsets = {}
    seeds = {}
    an.taint_seeds = seeds
    for fi in order:
        S = {}

        def add(x, cls):
            S.setdefault(x, set())
            before = len(S[x])
            S[x] |= set(cls)
            return len(S[x]) != before
        # W: names a call to a local function may rebind: the nonlocal stores of every other function of the program
        # (own nested functions, siblings, enclosing functions' other children); the function's own nonlocal stores are
        # tracked by its own analysis (class nonlocal_rebound_in_callee) unless it can call itself
        W = set()
        for other in [an.fnode] + nested_defs(an.fnode, deep=True):
            if other is fi.fdef and fi.fdef.name not in read_names(fi.fdef):
                continue
            W |= nonlocal_stores(other)
        wsets[fi.def_id] = W
        p = parent.get(fi.def_id)
        for x in W:
            add(x, ['retyped_by_local_call_side_effect'])
        for x in nonlocal_stores(fi.fdef):
            add(x, ['nonlocal_rebound_in_callee'])
        if p is not None:
            pS = taint[p.def_id]
            local = set(fi.env['bound']) - set(fi.env['nonlocals'])
            # the function's name is read inside a function other than its parent (a sibling, a child, itself): that
            # function is analysed later and adds to CLOSURE_TYPES after this function's analysis has used them
            for other in nested_defs(an.fnode, deep=True):
                if other is p.fdef:
                    continue
                own = []
                for st_ in own_statements(other):
                    if not isinstance(st_, ast.FunctionDef):
                        for e_ in _own_exprs(st_):
                            own += read_names(e_)
                if fi.fdef.name in own:
                    for x in set(read_names(fi.fdef)) | set(fi.env['closure']):
                        if x not in local:
                            add(x, ['local_function_called_from_sibling'])
            for x, cls in pS.items():
                if x not in local:
                    add(x, cls)                                  # the closure type of a tainted name is not trustworthy
            # a statement of the parent that reads this function's name and binds a captured name
            for d in p.nodes:
                if fi.fdef.name in d['reads']:
                    bound_here = set(stored_names(d['ast'])) if not isinstance(d['ast'], ast.FunctionDef) else {d['ast'].name}
                    if id(d['ast']) in an.for_of_iter:
                        bound_here |= set(stored_names(an.for_of_iter[id(d['ast'])].target))
                    for x in bound_here:
                        if x not in local:
                            add(x, ['captured_var_rebound_by_calling_statement'])
        seeds[fi.def_id] = sorted(S)
        bound_elsewhere = set()
        for d in fi.nodes:
            if isinstance(d['ast'], ast.arguments):
                continue
            bound_elsewhere |= {d['ast'].name} if isinstance(d['ast'], ast.FunctionDef) else set(stored_names(d['ast']))
            if id(d['ast']) in an.for_of_iter:
                bound_elsewhere |= set(stored_names(an.for_of_iter[id(d['ast'])].target))
        for dd in nested_defs(fi.fdef, deep=True):
            bound_elsewhere |= nonlocal_stores(dd)
        changed = True
        news_cache = {}
        while changed:
            changed = False
            for d in fi.nodes:
                if d['id'] not in fi.reach:
                    continue
                a = d['ast']
                if isinstance(a, ast.FunctionDef):
                    continue
                if isinstance(a, ast.arguments):
                    if d['id'] not in news_cache:
                        news_cache[d['id']] = an.real_new_symbols(fi, d)
                    for arg in list(a.posonlyargs) + list(a.args) + ([a.vararg] if a.vararg else []) + list(a.kwonlyargs) + ([a.kwarg] if a.kwarg else []):
                        if arg.arg not in news_cache[d['id']]:
                            # an untyped parameter must be in S (it has a value but no entry).  If some other node of the
                            # function also binds it, a join can mix a typed set with the unknown one (the listed class);
                            # if the arguments node is its ONLY binder the pinned code never records anything for it, so a
                            # set reported for it is not excused by any listed finding.
                            changed |= add(arg.arg, ['retyped_by_untyped_assignment'] if arg.arg in bound_elsewhere
                                           else [UNLISTED_PARAM])
                    continue
                if id(a) in an.for_of_iter:
                    for x in stored_names(an.for_of_iter[id(a)].target):
                        changed |= add(x, ['retyped_by_untracked_binder'])
                    continue
                if isinstance(a, ast.Assign):
                    srcs = [x for x in read_names(a.value) if x in S]
                    if srcs:
                        cls = set()
                        for x in srcs:
                            cls |= S[x]
                        if UNLISTED_PARAM in cls:      # a value computed from an untyped parameter is an untyped assignment
                            cls = (cls - {UNLISTED_PARAM}) | {'retyped_by_untyped_assignment'}
                        for x in stored_names(a):
                            changed |= add(x, cls)
                    else:
                        if d['id'] not in news_cache:
                            news_cache[d['id']] = an.real_new_symbols(fi, d)
                        for x in stored_names(a):
                            if x not in news_cache[d['id']]:
                                changed |= add(x, ['retyped_by_untyped_assignment'])
                        # a pattern with a starred element is typed by position: wrong for the starred name and after it
                        for t in a.targets:
                            for pat in ast.walk(t):
                                if isinstance(pat, (ast.Tuple, ast.List)) and any(isinstance(e, ast.Starred) for e in pat.elts):
                                    for x in stored_names(pat):
                                        changed |= add(x, ['starred_target_typed_by_position'])
                    continue
                for x in stored_names(a):
                    changed |= add(x, ['retyped_by_untracked_binder'])
        taint[fi.def_id] = S
    return taint, wsets


# ---------------------------------------------------------------------------------------------------------------
# Instrumented execution
# ---------------------------------------------------------------------------------------------------------------
class _Instr(ast.NodeTransformer):
    def __init__(self, an, want):
        self.an, self.want = an, want

    def visit(self, node):
        if not isinstance(node, ast.expr):
            return super().visit(node)
        sid = getattr(node, '_sid', None)
        new = self.generic_visit(node)
        if sid in self.want and isinstance(getattr(node, 'ctx', None) or ast.Load(), ast.Load):
            return ast.copy_location(ast.Call(func=ast.Name(id='__lg', ctx=ast.Load()),
                                              args=[ast.Constant(value=sid), new], keywords=[]), node)
        return new

    def _after(self, stmt, names):
        out = [stmt]
        for sid, name in names:
            out.append(ast.Expr(value=ast.Call(func=ast.Name(id='__lg', ctx=ast.Load()),
                                               args=[ast.Constant(value=sid), ast.Name(id=name, ctx=ast.Load())], keywords=[])))
        return out

    def visit_Assign(self, node):
        targets = []
        seen = set()
        dup = False
        for t in node.targets:
            for n in ast.walk(t):
                if isinstance(n, ast.Name) and isinstance(n.ctx, ast.Store):
                    if n.id in seen:
                        dup = True
                    seen.add(n.id)
                    if getattr(n, '_sid', None) in self.an.types_anno:
                        targets.append((n._sid, n.id))
        node.value = self.visit(node.value)
        return self._after(node, [] if dup else targets)

    def visit_FunctionDef(self, node):
        sid = getattr(node, '_sid', None)
        node.body = [x for s in node.body for x in (lambda r: r if isinstance(r, list) else [r])(self.visit(s))]
        pre = []
        k = 0
        while k < len(node.body) and isinstance(node.body[k], (ast.Nonlocal, ast.Global)):
            k += 1
        for a in ast.walk(node.args):
            if isinstance(a, ast.arg) and getattr(a, '_sid', None) in self.an.types_anno:
                pre.append(ast.Expr(value=ast.Call(func=ast.Name(id='__lg', ctx=ast.Load()),
                                                   args=[ast.Constant(value=a._sid), ast.Name(id=a.arg, ctx=ast.Load())], keywords=[])))
        fi = self.an.by_def.get(sid)
        if fi is not None and fi.env['is_local']:
            local = set(fi.env['bound']) - set(fi.env['nonlocals'])
            cl = self.an.closure_anno.get(sid, {})
            captured = set(read_names(fi.fdef))       # only variables the function (or a function nested in it) reads
            for x in sorted(cl):
                if x in local or x not in captured:
                    continue
                lam = ast.Lambda(args=ast.arguments(posonlyargs=[], args=[], vararg=None, kwonlyargs=[], kw_defaults=[], kwarg=None, defaults=[]),
                                 body=ast.Name(id=x, ctx=ast.Load()))
                pre.append(ast.Expr(value=ast.Call(func=ast.Name(id='__lc', ctx=ast.Load()),
                                                   args=[ast.Constant(value=sid), ast.Constant(value=x), lam], keywords=[])))
        node.body[k:k] = pre
        return node


def instrument_and_run(an, inputs, namespace):
    """Execute the analysed function on `inputs`; returns (type log {sid: set of run-time descriptors},
    closure log {(def sid, name): set}, outcomes)."""
    fnode = an.fnode
    for n in ast.walk(fnode):
        i = an.ser.id_of(n)
        if i is not None:
            n._sid = i
    want = set(an.types_anno)
    for n in ast.walk(fnode):
        if isinstance(n, ast.Name) and isinstance(n.ctx, ast.Load) and getattr(n, '_sid', None) is not None:
            want.add(n._sid)
    tree = copy.deepcopy(fnode)
    tree = _Instr(an, want).visit(tree)
    mod = ast.Module(body=[tree], type_ignores=[])
    ast.fix_missing_locations(mod)
    tlog, clog = {}, {}

    def lg(sid, v):
        tlog.setdefault(sid, set()).add(T.type_of_value(v))
        return v

    def lc(sid, name, thunk):
        try:
            v = thunk()
        except NameError:
            return
        clog.setdefault((sid, name), set()).add(T.type_of_value(v))
    ns = dict(namespace)
    ns['__lg'], ns['__lc'] = lg, lc
    code = compile(mod, '<c19-instrumented>', 'exec')
    exec(code, ns)
    f = ns[fnode.name]
    outcomes = []
    for inp in inputs:
        try:
            f(*copy.deepcopy(inp))
            outcomes.append('ok')
        except RecursionError:
            outcomes.append('RecursionError')
        except Exception as e:      # noqa: the log up to the exception is still valid
            outcomes.append(type(e).__name__)
    return tlog, clog, outcomes
