"""./check <property> [--tier quick|thorough] [--replay file]"""
import argparse, importlib, os, sys, traceback

HERE = os.path.dirname(os.path.abspath(__file__))
sys.path.insert(0, HERE)
import common  # noqa: E402


def main():
    ap = argparse.ArgumentParser()
    ap.add_argument('prop')
    ap.add_argument('--tier', default=os.environ.get('VERIF_TIER', 'quick'), choices=['quick', 'thorough'])
    ap.add_argument('--replay', default=None)
    ap.add_argument('--seed', type=int, default=int(os.environ.get('VERIF_SEED', '0') or 0))
    a = ap.parse_args()
    # malt is imported from the working tree under test
    sys.path.insert(0, common.REPO)
    try:
        mod = importlib.import_module('run_' + a.prop.lower())
    except ModuleNotFoundError:
        print('no check for', a.prop)
        return 2
    run = common.Run(a.prop, a.tier, a.seed)
    # malt writes every generated module to the temp directory and never removes it: give each check run its own
    # temp directory (inherited by worker subprocesses through TMPDIR) and remove it at exit
    import atexit, shutil, tempfile
    scratch = tempfile.mkdtemp(prefix='maltverif_run_')
    tempfile.tempdir = scratch
    os.environ['TMPDIR'] = scratch
    atexit.register(shutil.rmtree, scratch, True)
    try:
        if a.replay:
            return mod.replay(run, a.replay)
        mod.check(run)
        return run.finish()
    except common.InfraError as e:
        print('INFRA-ERROR', e)
        return 2
    except Exception as e:
        traceback.print_exc()
        # An exception that comes out of the implementation under test while the harness drives it (never seen on the
        # unchanged tree, where every check completes) means a step of the correspondence can no longer be carried out:
        # that is a broken obligation, reported like any other (with the failing inputs found so far, or as
        # no-failing-input-found), not an infrastructure problem.
        repo = os.path.realpath(common.REPO)
        frames = traceback.extract_tb(e.__traceback__)
        inside = [f for f in frames if os.path.realpath(f.filename).startswith(repo + os.sep)]
        if inside and not a.replay:
            last = inside[-1]
            run.oblige('harness:every-step-completes-on-the-implementation', 'correspondence', False,
                       '%s: %s raised at %s:%d (%s) while the harness was driving the implementation; harness frames: %s'
                       % (type(e).__name__, str(e)[:300], os.path.relpath(last.filename, repo), last.lineno, last.name,
                          ' <- '.join('%s:%d' % (os.path.basename(f.filename), f.lineno) for f in frames
                                      if not os.path.realpath(f.filename).startswith(repo + os.sep))[-400:]))
            try:
                return run.finish()
            except Exception:
                traceback.print_exc()
        print('INFRA-ERROR unexpected exception in harness')
        return 2


if __name__ == '__main__':
    sys.exit(main())
