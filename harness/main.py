"""./check <property> [--tier quick|thorough] [--replay file]"""
import argparse, importlib, os, sys, traceback

HERE = os.path.dirname(os.path.abspath(__file__))
sys.path.insert(0, HERE)
import common  # noqa: E402


def main():
    ap = argparse.ArgumentParser()
    ap.add_argument('prop')
    ap.add_argument('--tier', default=os.environ.get('VERIF_TIER', 'quick'), choices=['quick', 'thorough'])
    ap.add_argument('--replay', default=None)
    ap.add_argument('--seed', type=int, default=int(os.environ.get('VERIF_SEED', '0') or 0))
    a = ap.parse_args()
    # malt is imported from the working tree under test
    sys.path.insert(0, common.REPO)
    try:
        mod = importlib.import_module('run_' + a.prop.lower())
    except ModuleNotFoundError:
        print('no check for', a.prop)
        return 2
    run = common.Run(a.prop, a.tier, a.seed)
    # malt writes every generated module to the temp directory and never removes it: give each check run its own
    # temp directory (inherited by worker subprocesses through TMPDIR) and remove it at exit
    import atexit, shutil, tempfile
    scratch = tempfile.mkdtemp(prefix='maltverif_run_')
    tempfile.tempdir = scratch
    os.environ['TMPDIR'] = scratch
    atexit.register(shutil.rmtree, scratch, True)
    try:
        if a.replay:
            return mod.replay(run, a.replay)
        mod.check(run)
        return run.finish()
    except common.InfraError as e:
        print('INFRA-ERROR', e)
        return 2
    except Exception:
        traceback.print_exc()
        print('INFRA-ERROR unexpected exception in harness')
        return 2


if __name__ == '__main__':
    sys.exit(main())
