"""C03 — correspondence of the Lean model of ControlFlowTransformer (lean/MaltModel/Conv/ControlFlow.lean)
with the real pass, and the verified contract checker run on the real final generated code.

check_cf_model(run, items): for each traced conversion feed the recorded input tree of the
ControlFlowTransformer pass + its annotation table + the namer state to `drv_c03` (`c03.cf`) and compare the
model's output with the recorded output structurally: node ids stripped, `global`/`nonlocal` name lists and
runs of `x = ag__.Undefined('x')` pre-assignments sorted on both sides (their order is the iteration order of
a Python set, i.e. hash dependent), state tuples compared IN ORDER.
"""
import ast, json

import common
from common import sexp, parse_sexp
import passes, pyast


# ------------------------------------------------------------------------------------------------
# canonicalisation
# ------------------------------------------------------------------------------------------------
def _norm(x):
    """recorded sexp (ints/bools inside) -> all-string nested lists"""
    return parse_sexp(sexp(x))


def _is_undef_assign(s):
    try:
        return (s[0] == 'Assign' and len(s[2]) == 1 and s[2][0][0] == 'Name' and s[3][0] == 'Call'
                and s[3][2][0] == 'Attribute' and s[3][2][3] == 'Undefined' and s[3][2][2][0] == 'Name'
                and s[3][2][2][2] == 'ag__')
    except (IndexError, TypeError):
        return False


def canon(x):
    """ids -> 0, Global/Nonlocal names sorted, runs of Undefined pre-assignments sorted."""
    if not isinstance(x, list):
        return x
    if x and x[0] in ('Global', 'Nonlocal') and len(x) == 3 and isinstance(x[2], list):
        return [x[0], '0', sorted(x[2])]
    out = [canon(e) for e in x]
    if out and isinstance(out[0], str) and len(out) > 1 and isinstance(out[1], str) and out[1].isdigit() \
            and (out[0][0].isupper() or out[0] in ('keyword', 'comprehension', 'arguments', 'arg', 'withitem')):
        out[1] = '0'
    # a list of statements: sort runs of undefined assigns
    if out and all(isinstance(e, list) and e and isinstance(e[0], str) for e in out):
        i = 0
        while i < len(out):
            if _is_undef_assign(out[i]):
                j = i
                while j < len(out) and _is_undef_assign(out[j]):
                    j += 1
                out[i:j] = sorted(out[i:j], key=sexp)
                i = j
            else:
                i += 1
    return out


def first_diff(a, b, path=''):
    if isinstance(a, list) and isinstance(b, list):
        if len(a) != len(b):
            return '%s: lengths %d vs %d: %s <> %s' % (path, len(a), len(b), sexp(a)[:300], sexp(b)[:300])
        for k, (x, y) in enumerate(zip(a, b)):
            d = first_diff(x, y, '%s/%s' % (path, a[0] if a and isinstance(a[0], str) and k else k))
            if d:
                return d
        return None
    if a != b:
        return '%s: %s <> %s' % (path, sexp(a)[:200] if isinstance(a, list) else a, sexp(b)[:200] if isinstance(b, list) else b)
    return None


# ------------------------------------------------------------------------------------------------
# requests
# ------------------------------------------------------------------------------------------------
def cf_pass(trace):
    for k, ps in enumerate(trace.passes):
        if ps.name == 'ControlFlowTransformer':
            return k, ps
    return None, None


def cf_request(trace):
    """The `c03.cf` request line of a trace (None when the pass did not run / could not be snapshotted)."""
    k, ps = cf_pass(trace)
    if ps is None or ps.before is None or ps.before[:1] == ['SNAPSHOT-ERROR'] or ps.after is None \
            or (isinstance(ps.after, list) and ps.after[:1] == ['SNAPSHOT-ERROR']):
        return None
    generated_before = [r for p in trace.passes[:k] for (_, _, r) in p.new_symbols]
    return 'c03.cf %s %s %s %s' % (sexp(ps.before), sexp(ps.before_annos), sexp(list(trace.namespace)), sexp(generated_before))


def compare_cf(trace, answer):
    """None if the model agrees with the recorded pass output, else a description of the first difference."""
    k, ps = cf_pass(trace)
    try:
        ans = parse_sexp(answer)
    except Exception:
        return 'model answered %r' % answer[:200]
    if not isinstance(ans, list) or ans[:1] != ['ok']:
        return 'model answered %r' % answer[:200]
    model_out = canon(ans[1])
    after = ps.after
    real_out = canon(_norm(after if isinstance(after, list) and after and isinstance(after[0], list) else [after]))
    d = first_diff(real_out, model_out)
    if d:
        return 'tree (implementation <> model) ' + d
    real_syms = [r for (_, _, r) in ps.new_symbols]
    if real_syms != ans[2]:
        return 'new_symbol results: implementation %s, model %s' % (real_syms, ans[2])
    if len(ans) > 3 and ans[3] != 'True':
        return 'the model\'s own output is rejected by the verified checker contractOk'
    return None


def count_ops(trace):
    k, ps = cf_pass(trace)
    txt = sexp(ps.after) if ps is not None and ps.after is not None else ''
    return {op: txt.count(' %s Load)' % op) for op in ('if_stmt', 'while_stmt', 'for_stmt')}


def check_cf_model(run, items, name='correspondence:c03.cf'):
    """items: list of (key, trace, descr).  Returns the list of disagreements (dicts)."""
    lines, idx = [], []
    for n, (key, trace, descr) in enumerate(items):
        req = cf_request(trace)
        if req is not None:
            lines.append(req)
            idx.append(n)
    dis = []
    if not run.driver_ok:
        run.oblige(name, 'correspondence', False, 'driver unavailable')
        return dis
    answers = run.drive(lines) if lines else []
    nstmt = {'if_stmt': 0, 'while_stmt': 0, 'for_stmt': 0}
    for n, ans in zip(idx, answers):
        key, trace, descr = items[n]
        run.evaluations += 1
        c = count_ops(trace)
        for op in c:
            nstmt[op] += c[op]
        d = compare_cf(trace, ans)
        if d:
            dis.append({'program': descr, 'difference': d})
    run.cov['cf_model_cases'] = len(lines)
    run.cov['cf_model_emitted_calls'] = nstmt
    run.oblige(name, 'correspondence', not dis, json.dumps(dis[:2])[:1800] if dis else '')
    return dis


# ------------------------------------------------------------------------------------------------
# direct correspondence of `_get_block_vars` (Conv.BlockVars.blockVars) on random annotation sets
# ------------------------------------------------------------------------------------------------
BV_UNIVERSE = ['a', 'b', 'c', 'x', 'y', 'z', 'i', 'a.b', 'a.b.c', 'd[k]', "d['k']", 'd[0]', 'x.y', 'o.v', 'a[b.c]', 'l[i]',
               'q[1.5]', 'd[x]', "d['a.b']", 'b.c[x]', 'z[True]', 'y[None].w', "d['it's']", 'o.v.w[i].u']


def check_blockvars(run, n, name='correspondence:c03.blockvars'):
    """Calls the real ControlFlowTransformer._get_block_vars on fabricated annotations (random subsets of a universe
    of simple and composite qualified names, random function-scope globals/nonlocals) and compares (scope_vars IN
    ORDER, undefined as a set, nouts) with the model."""
    import ast, types
    from malt.converters import control_flow
    from malt.pyct import anno, qual_names
    qn = {}
    for s in BV_UNIVERSE:
        try:
            q = qual_names.from_str(s)
            if str(q) == s:
                qn[s] = q
        except Exception:  # noqa  (e.g. the unescaped quote: only producible from a real tree)
            pass
    univ = sorted(qn)
    simple = [s for s in univ if not qn[s].is_composite()]
    rng = run.rng
    t = control_flow.ControlFlowTransformer(types.SimpleNamespace(info=None, namer=None, current_origin=None, user=None))
    lines, expect, cases = [], [], []
    for k in range(n):
        p = rng.choice([0.2, 0.4, 0.6])

        def sub(pool, pr):
            return sorted(s for s in pool if rng.random() < pr)
        mod, li, lo, di = sub(univ, p), sub(univ, 0.45), sub(univ, 0.4), sub(univ, 0.5)
        g, nl = sub(simple, 0.12), sub(simple, 0.12)
        node = ast.Pass()
        anno.setanno(node, anno.Static.DEFINED_VARS_IN, frozenset(qn[s] for s in di))
        anno.setanno(node, anno.Static.LIVE_VARS_IN, frozenset(qn[s] for s in li))
        anno.setanno(node, anno.Static.LIVE_VARS_OUT, frozenset(qn[s] for s in lo))
        with t.state[control_flow._Function] as fn:
            fn.scope = types.SimpleNamespace(globals={qn[s] for s in g}, nonlocals={qn[s] for s in nl})
            sv, und, nouts = t._get_block_vars(node, {qn[s] for s in mod})
        expect.append(sexp([[str(v) for v in sv], sorted(str(v) for v in und), nouts]))
        lines.append('c03.blockvars %s %s %s %s %s %s' % tuple(sexp(x) for x in (mod, li, lo, di, g, nl)))
        cases.append({'modified': mod, 'live_in': li, 'live_out': lo, 'defined_in': di, 'globals': g, 'nonlocals': nl})
        run.case(('blockvars', tuple(mod), tuple(li), tuple(lo), tuple(di), tuple(g), tuple(nl)), bool(sv))
    if not run.driver_ok:
        run.oblige(name, 'correspondence', False, 'driver unavailable')
        return []
    dis = []
    for line, e, c, ans in zip(lines, expect, cases, run.drive(lines)):
        try:
            a = parse_sexp(ans)
            got = sexp([a[0], sorted(a[1]), int(a[2])])
        except Exception:  # noqa
            got = ans
        if got != e:
            dis.append({'case': c, 'implementation': e, 'model': got})
    run.cov['blockvars_cases'] = n
    run.oblige(name, 'correspondence', not dis, json.dumps(dis[:3])[:1500] if dis else '')
    return dis


# ------------------------------------------------------------------------------------------------
# checker on the REAL annotations: closures keep their variables live out of a block
# ------------------------------------------------------------------------------------------------
_NEXT_OK = ('Assign', 'AugAssign', 'Expr', 'Return', 'If', 'While', 'For', 'Try')


def _contains(x, kind):
    if isinstance(x, list):
        if x and x[0] == kind:
            return True
        return any(_contains(e, kind) for e in x)
    return False


def closure_liveout_violations(before, annos):
    """On the tree + annotation table the ControlFlow pass receives: for every if/while/for statement S that is followed by
    a statement T in the same block, and every local function g defined earlier in the same or an enclosing block of the same
    function (so its definition reaches T and g can be called after S -- by ANY name: an alias, another local function, a
    container element, a default argument, the caller), every variable g reads from its closure (read minus its own locals;
    names it declares nonlocal/global included) must be in LIVE_VARS_OUT(S): liveness adds the closure of every reaching
    function definition to the live-in set of every statement.  Blocks containing `raise` are skipped (they may not reach T).
    Returns (number of (S, g, x) triples checked, list of violations)."""
    tree = _norm(before)
    tab = {}
    for a in _norm(annos):
        tab[(a[0], a[1])] = a[2]

    def field(sc, name):
        for f in sc[1:]:
            if isinstance(f, list) and f and f[0] == name:
                return set(f[1:])
        return set()

    def closure_reads(fid):
        sc = tab.get((fid, 'ARGS_AND_BODY_SCOPE'))
        if not isinstance(sc, list):
            return set()
        own = field(sc, 'bound') - field(sc, 'nonlocals') - field(sc, 'globals')
        return {x for x in field(sc, 'read') - own if '.' not in x and '[' not in x}

    checked, bad = [0], []

    def blocks_of(s):
        k = s[0]
        if k in ('If', 'While'):
            return [s[3], s[4]]
        if k == 'For':
            return [s[4], s[5]]
        if k == 'With':
            return [s[3]]
        if k == 'Try':
            return [s[2], s[3], s[4], s[5]]
        if k == 'ExceptHandler':
            return [s[4]]
        if k == 'ClassDef':
            return [s[5]]
        if k == 'OtherStmt':
            return [s[4]]
        return []

    def walk(stmts, defs):
        defs = list(defs)
        for k, s in enumerate(stmts):
            kind = s[0]
            if kind in ('If', 'While', 'For') and k + 1 < len(stmts) and stmts[k + 1][0] in _NEXT_OK and defs \
                    and not _contains(s, 'Raise') and (kind, s[1]) and (s[1], 'skip') not in tab:
                lo = tab.get((s[1], 'LIVE_VARS_OUT'))
                if isinstance(lo, list):
                    lo = set(lo)
                    for gid, gname in defs:
                        for x in sorted(closure_reads(gid)):
                            checked[0] += 1
                            if x not in lo:
                                bad.append({'block': kind, 'block_id': s[1], 'function': gname, 'variable': x,
                                            'LIVE_VARS_OUT': sorted(lo)[:40]})
            if kind == 'FunctionDef':
                walk(s[4], [])                 # a nested function has its own flow graph
                defs.append((s[1], s[2]))
            else:
                for b in blocks_of(s):
                    walk(b, defs)

    if tree and tree[0] == 'FunctionDef':
        walk(tree[4], [])
    return checked[0], bad
