"""C14 helper: generated user functions that call eval / locals / globals / zero-argument super at a
chosen nesting inside loops and branches, plus functions that call each substituted builtin in each
accepted way (so the whole path call_trees -> converted_call -> overload_of is exercised).

A program is plain data: {'name', 'kind', 'nest', 'call', 'src', 'entry', 'args', 'extra'}.
Exactly ONE frame-sensitive call site per program, so that the class of a failing case is a
function of the program alone.
"""
import itertools

NEST_KINDS = ['if', 'else', 'for', 'while', 'elif']

# call kinds: (name, expression, eval extra-args form or None, user variables the call needs to see)
# The innermost generated body references u, x and out (and binds x); it does not reference a, b, v.
VISIBLE_IN_INNERMOST_BODY = ('u', 'x', 'out')
# {d} = depth index of the innermost body, names: a, b params; u, v, t* locals; G0 global
EVAL_CALLS = [
    ('eval_local_ref',   "eval('u + 1')", [], ['u']),
    ('eval_local_unref', "eval('v')", [], ['v']),
    ('eval_param',       "eval('b * 2')", [], ['b']),
    ('eval_global',      "eval('G0 + 1')", []),
    ('eval_builtin',     "eval('len([1, 2])')", []),
    ('eval_body_local',  "eval('x + 1')", [], []),      # x is bound by the body itself
    ('eval_compiled',    "eval(CODE0)", []),
    ('eval_g_only',      "eval('u', {'u': 1000})", [('obj',)]),
    ('eval_g_only_glob', "eval('G0', {'G0': 7})", [('obj',)]),
    ('eval_none',        "eval('G0 + 1', None)", ['none']),
    ('eval_none_none',   "eval('G0 + 2', None, None)", ['none', 'none']),
    ('eval_none_l',      "eval('G0 + q', None, {'q': 1})", ['none', ('obj',)]),
    ('eval_g_l',         "eval('u + q', {'u': 1000}, {'q': 1})", [('obj',), ('obj',)]),
    ('eval_g_l_shadow',  "eval('u', {'u': 1000}, {'u': 2000})", [('obj',), ('obj',)]),
    ('eval_g_none',      "eval('u', {'u': 1000}, None)", [('obj',), 'none']),
]
LOCALS_CALLS = [
    ('locals_get',  "locals()['u']", None, ['u']),
    ('locals_keys', "sorted(k for k in locals() if k in ('a', 'b', 'u', 'v', 'out'))", None, ['a', 'b', 'u', 'v', 'out']),
    ('locals_vals', "[locals().get(k, 'MISSING') for k in ('a', 'b', 'u', 'v')]", None, ['a', 'b', 'u', 'v']),
]
GLOBALS_CALLS = [
    ('globals_get', "globals()['G0']"),
    ('globals_is',  "globals() is MODDICT"),
    ('globals_name', "globals()['__name__']"),
]
SUPER_CALLS = [
    ('super_m',        "super().m(a)"),
    ('super_attr',     "super().tag"),
    ('super_explicit', "super(Der_{n}, self).m(a)"),
    ('super_twice',    "(super().m(a), super().m(b))"),
]


def _open(nest):
    """Lines opening the nested constructs, and the indentation of the innermost body."""
    lines = []
    ind = '    '
    for d, k in enumerate(nest):
        if k == 'if':
            lines.append(ind + 'if a > 0:')
        elif k == 'else':
            lines += [ind + 'if a < 0:', ind + '    pass', ind + 'else:']
        elif k == 'elif':
            lines += [ind + 'if a < 0:', ind + '    pass', ind + 'elif a > 0:']
        elif k == 'for':
            lines.append(ind + 'for i%d in range(2):' % d)
        elif k == 'while':
            lines += [ind + 't%d = 0' % d, ind + 'while t%d < 2:' % d, ind + '    t%d += 1' % d]
        ind += '    '
    return lines, ind


WRAPS = {'ifexp': "(%s if a > 0 else 'no')", 'and': '(a > 0 and %s)', 'or': '(a < 0 or %s)'}


def function_program(n, nest, call, wrap=None):
    """`wrap` puts the call into a conditional expression / and / or operand: the converter turns those
    operands into lambdas, whose frames show only the names the operand itself references."""
    name, expr = call[0], call[1]
    if wrap:
        expr = WRAPS[wrap] % expr
    lines = ['def f_%d(a, b):' % n, '    u = a + 10', "    v = 'vv'", '    out = []', '    x = -1']
    o, ind = _open(nest)
    lines += o
    lines.append(ind + 'x = u + %d' % len(nest))      # the innermost body references u and binds x
    lines.append(ind + 'out.append(%s)' % expr)
    lines.append('    return out')
    return {'name': 'f_%d' % n, 'kind': name.split('_')[0], 'call': name, 'nest': list(nest), 'src': '\n'.join(lines) + '\n',
            'entry': 'f_%d' % n, 'cls': None, 'args': [[1, 5], [2, 7]], 'extra': call[2] if len(call) > 2 else None,
            'needs': (['x'] if wrap and name == 'eval_body_local' else list(call[3]) if len(call) > 3 else []), 'wrap': wrap}


def method_program(n, nest, call, levels=2):
    """`levels=3`: the method using super() is defined in Mid(Base), not overridden in Leaf(Mid), and called
    on a Leaf instance - so `type(self)` is not the class the method was defined in."""
    name, expr = call[0], call[1].replace('{n}', str(n))
    lines = ['class Base_%d:' % n, "    tag = 'base-tag'", '    def m(self, x, b=0):', "        return ('parent=base', x)",
             'class Der_%d(Base_%d):' % (n, n), "    tag = 'der-tag'", '    def m(self, a, b=3):', '        u = a + 10', '        out = []']
    o, ind = _open(nest)
    lines += ['    ' + l for l in o]
    lines.append('    ' + ind + 'x = u')
    lines.append('    ' + ind + 'out.append(%s)' % expr)
    lines.append("        return ('parent=der', out)")
    inst = None
    if levels == 3:
        lines += ['class Leaf_%d(Der_%d):' % (n, n), "    tag = 'leaf-tag'", '    def other(self):', '        return 0']
        inst = 'Leaf_%d' % n
    return {'name': 'Der_%d.m' % n, 'kind': 'super', 'call': name, 'nest': list(nest), 'src': '\n'.join(lines) + '\n',
            'entry': 'm', 'cls': 'Der_%d' % n, 'inst': inst, 'args': [[1], [2, 9]], 'extra': None, 'needs': []}


# dynamic reads placed AFTER a functionalised block that assigns x; `live` adds a static read of x after the block
AFTER_CALLS = [
    ('evalafter_dyn',    "eval('x')", False),
    ('evalafter_live',   "eval('x')", True),
    ('localsafter_dyn',  "locals()['x']", False),
    ('localsafter_live', "locals()['x']", True),
    ('evalafter_expr',   "eval('x + u')", False),
]


def after_program(n, nest, call):
    name, expr, live = call
    lines = ['def f_%d(a, b):' % n, '    u = a + 10', '    out = []', '    x = -1']
    o, ind = _open(nest)
    lines += o
    lines.append(ind + 'x = u + %d' % len(nest))
    if live:
        lines.append('    y = x')
    lines.append('    out.append(%s)' % expr)
    if live:
        lines.append('    out.append(y)')
    lines.append('    return out')
    return {'name': 'f_%d' % n, 'kind': 'after', 'call': name, 'nest': list(nest), 'src': '\n'.join(lines) + '\n',
            'entry': 'f_%d' % n, 'cls': None, 'args': [[1, 5], [2, 7]], 'extra': None, 'needs': ['x'], 'static_read': live}


def all_nests(max_depth):
    out = [()]
    for d in range(1, max_depth + 1):
        out += list(itertools.product(NEST_KINDS, repeat=d))
    return out


def frame_programs(tier, rng):
    """Quick: every nest up to depth 2 x every call kind (stride-sampled at depth 2); thorough: depth 3."""
    progs = []
    n = 0
    max_depth = 2 if tier == 'quick' else 3
    nests = all_nests(max_depth)
    calls = [('f', c) for c in EVAL_CALLS] + [('f', c) for c in LOCALS_CALLS] + [('f', c) for c in GLOBALS_CALLS] + \
            [('m', c) for c in SUPER_CALLS]
    space = len(nests) * len(calls)
    cap = 420 if tier == 'quick' else 1400
    combos = [(ne, c) for ne in nests for c in calls]
    deep = [x for x in combos if len(x[0]) >= 2]
    shallow = [x for x in combos if len(x[0]) < 2]
    if len(combos) > cap:
        k = max(1, len(deep) // max(1, cap - len(shallow)))
        off = rng.randrange(k)
        deep = deep[off::k]
    for ne, (kind, c) in shallow + deep:
        if kind == 'f':
            progs.append(function_program(n, ne, c))
            n += 1
        else:
            for levels in (2, 3):
                progs.append(method_program(n, ne, c, levels=levels))
                n += 1
    # the same calls as operands of a conditional expression / and / or (functionalised as lambdas)
    fcalls = [c for c in EVAL_CALLS + LOCALS_CALLS + GLOBALS_CALLS]
    wrapped = [(ne, c, w) for ne in nests if len(ne) <= 1 for c in fcalls for w in sorted(WRAPS)]
    space += len(wrapped)
    if tier == 'quick':
        pick = rng.randrange(len(NEST_KINDS))
        wrapped = [x for x in wrapped if not x[0] or x[0] == (NEST_KINDS[pick],)]
        wrapped = [x for k, x in enumerate(wrapped) if not x[0] or k % 3 == pick % 3]
    for ne, c, w in wrapped:
        progs.append(function_program(n, ne, c, wrap=w))
        n += 1
    after = [(ne, c) for ne in nests if ne for c in AFTER_CALLS]
    space += len(after)
    if tier == 'quick':
        off = rng.randrange(2)
        after = [x for x in after if len(x[0]) == 1] + [x for x in after if len(x[0]) > 1][off::2]
    else:
        off = rng.randrange(3)
        after = [x for x in after if len(x[0]) <= 2] + [x for x in after if len(x[0]) > 2][off::3]
    for ne, c in after:
        progs.append(after_program(n, ne, c))
        n += 1
    return progs, {'space': space, 'cap': cap, 'generated': len(progs), 'exhaustive': len(progs) == space, 'max_depth': max_depth}


MODULE_HEADER = """G0 = 100
CODE0 = compile('G0 + 5', '<c14>', 'eval')
MODDICT = globals()
"""


def builtin_call_program(n, b, way):
    """def g_n(V): return b(<way>) with every argument taken from the dict V."""
    pos, kw = way
    args = ["V['%s']" % r for r in pos] + ["%s=V['%s']" % (k, r) for k, r in kw]
    src = 'def g_%d(V):\n    return %s(%s)\n' % (n, b, ', '.join(args))
    return {'name': 'g_%d' % n, 'builtin': b, 'way': [list(pos), [list(x) for x in kw]], 'src': src, 'entry': 'g_%d' % n}
