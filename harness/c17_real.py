"""C17 helper: the checks that are RUN on the real objects (a pure model cannot express them), and the parallel worker.

For one conversion `PyToPy().transform(f, ProgramContext(options))` (fresh transpiler, no cache) this module observes
  final_tree   the object returned by `transform_ast` (instance-attribute hook on the transpiler)
  nodes/source what `loader.load_ast` was given and what it wrote (module-attribute hook)
  module, converted function, source map, the exception if any and the stage it came from
and decides
  (i)   no AST node object occurs twice in final_tree / in the wrapped module tree (walk with id(); instances of
        ast.expr_context / operator / unaryop / boolop / cmpop are exempt: CPython's parser itself hands out one shared
        instance per kind, e.g. every `Load` of a parsed tree is the same object);
  (ii)  `compile()` of the real tree succeeds (this runs CPython's own AST validator, Python/ast.c, which checks every
        expression context) — the Lean-verified `ctxOk` is run by the caller on the serialised tree;
  (iii) `D(ast.parse(parser.unparse(tree))) == D(tree)` where D = `struct_dump` below;
  (iv)  (separately, through the public API) `to_code(f)` is the text of the module loaded for `to_graph(f)`;
  (v)   the conversion did not fail after `transform_ast` returned (unparse / import / source map), in particular not with
        "Inconsistent ASTs detected"; the source map points into the loaded file and into the original function.
"""
import ast, inspect, os, signal, sys, textwrap, traceback, warnings

import common
import pyast
import progen
import c17_templates as ct

SHARED_OK = (ast.expr_context, ast.operator, ast.unaryop, ast.boolop, ast.cmpop)


# ------------------------------------------------------------------------------------------------ (iii) structural dump
def struct_dump(node):
    """Structure of a tree as nested tuples.  Compared:  node class, every field in `_fields` whose name does not start
    with '_' (malt stores its annotations in a field named `___pyct_anno` that it appends to `_fields`), constants by
    (type name, repr), contexts/operators by class name, lists in order.
    NOT compared, because `ast.unparse` cannot represent them or `ast.parse` does not reproduce them:
      * line/column attributes (not in `_fields`);
      * `type_comment` (ast.parse drops type comments unless asked);
      * a field that is None, missing or an empty list (hand-built nodes omit optional fields such as `type_params`,
        `returns`, `kind`; the parser fills them with None/[]): such a field is left out on both sides.
    `Constant.kind` IS compared when set ('u' prefixes are printed by ast.unparse)."""
    if isinstance(node, ast.AST):
        if isinstance(node, SHARED_OK):
            return type(node).__name__
        out = [type(node).__name__]
        for f in node._fields:
            if f.startswith('_') or f == 'type_comment':
                continue
            v = getattr(node, f, None)
            if v is None or (isinstance(v, (list, tuple)) and len(v) == 0):
                continue
            out.append((f, struct_dump(v)))
        return tuple(out)
    if isinstance(node, (list, tuple)):
        return ('list',) + tuple(struct_dump(x) for x in node)
    return (type(node).__name__, repr(node))


def first_diff(a, b, path=''):
    if a == b:
        return None
    if isinstance(a, tuple) and isinstance(b, tuple) and a and b and a[0] == b[0] and len(a) == len(b):
        for i, (x, y) in enumerate(zip(a, b)):
            d = first_diff(x, y, path + '/' + (str(a[0]) if i == 0 else (x[0] if isinstance(x, tuple) and x and isinstance(x[0], str) else str(i))))
            if d:
                return d
    return '%s: %s  VS  %s' % (path, str(a)[:300], str(b)[:300])


# ------------------------------------------------------------------------------------------------ (i) node identity
def duplicate_nodes(roots):
    """AST node objects reachable more than once through the fields of the tree(s). -> list of descriptions"""
    seen = {}
    dups = []
    stack = [(r, 'root') for r in (roots if isinstance(roots, (list, tuple)) else [roots])]
    while stack:
        n, where = stack.pop()
        if isinstance(n, ast.AST):
            if isinstance(n, SHARED_OK):
                continue
            k = id(n)
            if k in seen:
                dups.append('%s reached via %s and via %s' % (type(n).__name__, seen[k], where))
                continue
            seen[k] = where
            for f in n._fields:
                if f.startswith('_'):
                    continue
                v = getattr(n, f, None)
                if isinstance(v, (ast.AST, list, tuple)):
                    stack.append((v, '%s.%s' % (type(n).__name__, f)))
        elif isinstance(n, (list, tuple)):
            for i, x in enumerate(n):
                if isinstance(x, (ast.AST, list, tuple)):
                    stack.append((x, '%s[%d]' % (where, i)))
    return dups, len(seen)


# ------------------------------------------------------------------------------------------------ one observed conversion
class Observed(object):
    def __init__(self):
        self.final_tree = None
        self.nodes = None
        self.source = None
        self.module = None
        self.converted = None
        self.source_map = None
        self.error = None
        self.stage = 'parse'       # parse -> passes -> load -> done
        self.calls = []


def observe_conversion(fn, options):
    from malt.core import converter
    from malt.impl import api
    from malt.pyct import loader
    ob = Observed()
    t = api.PyToPy()
    orig_transform_ast = t.transform_ast

    def transform_ast(node, ctx):
        ob.stage = 'passes'
        out = orig_transform_ast(node, ctx)
        ob.final_tree = out
        ob.stage = 'load'
        return out
    t.transform_ast = transform_ast
    orig_load_ast = loader.load_ast

    def load_ast(nodes, *a, **k):
        ob.nodes = nodes
        res = orig_load_ast(nodes, *a, **k)
        ob.source = res[1]
        return res
    loader.load_ast = load_ast
    try:
        with ct.capture(ob.calls):
            try:
                converted, module, source_map = t.transform(fn, converter.ProgramContext(options=options))
                ob.converted, ob.module, ob.source_map = converted, module, source_map
                ob.stage = 'done'
            except Exception as e:      # noqa
                ob.error = e
    finally:
        loader.load_ast = orig_load_ast
    return ob


class TreeSer(pyast.Ser):
    """final-tree serialiser for the Lean checker: an unset / foreign ctx is sent as `Unset` (rejected by the parser)"""

    def ctx(self, node):
        return ct._CTXN.get(type(getattr(node, 'ctx', None)), 'Unset')


def check_tree(tree, what, fails):
    """(i), (ii-compile), (iii) on one real tree (a statement node or a list of statements)."""
    from malt.pyct import parser
    stats = {}
    roots = list(tree) if isinstance(tree, (list, tuple)) else [tree]
    if len(roots) == 1 and isinstance(roots[0], ast.expr):
        # a lambda entity: transform_ast returns the Lambda expression itself; judged as an expression statement
        roots = [ast.Expr(value=roots[0])]
    dups, nn = duplicate_nodes(roots)
    stats['nodes'] = nn
    if dups:
        fails.append(('node-object-occurs-twice:' + what, dups[:5]))
    try:
        src = parser.unparse(tree, include_encoding_marker=False)
    except RecursionError:
        stats['recursion_limit'] = 1
        return stats
    except Exception as e:
        fails.append(('unparse-raises:' + what, '%s: %s' % (type(e).__name__, str(e)[:300])))
        return stats
    try:
        with warnings.catch_warnings():
            warnings.simplefilter('ignore')
            for r in roots:
                ast.fix_missing_locations(r)
            compile(ast.Module(body=roots, type_ignores=[]), '<c17:%s>' % what, 'exec')
    except RecursionError:
        stats['recursion_limit'] = 1
    except Exception as e:
        fails.append(('compile-of-tree-fails:' + what, '%s: %s' % (type(e).__name__, str(e)[:300])))
    try:
        with warnings.catch_warnings():
            warnings.simplefilter('ignore')
            back = ast.parse(src).body
    except RecursionError:
        stats['recursion_limit'] = 1
        return stats
    except SyntaxError as e:
        fails.append(('unparsed-text-does-not-parse:' + what, '%s | line: %r' % (str(e)[:200], (e.text or '')[:200])))
        return stats
    a, b = struct_dump(roots), struct_dump(back)
    if a != b:
        fails.append(('reparse-differs:' + what, first_diff(a, b)))
    stats['src_lines'] = src.count('\n') + 1
    return stats


def check_source_map(ob, fn, fails):
    if ob.source_map is None:
        return 0
    try:
        nlines = ob.source.count('\n') + 1
        # by code object: inspect.getsourcelines(fn) would follow fn.__wrapped__ to another function
        olines, ostart = inspect.getsourcelines(fn.__code__)
        ofile = fn.__code__.co_filename
        bad = []
        nforeign = 0
        for loc, org in ob.source_map.items():
            if loc.filename == ob.module.__file__:
                if not (1 <= loc.lineno <= nlines):
                    bad.append('key line %s outside the loaded file (%d lines)' % (loc.lineno, nlines))
                if org.loc.filename == ofile and not (ostart <= org.loc.lineno < ostart + len(olines)):
                    bad.append('origin line %s outside the function (%d..%d)' % (org.loc.lineno, ostart, ostart + len(olines) - 1))
            else:
                # Entries keyed by ANOTHER file: origin_info.copy_origin walks with ast.walk and so also annotates the ctx
                # objects, which the CPython parser shares between all trees (one `Load()` for the original, the template
                # and the re-parsed tree, across conversions); create_source_map then reads a stale ORIGIN off them.  Such
                # keys never name the loaded file, so they cannot mis-map a generated line; they are counted, and
                # reported to C12 (error locations), not judged here.
                nforeign += 1
        if bad and inspect.unwrap(fn) is not fn and all(b.startswith('origin line') for b in bad):
            # origin_info.resolve_entity locates the entity with inspect.getsourcelines, which follows __wrapped__, while
            # parse_entity reads the wrapper's own source: for a functools.wraps wrapper every origin is shifted into the
            # WRAPPED function's lines.  A location defect of its own cause (not tree vs printed form): counted here and
            # reported to C12, not judged.
            ob.wrapped_origin_shift = len(bad)
            bad = []
        if bad:
            fails.append(('source-map-out-of-range', bad[:4]))
        return len(ob.source_map) - nforeign
    except Exception as e:
        fails.append(('source-map-check-error', repr(e)))
        return 0


def check_api_text(fn, recursive, feats, fails, stats):
    """(iv) through the public API: to_code(f) is the text of the function in the module loaded for to_graph(f)."""
    import malt
    from malt.impl import api
    captured = {}
    tp = api._TRANSPILER
    orig = tp.transform_ast

    def transform_ast(node, ctx):
        out = orig(node, ctx)
        captured['tree'] = out
        return out
    tp.transform_ast = transform_ast
    try:
        try:
            conv = api.to_graph(fn, recursive=recursive, experimental_optional_features=feats)
            code = api.to_code(fn, recursive=recursive, experimental_optional_features=feats)
        except Exception as e:
            stats['api_error'] = type(e).__name__
            return None
    finally:
        del tp.transform_ast
    # `converted.__module__` is the ORIGINAL module's name (the function is instantiated over the original globals);
    # the module that was loaded for it is the one registered by loader.load_source under the generated file's name.
    gen_file = conv.__code__.co_filename
    mod = sys.modules.get(os.path.basename(gen_file)[:-3])
    if mod is None or getattr(mod, '__file__', None) != gen_file or not os.path.exists(gen_file):
        fails.append(('loaded-module-not-found', '%r' % (gen_file,)))
        return None
    if inspect.getsourcefile(conv) != gen_file:
        fails.append(('getsourcefile-is-not-the-loaded-module', '%r vs %r' % (inspect.getsourcefile(conv), gen_file)))
    with open(mod.__file__, encoding='utf-8') as f:
        text = f.read()
    lines = text.split('\n')
    tree = ast.parse(text)
    if conv.__name__ == '<lambda>':
        stats['api_lambda_entity'] = 1
        return code
    cands = [n for n in ast.walk(tree) if isinstance(n, ast.FunctionDef) and n.name == conv.__name__
             and n.lineno == conv.__code__.co_firstlineno]
    if len(cands) != 1:
        fails.append(('converted-function-not-located-in-module-file', '%s:%d candidates=%d' % (
            conv.__name__, conv.__code__.co_firstlineno, len(cands))))
        return None
    node = cands[0]
    seg = '\n'.join(lines[node.lineno - 1:node.end_lineno]) + '\n'
    want = textwrap.dedent(seg)
    if code.rstrip('\n') != want.rstrip('\n'):
        norm = lambda s: [l.strip() for l in s.strip('\n').split('\n')]    # noqa: E731
        if norm(code) == norm(seg):
            stats['to_code_ws_only'] = 1
        else:
            fails.append(('to_code-is-not-the-loaded-text', first_text_diff(code, want)))
    if want[:1] in ' \t':
        stats['to_code_not_fully_dedented'] = 1     # a docstring line at a smaller indent limits textwrap.dedent
    if conv.__code__.co_filename != mod.__file__:
        fails.append(('code-object-not-from-module-file', '%s vs %s' % (conv.__code__.co_filename, mod.__file__)))
    # the function text in the file is the tree transform_ast returned (renamed by the transpiler)
    if 'tree' in captured:
        a, b = struct_dump(captured['tree']), struct_dump(node)
        if a != b:
            fails.append(('loaded-text-differs-from-transformed-tree', first_diff(a, b)))
        stats['api_tree_compared'] = 1
    # and what runs is compiled from that file: same code as compiling the file text again
    try:
        with warnings.catch_warnings():
            warnings.simplefilter('ignore')
            top = compile(text, mod.__file__, 'exec')
        found = find_code(top, conv.__code__.co_name, conv.__code__.co_firstlineno)
        if found is None or not same_code(found, conv.__code__):
            fails.append(('running-code-is-not-the-compiled-file-text', conv.__code__.co_name))
    except Exception as e:
        fails.append(('module-file-does-not-compile', repr(e)[:200]))
    return code


def first_text_diff(a, b):
    la, lb = a.split('\n'), b.split('\n')
    for i, (x, y) in enumerate(zip(la, lb)):
        if x != y:
            return 'line %d: %r  VS  %r' % (i + 1, x[:160], y[:160])
    return 'lengths %d vs %d lines' % (len(la), len(lb))


def find_code(code, name, firstlineno):
    for c in code.co_consts:
        if hasattr(c, 'co_code'):
            if c.co_name == name and c.co_firstlineno == firstlineno:
                return c
            r = find_code(c, name, firstlineno)
            if r is not None:
                return r
    return None


def same_code(a, b):
    if a.co_code != b.co_code or a.co_names != b.co_names or a.co_varnames != b.co_varnames or len(a.co_consts) != len(b.co_consts):
        return False
    for x, y in zip(a.co_consts, b.co_consts):
        if hasattr(x, 'co_code') != hasattr(y, 'co_code'):
            return False
        if hasattr(x, 'co_code'):
            if not same_code(x, y):
                return False
        elif repr(x) != repr(y):
            return False
    return True


# ------------------------------------------------------------------------------------------------ configurations
def all_configs():
    """16 = subsets of {BUILTIN_FUNCTIONS, EQUALITY_OPERATORS, LISTS} x recursive"""
    out = []
    names = ['BUILTIN_FUNCTIONS', 'EQUALITY_OPERATORS', 'LISTS']
    for mask in range(8):
        fs = tuple(n for i, n in enumerate(names) if mask >> i & 1)
        for rec in (True, False):
            out.append((rec, fs))
    return out


def cfg_key(cfg):
    return ('R' if cfg[0] else 'N') + ''.join(n[0] for n in cfg[1])


def make_options(cfg):
    from malt.core import converter
    feats = tuple(getattr(converter.Feature, n) for n in cfg[1]) or None
    return converter.ConversionOptions(recursive=cfg[0], user_requested=True, optional_features=feats), feats


C17_STAGE_ERRORS = ('load',)     # an exception after transform_ast returned is a tree/printed-form inconsistency


def run_case(mod, prog_key, source, cfg, want_api, want_lines):
    """One (program, configuration).  Returns a JSON-able record."""
    fn = mod.f
    options, feats = make_options(cfg)
    rec = {'key': '%s/%s' % (prog_key, cfg_key(cfg)), 'prog': prog_key, 'cfg': cfg_key(cfg), 'fails': [], 'stats': {},
           'calls': [], 'tree': None, 'stage': None, 'error': None}
    fails = rec['fails']
    ob = observe_conversion(fn, options)
    rec['stage'] = ob.stage
    if ob.error is not None:
        msg = str(ob.error)
        rec['error'] = '%s: %s' % (type(ob.error).__name__, msg[:200])
        if 'Inconsistent ASTs detected' in msg:
            fails.append(('inconsistent-asts-detected', msg[:600]))
        elif ob.stage in C17_STAGE_ERRORS:
            fails.append(('conversion-fails-after-transform_ast', rec['error']))
    if ob.final_tree is not None:
        st = check_tree(ob.final_tree, 'transform_ast', fails)
        rec['stats'].update(st)
        try:
            ser = TreeSer(ob.final_tree)
            sx = ser.sexp if isinstance(ob.final_tree, ast.stmt) else ['Expr', 0, ser.sexp]
            rec['tree'] = ct.tostr(sx)
            rec['stats']['kinds'] = dict(ser.kinds)
        except Exception as e:
            fails.append(('final-tree-not-serialisable', repr(e)[:300]))
    if ob.nodes is not None:
        wfails = []
        check_tree(list(ob.nodes) if isinstance(ob.nodes, (list, tuple)) else ob.nodes, 'module', wfails)
        fails.extend(wfails)
    if ob.stage == 'done':
        # the file that was imported holds exactly the unparsed text
        try:
            with open(ob.module.__file__, encoding='utf-8') as f:
                if f.read() != ob.source:
                    fails.append(('module-file-differs-from-unparsed-source', ob.module.__file__))
        except Exception as e:
            fails.append(('module-file-unreadable', repr(e)[:200]))
        rec['stats']['source_map'] = check_source_map(ob, fn, fails)
        if getattr(ob, 'wrapped_origin_shift', 0):
            rec['stats']['wrapped_origin_shift'] = 1
        if want_api:
            check_api_text(fn, cfg[0], feats, fails, rec['stats'])
    rec['stats']['ncalls'] = len(ob.calls)
    if want_lines or fails:
        for c in ob.calls:
            line = ct.request_line(c)
            if line is None:
                rec['calls'].append(None)
                continue
            rec['calls'].append((line, c.kind, c.error, ct.tostr(c.result) if c.kind in ('stmts', 'expr') else None, c.start,
                                 c.repeats, c.shared, list(c.site), c.fn, c.unset_ctx, c.template))
    return rec


CASE_TIMEOUT_S = 120


class CaseTimeout(BaseException):
    pass


def _on_alarm(signum, frame):
    raise CaseTimeout()


def worker(job):
    """job: dict(items=[(prog_key, source, [cfg...], want_api, want_lines)], repo=...)"""
    import tempfile, shutil
    warnings.simplefilter('ignore')
    signal.signal(signal.SIGALRM, _on_alarm)
    if common.REPO not in sys.path:
        sys.path.insert(0, common.REPO)
    out = []
    scratch = tempfile.mkdtemp(prefix='c17w_')
    old_tmp = tempfile.tempdir
    tempfile.tempdir = scratch          # loader.load_source writes its module files here; removed below
    try:
        ws = progen.Workspace()
        try:
            for prog_key, source, cfgs, want_api, want_lines in job['items']:
                p = progen.Program(source, [], [], 'job')
                try:
                    mod = ws.load(p)
                except Exception as e:
                    out.append({'key': prog_key, 'prog': prog_key, 'cfg': '-', 'fails': [], 'stats': {}, 'calls': [], 'tree': None,
                                'stage': 'import', 'error': 'program does not import: %r' % (e,)})
                    continue
                for cfg in cfgs:
                    try:
                        signal.alarm(CASE_TIMEOUT_S)
                        try:
                            out.append(run_case(mod, prog_key, source, tuple(cfg), want_api, want_lines))
                        finally:
                            signal.alarm(0)
                    except CaseTimeout:
                        out.append({'key': '%s/%s' % (prog_key, cfg_key(cfg)), 'prog': prog_key, 'cfg': cfg_key(cfg), 'fails': [],
                                    'stats': {'case_timeout': 1}, 'calls': [], 'tree': None, 'stage': 'timeout',
                                    'error': 'no result within %d s (counted, not judged)' % CASE_TIMEOUT_S})
                    except RecursionError:
                        out.append({'key': '%s/%s' % (prog_key, cfg_key(cfg)), 'prog': prog_key, 'cfg': cfg_key(cfg), 'fails': [],
                                    'stats': {}, 'calls': [], 'tree': None, 'stage': 'harness', 'error': 'RecursionError in harness'})
                    except Exception:
                        out.append({'key': '%s/%s' % (prog_key, cfg_key(cfg)), 'prog': prog_key, 'cfg': cfg_key(cfg), 'fails': [],
                                    'stats': {}, 'calls': [], 'tree': None, 'stage': 'harness',
                                    'error': 'HARNESS ' + traceback.format_exc()[-600:]})
                ws.unload(mod)
        finally:
            ws.close()
    finally:
        tempfile.tempdir = old_tmp
        shutil.rmtree(scratch, ignore_errors=True)
    return out


if __name__ == '__main__' and '--hashseed-worker' in sys.argv:
    # re-run a slice in a fresh interpreter with the PYTHONHASHSEED given by the caller (set iteration order feeds the
    # order of nonlocal declarations / state variables in the generated code)
    import json
    sys.path.insert(0, common.REPO)
    job = json.loads(sys.stdin.read())
    json.dump(worker(job), sys.stdout)
