"""Direct oracles of C06 / C07 on the REAL annotations, from the event log of an instrumented run (dataflow_instr).

For every activation of `f` or of a function nested in it:
  trace          the executed CFG-node sequence with per-visit variable events (lambda-expression nodes, whose evaluation
                 has no event of its own, are filled in from the real graph)
  C06 reads      every Name load that carries DEFINITIONS: the node that actually produced the value must be among them
  C06 entries    on every executed entry of an If/For/While/Try: every owned local bound at that moment ∈ DEFINED_VARS_IN
  C07            for every read (direct, or by a function nested in this one) of a value in place since step i0:
                 for every step i0 <= i < j: v ∈ live_out[node_i] and v ∈ live_in[node_{i+1}]  (the real Analyzer state),
                 v ∈ LIVE_VARS_OUT(s) for every statement s left after step i, v ∈ LIVE_VARS_IN of the statement entered at i+1
Failing observations are returned with everything needed to replay and to classify them (the trace as sent to Lean).
"""
import ast

import dataflow_common as dc


class ProgramData:
    """per analysed program: graph data of every function graph, annotation tables"""

    def __init__(self, instr):
        self.instr = instr
        an = instr.analysis
        self.an = an
        self.gd = {}
        self.fn_nodes = {}
        self.name_defs = {}      # name node id -> (var, ctx, cfg, set(pairs), graph fid)
        self.node_kind = {}
        for fn, g in an.functions():
            d = an.graph_data(fn, g)
            self.gd[d['fn']] = d
            self.fn_nodes[d['fn']] = fn
        for fn, g in an.functions():           # after all gen_maps are known
            fid = an.nid(fn)
            for (i, v, ctx, c, pairs) in an.name_definitions(fn, g):
                self.name_defs[i] = (v, ctx, c, set(pairs), fid)
        # info for every function of the tree (also those that reach nowhere): needed to classify closure reads
        anno, annos = an.m['anno'], an.m['annos']
        self.all_fns = {}
        for fn in self.fn_nodes.values():
            fs = anno.getanno(fn, annos.NodeAnno.ARGS_AND_BODY_SCOPE)
            self.all_fns[an.nid(fn)] = {'parent': an.fn_parent(fn), 'is_lambda': isinstance(fn, ast.Lambda), 'read': an.vids(fs.read), 'bound': an.vids(fs.bound),
                                        'nonlocals': an.vids(fs.nonlocals), 'globals': an.vids(fs.globals), 'modified': an.vids(fs.modified)}
        for d in self.gd.values():
            for fid, f in self.all_fns.items():
                d['fns'].setdefault(fid, f)
            self.sets(d)
        QN = an.m['qual_names'].QN
        self._qn = QN
        # Name nodes in the body of a class statement (run while the ClassDef node is visited; recorded in no node's Scope)
        # and in the `arguments` (default values, annotations) of a nested def (evaluated by the enclosing function)
        self.class_body_names, self.nested_def_arg_names = set(), set()
        for fn in self.fn_nodes.values():
            for n in ast.walk(fn):
                if isinstance(n, ast.ClassDef):
                    for st in n.body:
                        for m in ast.walk(st):
                            if isinstance(m, ast.Name):
                                self.class_body_names.add(an.nid(m))
                if isinstance(n, ast.FunctionDef) and n is not an.fnode:
                    for m in ast.walk(n.args):
                        if isinstance(m, ast.Name):
                            self.nested_def_arg_names.add(an.nid(m))
        # Name nodes inside `except <type>:` expressions (evaluated while an exception is dispatched, by no CFG node)
        self.except_type_names = set()
        for fn in self.fn_nodes.values():
            for n in ast.walk(fn):
                if isinstance(n, ast.ExceptHandler) and n.type is not None:
                    for m in ast.walk(n.type):
                        if isinstance(m, ast.Name):
                            self.except_type_names.add(an.nid(m))

    def sets(self, d):
        d['_edges'] = set(map(tuple, d['edges']))
        d['_succ'] = {}
        for a, b in d['edges']:
            d['_succ'].setdefault(a, []).append(b)
        if 'live' in d:
            d['_lin'] = {n: set(v) for n, v in d['live']['in'].items()}
            d['_lout'] = {n: set(v) for n, v in d['live']['out'].items()}
        for s in d['stmts'].values():
            s['_inside'] = set(s['inside'])
        d['_decl_nodes'] = {n for n, e in d['info'].items() if e['kind'] in ('Global', 'Nonlocal')}
        d['_lambda_nodes'] = {n for n, e in d['info'].items() if e['kind'] == 'Lambda'}

    def vid(self, name):
        return self.an.qn_ids.get(self._qn(name))

    def jump_in_handler(self, a, b):
        """node a is a return/break/continue lexically inside an `except` body of a try statement that has a `finally`
        body containing node b (the situation in which the pinned cfg.py wires the jump past the finally body — property C05)"""
        if not hasattr(self, '_par'):
            self._par = {}
            for p in ast.walk(self.an.fnode):
                for c in ast.iter_child_nodes(p):
                    self._par[id(c)] = p
        na, nb = self.an.ser.nodes.get(a), self.an.ser.nodes.get(b)
        if not isinstance(na, (ast.Return, ast.Break, ast.Continue)):
            return False
        x = na
        while x is not None:
            p = self._par.get(id(x))
            if isinstance(p, (ast.FunctionDef, ast.Lambda)):
                return False
            if isinstance(p, ast.ExceptHandler):
                t = self._par.get(id(p))
                if isinstance(t, ast.Try) and t.finalbody:
                    y = nb
                    while y is not None:
                        if any(y is s for s in t.finalbody):
                            return True
                        y = self._par.get(id(y))
            x = p
        return False


def repair(d, steps):
    """insert the silent lambda-expression nodes; returns (new steps, old index -> new index)"""
    out, idx = [], []
    lam = d['_lambda_nodes']
    for k, st in enumerate(steps):
        if out:
            a, b = out[-1]['node'], st['node']
            if (a, b) not in d['_edges'] and lam:
                # BFS from a through lambda nodes only
                prev = {a: None}
                q = [a]
                found = None
                while q and found is None:
                    x = q.pop(0)
                    for y in d['_succ'].get(x, ()):
                        if y == b and x != a:
                            found = x
                            break
                        if y in lam and y not in prev:
                            prev[y] = x
                            q.append(y)
                if found is not None:
                    chain = []
                    x = found
                    while x != a:
                        chain.append(x)
                        x = prev[x]
                    for y in reversed(chain):
                        out.append({'node': y, 'reads': set(), 'writes': set(), 'dels': set(), 'fwrites': set(), 'creads': set(), 'silent': True})
        idx.append(len(out))
        out.append(st)
    return out, idx


class ActView:
    """one activation, repaired, with names mapped to the analysis' variable ids"""

    def __init__(self, pd, act):
        self.pd, self.act = pd, act
        self.d = pd.gd.get(act.fid)
        self.ok = self.d is not None and bool(act.steps)
        if not self.ok:
            return
        self.steps, self.idx = repair(self.d, act.steps)
        self.nodes = [s['node'] for s in self.steps]
        # An explicit exception that propagates through a `finally` body continues along a route the CFG does not contain;
        # the properties set the effects of `finally` during propagation aside: the walk ends at the raise (the tracer
        # records where: Act.cut).
        self.cut = len(self.steps)
        if act.cut is not None and act.cut < len(act.steps):
            self.cut = self.idx[act.cut - 1] + 1
        self.truncated = self.cut < len(self.steps)
        if self.truncated:
            self.steps = self.steps[:self.cut]
            self.nodes = self.nodes[:self.cut]
        self.is_path = all((a, b) in self.d['_edges'] for a, b in zip(self.nodes, self.nodes[1:]))
        self.nonpath_kind = None
        if not self.is_path:
            a, b = next((a, b) for a, b in zip(self.nodes, self.nodes[1:]) if (a, b) not in self.d['_edges'])
            self.nonpath_kind = 'jump_in_handler_of_try_with_finally' if pd.jump_in_handler(a, b) else 'other'

    def lean_steps(self):
        pd = self.pd
        out = []
        for s in self.steps:
            def vs(names):
                return sorted(v for v in (pd.vid(n) for n in names) if v is not None)
            cr = sorted((f, pd.vid(n)) for (f, n) in s['creads'] if pd.vid(n) is not None)
            out.append([s['node'], vs(s['reads']), vs(s['writes']), vs(s['dels']), vs(s['fwrites']), [list(c) for c in cr]])
        return out


def last_touch(view, k, name):
    """(kind, step) of the last step < k touching name: 'direct' | 'del' | 'foreign' | None"""
    for m in range(k - 1, -1, -1):
        s = view.steps[m]
        if name in s['fwrites']:
            return 'foreign', m
        if name in s['writes']:
            return 'direct', m
        if name in s['dels']:
            return 'del', m
    return None, None


# ---------------------------------------------------------------------------------------------
# C06
# ---------------------------------------------------------------------------------------------
def c06_observations(pd, tracer, stats):
    """yields failing observations: dict(kind='read'|'entry', act, view, query, detail, pre_class)"""
    fns = pd.instr.fns
    for act in tracer.acts:
        fs = fns[act.fid]
        view = ActView(pd, act) if not fs.is_lambda else None
        # ---- reads
        for (k, name_id, name, lw, own, ident) in act.reads:
            nd = pd.name_defs.get(name_id)
            if nd is None:
                stats['reads_without_DEFINITIONS'] += 1
                continue
            var, ctx, cfg, pairs, gfid = nd
            if ctx != 'Load':
                continue
            if view is not None and view.ok and view.idx[k] >= view.cut:
                stats['reads_after_propagation_through_finally'] += 1
                continue
            stats['reads'] += 1
            if fs.is_lambda:
                stats['reads_in_lambda'] += 1
                # annotated from the enclosing statement's state; parameters of the lambda have no definition at all
                if ident == act.aid:
                    yield {'kind': 'read', 'act': act, 'view': None, 'name': name, 'name_id': name_id, 'pre_class': 'read_inside_lambda_body',
                           'detail': 'lambda parameter %r read in the lambda body: DEFINITIONS=%s' % (name, sorted(pairs))}
                continue
            if lw is None:
                if ident == 'G' and name not in fs.globals_:
                    stats['reads_of_undeclared_globals'] += 1
                    continue      # module global / builtin never bound in the function: no definition to report
                if name in fs.globals_ or name in fs.nonlocals:
                    stats['reads_of_declared_outer'] += 1
                    if any(n in pd.gd[gfid]['_decl_nodes'] for (_, n) in pairs):
                        continue  # the declaration's definition stands for the binding made outside
                stats['reads_produced_outside'] += 1
                yield {'kind': 'read', 'act': act, 'view': view, 'name': name, 'name_id': name_id, 'pre_class': 'value_written_by_another_activation',
                       'detail': '%r read in %s: produced outside this activation, DEFINITIONS=%s' % (name, _fname(fs), sorted(pairs))}
                continue
            kind, j, nid = lw
            if kind == 'direct':
                if (var, nid) in pairs:
                    stats['reads_ok'] += 1
                    continue
                yield {'kind': 'read', 'act': act, 'view': view, 'name': name, 'name_id': name_id, 'k': k, 'var': var, 'writer_node': nid,
                       'anno': sorted(pairs), 'where': 'nested_def_args' if name_id in pd.nested_def_arg_names else None,
                       'detail': '%r read at node %d: produced by node %d, DEFINITIONS=%s' % (name, cfg, nid, sorted(pairs))}
            elif kind == 'foreign':
                stats['reads_produced_outside'] += 1
                yield {'kind': 'read', 'act': act, 'view': view, 'name': name, 'name_id': name_id, 'k': k, 'var': var, 'pre_class': 'value_written_by_another_activation',
                       'detail': '%r read at node %d: last written by another activation (function %s)' % (name, cfg, nid)}
            # 'del': reading it raises NameError (implicit exception)
        # ---- entries of compound statements
        if view is None or not view.ok:
            continue
        d = view.d
        owned = fs.bound
        for k_old in range(1, len(act.steps)):
            k = view.idx[k_old]
            if k >= view.cut:
                break
            nk, nprev = view.nodes[k], view.nodes[k - 1]
            for sid, s in d['stmts'].items():
                if s['defined_in'] is None or nk not in s['_inside'] or nprev in s['_inside']:
                    continue
                stats['entries'] += 1
                dv = set(s['defined_in'])
                for name in act.entries[k_old]:
                    if name not in owned:
                        continue
                    v = pd.vid(name)
                    stats['entry_vars'] += 1
                    if v is not None and v in dv:
                        continue
                    kind, m = last_touch(view, k, name)
                    o = {'kind': 'entry', 'act': act, 'view': view, 'name': name, 'k': k, 'sid': sid, 'var': v,
                         'detail': 'entering %s (id %d) with local %r bound, DEFINED_VARS_IN=%s' % (s['kind'], sid, name, sorted(pd.an.var_name(x) for x in dv))}
                    if kind == 'foreign':
                        o['pre_class'] = 'value_written_by_another_activation'
                    yield o


def _fname(fs):
    return getattr(fs.node, 'name', '<lambda>')


# ---------------------------------------------------------------------------------------------
# C07
# ---------------------------------------------------------------------------------------------
def _stmt_transitions(d, ni, nn):
    """statements left / entered on the step from node ni to node nn (cached per graph)"""
    cache = d.setdefault('_trans', {})
    r = cache.get((ni, nn))
    if r is None:
        ex = [(sid, s) for sid, s in d['stmts'].items() if s['live_out'] is not None and ni in s['_inside'] and nn not in s['_inside']]
        en = [(sid, s) for sid, s in d['stmts'].items()
              if s['live_in'] is not None and s['entry'] == nn and ni not in s['_inside'] and s['kind'] not in ('With',)]
        r = cache[(ni, nn)] = (ex, en)
    return r


def c07_observations(pd, tracer, stats):
    fns = pd.instr.fns
    for act in tracer.acts:
        view = ActView(pd, act)
        if not view.ok or 'live' not in view.d:
            continue
        d = view.d
        lin, lout = d['_lin'], d['_lout']
        seen = set()
        for (i0_old, j_old, name, reader, name_id, later) in act.live_obs:
            v = pd.vid(name)
            if v is None:
                continue
            j = view.idx[j_old]
            i0 = view.idx[i0_old]
            if j >= view.cut:
                stats['reads_after_propagation_through_finally'] += 1
                continue
            stats['reads'] += 1
            if reader is not None:
                stats['closure_reads'] += 1
            for i in range(i0, j):
                key = (i, v)
                if key in seen:
                    continue
                seen.add(key)
                stats['obligations'] += 1
                ni, nn = view.nodes[i], view.nodes[i + 1]
                bad = []
                if v not in lout.get(ni, ()):
                    bad.append('live_out[node %d]' % ni)
                if v not in lin.get(nn, ()):
                    bad.append('live_in[node %d]' % nn)
                # statement level
                ex, en = _stmt_transitions(d, ni, nn)
                for sid, s in ex:
                    stats['stmt_exit_obligations'] += 1
                    if v not in s['live_out']:
                        bad.append('LIVE_VARS_OUT(%s %d)' % (s['kind'], sid))
                for sid, s in en:
                    if v not in s['live_in']:
                        bad.append('LIVE_VARS_IN(%s %d)' % (s['kind'], sid))
                sm = d['simple'].get(nn)
                if sm is not None and sm['live_in'] is not None and v not in sm['live_in']:
                    bad.append('LIVE_VARS_IN(stmt %d)' % nn)
                if bad:
                    yield {'kind': 'live', 'act': act, 'view': view, 'name': name, 'i': i, 'j': j, 'var': v, 'reader': reader,
                           'reader_defined_later': later,
                           'where': 'except_type' if name_id in pd.except_type_names else
                                    ('class_body' if name_id in pd.class_body_names else None),
                           'detail': 'value of %r in place after step %d (node %d) is read at step %d (node %d)%s but is missing from %s' % (
                               name, i, ni, j, view.nodes[j], '' if reader is None else ' by nested function %d' % reader, ', '.join(bad))}
