"""setup_cmd: build, offline, everything the registered checks need (Props modules + per-property drivers)."""
import json, os, subprocess, sys
HERE = os.path.dirname(os.path.abspath(__file__))
VERIF = os.path.dirname(HERE)
with open(os.path.join(VERIF, 'MANIFEST.json')) as f:
    man = json.load(f)
targets = []
for c in man['checks']:
    p = c['property_id']
    if os.path.exists(os.path.join(VERIF, 'lean', 'MaltModel', 'Props', p + '.lean')):
        targets.append('MaltModel.Props.' + p)
    if os.path.exists(os.path.join(VERIF, 'lean', 'Driver', p + '.lean')):
        targets.append('drv_' + p.lower())
subprocess.run([sys.executable, os.path.join(VERIF, 'tools', 'extract.py')], check=True)
rc = subprocess.run(['lake', 'build'] + targets, cwd=os.path.join(VERIF, 'lean')).returncode
sys.exit(rc)
