"""setup_cmd: build, offline, everything the registered checks need (Props modules + per-property drivers)."""
import json, os, subprocess, sys
HERE = os.path.dirname(os.path.abspath(__file__))
VERIF = os.path.dirname(HERE)
with open(os.path.join(VERIF, 'MANIFEST.json')) as f:
    man = json.load(f)
targets = []
for c in man['checks']:
    p = c['property_id']
    if os.path.exists(os.path.join(VERIF, 'lean', 'MaltModel', 'Props', p + '.lean')):
        targets.append('MaltModel.Props.' + p)
    if os.path.exists(os.path.join(VERIF, 'lean', 'Driver', p + '.lean')):
        targets.append('drv_' + p.lower())
# further Props modules audited by C01 (listed in run_c01.MORE_PROPS)
import ast as _ast
for node in _ast.parse(open(os.path.join(HERE, 'run_c01.py')).read()).body:
    if isinstance(node, _ast.Assign) and getattr(node.targets[0], 'id', '') == 'MORE_PROPS':
        for m in _ast.literal_eval(node.value):
            if os.path.exists(os.path.join(VERIF, 'lean', m.replace('.', '/') + '.lean')) and any(c['property_id'] == 'C01' for c in man['checks']):
                targets.append(m)
subprocess.run([sys.executable, os.path.join(VERIF, 'tools', 'extract.py')], check=True)
rc = subprocess.run(['lake', 'build'] + targets, cwd=os.path.join(VERIF, 'lean')).returncode
sys.exit(rc)
