"""C19 helper: WHY a function falls outside the hypotheses of `ti_sound_partial` — distribution over the generated corpus
and over every function of /repo the real analysis accepts (driver op `c19.why`).

A function is
  modelled      if every reachable CFG node is covered by the model and the semantics (no `unsupported` reason): the theorem
                applies to it, for the names outside its taint set;
  fully proved  if in addition the least closed taint set is empty (no `taint` reason): the full statement holds for it.
"""
import ast, collections

import common
from common import sexp, parse_sexp
import progen
import c19_types as T
import c19_real as R


def repo_cases(limit=None, stride_seed=0):
    """(key, source, fname) for every module-level function and method of /repo (nested defs are analysed with their parent)."""
    out = []
    nested = set()
    fns = list(progen.repo_functions())
    for rf in fns:
        for n in ast.walk(rf.node):
            if n is not rf.node and isinstance(n, (ast.FunctionDef, ast.AsyncFunctionDef)):
                nested.add(id(n))
    for rf in fns:
        if id(rf.node) in nested:
            continue
        node = rf.node
        try:
            src = ast.unparse(node) + '\n'
        except Exception:
            continue
        out.append(('%s::%s' % (rf.path, rf.qualname), src, node.name))
    if limit is not None and len(out) > limit:
        step = len(out) / float(limit)
        off = (stride_seed % max(1, int(step)))
        out = [out[min(len(out) - 1, int(off + k * step))] for k in range(limit)]
    return out


def analyse_repo(source, fname):
    def rules_factory(ser):
        return T.Rules({}, {}, {}, ser.nodes)
    return R.Analysis(source, fname, rules_factory, {})


def why_line(an, fi, W, extra):
    return 'c19.why %s %s %s %s %s %s' % (sexp(an.env_sexp(fi)), sexp(an.graph_sexp(fi)), sexp(an.table_sexp(extra)),
                                           sexp(fi.reach), sexp(an.nmap_sexp(fi, 'in')), sexp(sorted(W)))


def inter_classes(an, taint, fi):
    """Classes of the inter-procedural taint seeds of a function (closure types that cannot be trusted, nonlocal
    re-binding by other functions): the per-function theorem takes these as hypotheses (`InitOk`, `W`)."""
    S = taint.get(fi.def_id, {})
    out = set()
    for x in getattr(an, 'taint_seeds', {}).get(fi.def_id, []):
        out |= {c.split(' ')[0] for c in S.get(x, ())}
    return sorted(out)


class Dist:
    def __init__(self):
        self.n = 0
        self.rejected = collections.Counter()
        self.diverged = 0
        self.modelled = 0
        self.full = 0
        self.unsup = collections.Counter()
        self.taint = collections.Counter()
        self.sole_unsup = collections.Counter()

    def add(self, unsup, taint):
        self.n += 1
        if not unsup:
            self.modelled += 1
            if not taint:
                self.full += 1
                self.last_full = True
                return self._rest(unsup, taint)
        self.last_full = False
        return self._rest(unsup, taint)

    def _rest(self, unsup, taint):
        for r in set(unsup):
            self.unsup[r] += 1
        if len(set(unsup)) == 1:
            self.sole_unsup[unsup[0]] += 1
        for r in set(taint):
            self.taint[r] += 1

    def summary(self, top=14):
        tot = self.n + sum(self.rejected.values()) + self.diverged
        pct = lambda k: round(100.0 * k / max(1, tot), 1)       # noqa: E731
        return {'functions': tot, 'rejected_by_the_real_analysis': dict(self.rejected.most_common(6)),
                'analysis_did_not_converge': self.diverged, 'accepted': self.n,
                'modelled': self.modelled, 'modelled_pct': pct(self.modelled),
                'fully_proved': self.full, 'fully_proved_pct': pct(self.full),
                'outside_model_because (functions having the reason)': dict(self.unsup.most_common(top)),
                'outside_model_for_this_reason_alone': dict(self.sole_unsup.most_common(8)),
                'taint_root_causes (functions having the reason)': dict(self.taint.most_common(top))}


def drive_why(run, jobs, dist, proved=None):
    """jobs: dicts with an, fi, W.  Answers resolver misses like run_c19.drive_with_misses."""
    pending = list(range(len(jobs)))
    rounds = 0
    for j in jobs:
        j.setdefault('extra', {})
    while pending and rounds < 25:
        rounds += 1
        answers = run.drive([why_line(jobs[k]['an'], jobs[k]['fi'], jobs[k]['W'], jobs[k]['extra']) for k in pending])
        nxt = []
        for k, a in zip(pending, answers):
            j = jobs[k]
            if a in ('bad-args', 'bad-op', 'bad-line'):
                dist.rejected['driver:' + a] += 1
                continue
            x = parse_sexp(a)
            f = {e[0]: e[1:] for e in x[1:]}
            if f.get('miss'):
                for m in f['miss']:
                    q = T.query_of_sexp(parse_sexp(m))
                    j['extra'][q] = j['an'].rules.answer(q)
                nxt.append(k)
            else:
                dist.add(list(f.get('unsupported', [])), list(f.get('taint', [])) + ['inter-procedural:' + c for c in j.get('inter', ())])
                if proved is not None and dist.last_full and 'key' in j:
                    proved.add(j['key'])
        pending = nxt


def repo_distribution(run, limit=None):
    dist = Dist()
    jobs = []
    for key, src, fname in repo_cases(limit, run.seed):
        try:
            an = analyse_repo(src, fname)
        except R.Unsupported as e:
            dist.rejected[str(e).split(':')[0]] += 1
            continue
        except (R.AnalysisTimeout, RecursionError):
            dist.diverged += 1
            continue
        except Exception as e:      # noqa: anything else the pinned pipeline raises on its own sources
            dist.rejected[type(e).__name__] += 1
            continue
        if an.diverged is not None:
            dist.diverged += 1
            continue
        try:
            taint, wsets = R.compute_taint(an)
        except Exception:
            taint, wsets = {}, {}
        for fi in an.fns:
            jobs.append({'an': an, 'fi': fi, 'W': wsets.get(fi.def_id, ()), 'inter': inter_classes(an, taint, fi)})
        if len(jobs) >= 150:
            drive_why(run, jobs, dist)
            jobs = []
    if jobs:
        drive_why(run, jobs, dist)
    return dist
