"""C19 — static type inference over-approximates the types that occur at run time.

1. direct oracle (needs no Lean): the REAL `type_inference.resolve` with a truthful resolver on generated typed programs;
   the program is executed instrumented; every logged run-time type must be in the `TYPES` set of that node where a set is
   reported; `CLOSURE_TYPES` of local functions must cover the captured variables' types at each call.
2. verified checkers on the REAL `Analyzer.in_/out` (`isTIFix`, `closCovers`, `taintClosed` of
   lean/MaltModel/Analysis/TypeInf.lean, proved sound in Props/C19.lean).
3. correspondence: the model's work-list analysis on the same graphs with the same resolver answers (replayed from a table)
   must give the same per-node type maps, `TYPES` and `CLOSURE_TYPES` annotations.
"""
import ast, json, os, random, sys, time
import common
from common import sexp, parse_sexp
import c19_types as T
import c19_gen as G
import c19_real as R
import c19_why as WHY

MODEL_FILES = ['MaltModel/Analysis/TypeInf.lean', 'MaltModel/Analysis/TypeInfSem.lean', 'MaltModel/Proofs/C19.lean', 'MaltModel/Proofs/C19Least.lean',
               'MaltModel/Proofs/C19Cex.lean', 'MaltModel/Drv/C19.lean']
KNOWN_CLASSES = R.CLASS_ORDER


class TooManyTimeouts(Exception):
    pass


def namespace():
    ns = {}
    exec(G.PRELUDE, ns)
    T.register_class(ns['ext_cm'])
    T.register_class(ns['ext_box'])
    return ns


def analyse(source, arg_types, ns):
    def rules_factory(ser):
        return T.Rules(dict(G.GLOBALS, **G.SHADOW_GLOBALS), G.EXTERNALS, dict(arg_types), ser.nodes)
    return R.Analysis(source, 'f', rules_factory, ns)


def fn_of_node(an):
    """serial id -> FnInfo of the function whose graph / body the node belongs to."""
    owner = {}

    def walk(n, fi):
        i = an.ser.id_of(n)
        if isinstance(n, ast.FunctionDef) and i in an.by_def:
            if i is not None and fi is not None:
                owner[i] = fi              # the def statement itself belongs to the enclosing function
            inner = an.by_def[i]
            if fi is None:
                owner[i] = inner
            for c in ast.iter_child_nodes(n):
                walk(c, inner)
            return
        if i is not None:
            owner[i] = fi
        for c in ast.iter_child_nodes(n):
            walk(c, fi)
    walk(an.fnode, None)
    return owner


def oracle(run, prog, an, tlog, clog, taint):
    """Compare the run-time type log with the annotations.  Returns statistics."""
    owner = fn_of_node(an)
    st = {'checked': 0, 'checked_untainted': 0, 'unknown': 0, 'fail': 0, 'closure_checked': 0}
    for sid, seen in sorted(tlog.items()):
        Tset = an.types_anno.get(sid)
        if Tset is None:
            st['unknown'] += 1
            continue
        node = an.ser.nodes[sid]
        fi = owner.get(sid)
        S = taint.get(fi.def_id, {}) if fi is not None else {}
        names = [node.arg] if isinstance(node, ast.arg) else ([node.id] if isinstance(node, ast.Name) else R.read_names(node))
        classes = set()
        for x in names:
            classes |= S.get(x, set())
        st['checked'] += 1
        if not classes:
            st['checked_untainted'] += 1
        bad = sorted((vd for vd in seen if not T.covers(Tset, vd)), key=repr)
        if bad:
            st['fail'] += 1
            cls = next((c for c in R.CLASS_ORDER if c in classes), None) or (sorted(classes)[0] if classes else None)
            run.fail('run-time type not in the inferred TYPES set',
                     {'program': prog.source, 'inputs': [list(i) for i in prog.inputs], 'arg_types': {k[1]: sorted(v) for k, v in prog.arg_types.items()},
                      'node_id': sid, 'expr': ast.unparse(node) if not isinstance(node, ast.arg) else node.arg,
                      'line': getattr(node, 'lineno', None), 'inferred': sorted(map(repr, Tset)), 'runtime': [repr(b) for b in bad],
                      'tainted_by': sorted(classes), 'key': prog.key, 'in_function': fi.def_id if fi is not None else None}, cls)
    for (dsid, name), seen in sorted(clog.items()):
        Tset = an.closure_anno.get(dsid, {}).get(name)
        if Tset is None:
            continue
        st['closure_checked'] += 1
        fi = an.by_def[dsid]
        classes = taint.get(fi.def_id, {}).get(name, set())
        bad = sorted((vd for vd in seen if not T.covers(Tset, vd)), key=repr)
        if bad:
            st['fail'] += 1
            cls = next((c for c in R.CLASS_ORDER if c in classes), None) or (sorted(classes)[0] if classes else None)
            run.fail('CLOSURE_TYPES do not cover the type of a captured variable at a call',
                     {'program': prog.source, 'inputs': [list(i) for i in prog.inputs], 'function': fi.fdef.name, 'name': name,
                      'inferred': sorted(map(repr, Tset)), 'runtime': [repr(b) for b in bad], 'tainted_by': sorted(classes),
                      'key': prog.key, 'in_function': fi.def_id}, cls)
    return st


def one_program(run, prog, ns, stats, want_cls=None):
    try:
        an = analyse(prog.source, prog.arg_types, ns)
    except R.AnalysisTimeout:
        run.fail('the real analysis ran into the wall-clock backstop', {'program': prog.source, 'key': prog.key}, None)
        return None
    except R.Unsupported as e:
        stats['unsupported'] = stats.get('unsupported', 0) + 1
        run.fail('the real analysis raised on a generated program: %s' % e,
                 {'program': prog.source, 'key': prog.key}, None)
        return None
    if an.diverged is not None:
        # class: the run exhibited the one non-monotone transition of the pinned transfer function (an assignment target
        # kept stale while its value was unknown, strongly updated once it became known) before it failed to converge
        a = an.diverged
        cls = R.UNBOUNDED_CLASS if a._unbounded else (R.DIVERGENCE_CLASS if a._nonmono else None)
        key = 'diverged_known' if cls else 'diverged_unexplained'
        stats[key] = stats.get(key, 0) + 1
        run.fail('the real analysis did not reach a fixed point within %d node visits (cap 3000 + 300 per CFG node; '
                 'successors visited in ascending node order)' % a._visits,
                 {'program': prog.source, 'inputs': [list(i) for i in prog.inputs], 'key': prog.key,
                  'function': str(a.scope.function_name), 'non_monotone_targets': sorted(a._nonmono),
                  'arg_types': {k[1]: sorted(v) for k, v in prog.arg_types.items()}}, cls)
        run.case(('prog', prog.key), True)
        if stats.get('diverged_unexplained', 0) >= 3:
            raise TooManyTimeouts()
        return an, {}, {}, {'checked': 0, 'checked_untainted': 0}
    taint, wsets = R.compute_taint(an)
    tlog, clog, outcomes = R.instrument_and_run(an, prog.inputs, ns)
    st = oracle(run, prog, an, tlog, clog, taint)
    for k, v in st.items():
        stats[k] = stats.get(k, 0) + v
    for o in outcomes:
        stats['outcome:' + o] = stats.get('outcome:' + o, 0) + 1
    for f in prog.features:
        stats['feature:' + f] = stats.get('feature:' + f, 0) + 1
    nontriv = st['checked'] >= 5 and any(f in prog.features for f in ('if', 'while', 'for', 'nested_def'))
    run.case(('prog', prog.key), nontriv)
    return an, taint, wsets, st


# ---------------------------------------------------------------------------------------------------------------
# Lean side: correspondence of the model's analysis and verified checkers on the real solution
# ---------------------------------------------------------------------------------------------------------------
def _fuel(fi):
    """Node visits the model may make: it follows the same schedule as the real run, so a little more than the real
    run needed is enough; for a run that hit the cap, the cap."""
    return R.visit_cap(len(fi.nodes)) if fi.diverged else 3 * fi.visits + 200


def lean_jobs(items):
    """items: (prog, an, taint, wsets) -> one job per analysed function."""
    jobs = []
    for prog, an, taint, wsets in items:
        for fi in an.fns:
            if fi.diverged and fi.an._unbounded:
                continue          # ever-deeper product types: nothing finite to send
            jobs.append({'prog': prog, 'an': an, 'fi': fi, 'extra': {}, 'S': sorted(taint.get(fi.def_id, {})),
                         'inter': WHY.inter_classes(an, taint, fi),
                         'W': sorted(wsets.get(fi.def_id, ())), 'seeds': getattr(an, 'taint_seeds', {}).get(fi.def_id, [])})
    return jobs


def _analyze_line(j):
    an, fi = j['an'], j['fi']
    return 'c19.analyze %s %s %s %d' % (sexp(an.env_sexp(fi)), sexp(an.graph_sexp(fi)), sexp(an.table_sexp(j['extra'])), _fuel(fi))


def _check_line(j):
    an, fi = j['an'], j['fi']
    clos = [[i, T.map_sexp(m)] for i, m in sorted(an.closure_anno.items())]
    return 'c19.check %s %s %s %s %s %s %s %s %s' % (
        sexp(an.env_sexp(fi)), sexp(an.graph_sexp(fi)), sexp(an.table_sexp(j['extra'])), sexp(fi.reach),
        sexp(an.nmap_sexp(fi, 'in')), sexp(an.nmap_sexp(fi, 'out')), sexp(clos), sexp(j['W']), sexp(j['S']))


def _taint_line(j):
    an, fi = j['an'], j['fi']
    return 'c19.taint %s %s %s %s %s %s' % (
        sexp(an.env_sexp(fi)), sexp(an.graph_sexp(fi)), sexp(an.table_sexp(j['extra'])), sexp(fi.reach),
        sexp(an.nmap_sexp(fi, 'in')), sexp(j['seeds']))


def drive_with_misses(run, jobs, mk_line, key):
    """Send one request per job; answer the resolver queries the table lacks; repeat until no misses."""
    pending = list(range(len(jobs)))
    rounds = 0
    while pending:
        rounds += 1
        if rounds > 25:
            raise common.InfraError('resolver replay did not converge')
        answers = run.drive([mk_line(jobs[k]) for k in pending])
        nxt = []
        for k, a in zip(pending, answers):
            j = jobs[k]
            if a in ('bad-args', 'bad-op', 'bad-line'):
                j[key] = None
                j[key + '_raw'] = a
                continue
            x = parse_sexp(a)
            fields = {f[0]: f[1:] for f in x[1:]}
            miss = fields.get('miss', [])
            if miss:
                for m in miss:
                    q = T.query_of_sexp(parse_sexp(m))
                    j['extra'][q] = j['an'].rules.answer(q)
                nxt.append(k)
            else:
                j[key] = fields
        pending = nxt
    return rounds


def _nmap(x):
    return {int(i): T.map_of_sexp(m) for i, m in x}


DIS_KEYS = ('ins', 'outs', 'annos', 'clos', 'finished', 'driver', 'defs_in')
BAD_KEYS = ('fix', 'cover', 'taint', 'least')


def correspondence(run, jobs, stats, dis):
    n = 0
    by_an = {}
    seen_an = set()
    for j in jobs:
        res = j.get('res')
        an, fi = j['an'], j['fi']
        if id(an) not in seen_an:
            seen_an.add(id(an))
            if an.diverged is None and an.defs_mismatch:
                dis['defs_in'].append({'program': j['prog'].source, 'key': j['prog'].key, 'mismatch': an.defs_mismatch[:3]})
        where = {'program': j['prog'].source, 'function': fi.fdef.name, 'key': j['prog'].key}
        if res is None:
            dis['driver'].append(dict(where, answer=j.get('res_raw')))
            continue
        if res['supported'][0] != 'True':
            stats['model_unsupported'] = stats.get('model_unsupported', 0) + 1
            continue
        if an.nonmono:
            stats['model_compared_nonmonotone'] = stats.get('model_compared_nonmonotone', 0) + 1
        n += 1
        if fi.diverged:
            stats['model_diverged_too'] = stats.get('model_diverged_too', 0) + (res['finished'][0] != 'True')
            if res['finished'][0] == 'True':
                dis['finished'].append(dict(where, note='real analysis hit the visit cap, the model finished'))
            continue
        if res['finished'][0] != 'True':
            dis['finished'].append(where)
            continue
        real_in = {d['id']: d['in'] for d in fi.nodes if d['id'] in fi.reach}
        real_out = {d['id']: d['out'] for d in fi.nodes if d['id'] in fi.reach}
        m_in, m_out = _nmap(res['ins'][0]), _nmap(res['outs'][0])
        if m_in != real_in:
            bad = sorted(set(m_in) ^ set(real_in)) or [i for i in real_in if m_in[i] != real_in[i]]
            dis['ins'].append(dict(where, nodes=bad[:4], model=repr({i: m_in.get(i) for i in bad[:2]}), real=repr({i: real_in.get(i) for i in bad[:2]})))
        if m_out != real_out:
            bad = sorted(set(m_out) ^ set(real_out)) or [i for i in real_out if m_out[i] != real_out[i]]
            dis['outs'].append(dict(where, nodes=bad[:4], model=repr({i: m_out.get(i) for i in bad[:2]}), real=repr({i: real_out.get(i) for i in bad[:2]})))
        # CLOSURE_TYPES of a local function accumulate over the analyses of ALL functions that read its name
        tot = by_an.setdefault(id(an), (an, {}, where, {}))[3]
        for i, m in _nmap(res['clos'][0]).items():
            cur = tot.setdefault(i, {})
            for k, v in m.items():
                cur[k] = cur.get(k, frozenset()) | v
        by_an.setdefault(id(an), (an, {}, where, {}))[1].update({int(i): T.set_of_sexp(t) for i, t in res['annos'][0]})
        stats['model_nodes'] = stats.get('model_nodes', 0) + len(real_in)
    for an, annos, where, tot in by_an.values():
        if an.diverged is None and all(j.get('res') and j['res']['supported'][0] == 'True' and j['res']['finished'][0] == 'True' for j in jobs if j['an'] is an):
            if annos != an.types_anno:
                bad = sorted(i for i in set(annos) | set(an.types_anno) if annos.get(i) != an.types_anno.get(i))
                dis['annos'].append(dict(where, function='*', nodes=bad[:5],
                                         model=repr({i: annos.get(i) for i in bad[:3]}), real=repr({i: an.types_anno.get(i) for i in bad[:3]})))
            stats['model_annotations'] = stats.get('model_annotations', 0) + len(an.types_anno)
            if tot != an.closure_anno:
                dis['clos'].append(dict(where, function='*', model=repr(tot), real=repr(an.closure_anno)))
    stats['model_functions_compared'] = stats.get('model_functions_compared', 0) + n
    run.evaluations += n


def checkers(run, jobs, stats, bad):
    """Verified checkers on the REAL Analyzer.in_/out and CLOSURE_TYPES; the taint set used to classify failures must be
    closed (theorem hypothesis) and least (nothing excused beyond what the hypothesis forces)."""
    n = 0
    for j in jobs:
        res = j.get('chk')
        fi = j['fi']
        if j['an'].diverged is not None:
            continue
        where = {'program': j['prog'].source, 'function': fi.fdef.name, 'key': j['prog'].key, 'S': j['S'], 'W': j['W']}
        if res is None:
            bad['fix'].append(dict(where, answer=j.get('chk_raw')))
            continue
        if res['supported'][0] != 'True':
            continue
        n += 1
        for k in ('fix', 'cover', 'taint'):
            if res[k][0] != 'True':
                bad[k].append(where)
        lt = j.get('lt')
        if lt is None or sorted(lt['least'][0]) != sorted(j['S']):
            bad['least'].append(dict(where, seeds=j['seeds'], least=None if lt is None else sorted(lt['least'][0])))
    stats['checker_functions'] = stats.get('checker_functions', 0) + n
    run.evaluations += n


def lean_chunk(run, items, stats, dis, bad, whyd=None, proved=None):
    jobs = lean_jobs(items)
    if whyd is not None:
        wj = [{'an': j['an'], 'fi': j['fi'], 'W': j['W'], 'inter': j['inter'], 'key': (j['prog'].key, j['fi'].def_id)} for j in jobs
              if j['an'].diverged is None]
        before = whyd.n
        WHY.drive_why(run, wj, whyd, proved)
    rounds = drive_with_misses(run, jobs, _analyze_line, 'res')
    stats['replay_rounds_max'] = max(stats.get('replay_rounds_max', 0), rounds)
    correspondence(run, jobs, stats, dis)
    live = [j for j in jobs if j['an'].diverged is None]
    drive_with_misses(run, live, _check_line, 'chk')
    drive_with_misses(run, live, _taint_line, 'lt')
    stats['replay_table_entries_added'] = stats.get('replay_table_entries_added', 0) + sum(len(j['extra']) for j in jobs)
    checkers(run, jobs, stats, bad)
    if jobs and len(run.samples) < 4:
        j = jobs[len(jobs) // 2]
        run.sample({'function': j['fi'].fdef.name, 'program': j['prog'].source, 'model_annotations': str((j.get('res') or {}).get('annos'))[:600],
                    'checkers': {k: v for k, v in (j.get('chk') or {}).items() if k != 'miss'}, 'taint_set': j['S']})


def check(run, only=None):
    run.rule = ('seeded random typed programs (c19_gen): functions over int/float/bool/str/list/tuple with assignments, tuple '
                'unpacking, if/while/for joins, re-typing on some path, nested functions reading/rebinding nonlocals, typed '
                'external and local calls; half of them "clean", half with 1-3 known hazards; a case = one program run on 4 '
                'inputs; non-trivial = at least 5 annotated expression occurrences executed and a join or a closure present')
    run.assumptions += [
        'the harness resolver is truthful: its operator rules are validated against CPython by sampling on every run; '
        'annotations written by the generator are true by construction',
        'run-time types are observed by wrapping expressions in a logging call (does not change evaluation order)',
        'the work list of GraphVisitor visits successors in the iteration order of a frozenset (unspecified); the harness fixes one legal order (ascending node id) for reproducibility, the model uses the same order',
        'the concrete semantics of lean/MaltModel/Analysis/TypeInfSem.lean (values, Eval, Step) as a description of CPython on the modelled fragment',
        'the CFG, activity scopes and reaching function definitions are taken from the real code as inputs (they are C05/C08 territory)',
    ]
    quick = run.tier == 'quick'
    run.build_and_audit('MaltModel.Props.C19', model_files=MODEL_FILES)
    ns = namespace()
    bad_rules = T.selftest_rules(run.rng)
    run.oblige('selftest:resolver-type-rules-truthful', 'selftest', not bad_rules, json.dumps([list(map(repr, b)) for b in bad_rules[:5]]))

    stats = {}
    items = []
    progs = []
    for name, cls, src, inputs in G.WITNESSES:
        progs.append((G.Program(src, 'f', inputs, ['witness'], [cls], 'witness:' + name, {}), cls))
    cdir = os.path.join(common.VERIF, 'corpus', 'C19')
    if os.path.isdir(cdir):
        for fn in sorted(os.listdir(cdir)):
            if fn.endswith('.json'):
                with open(os.path.join(cdir, fn)) as f:
                    c = json.load(f)
                progs.append((G.Program(c['program'], 'f', [tuple(i) for i in c['inputs']], ['corpus'], [], 'corpus:' + fn,
                                        {('f', k): frozenset(v) for k, v in c.get('arg_types', {}).items()}), None))
    if only is not None:
        progs = [(only, None)]
    wit_ok = {}
    n = 0
    dis = {k: [] for k in DIS_KEYS}
    bad = {k: [] for k in BAD_KEYS}
    sizes = {'cfg_nodes': [], 'functions': []}
    by_profile = {}

    whyd, proved = WHY.Dist(), set()

    def flush():
        if items and run.driver_ok:
            lean_chunk(run, items, stats, dis, bad, whyd, proved)
        del items[:]

    def record(prog, r):
        items.append((prog, r[0], r[1], r[2]))
        sizes['cfg_nodes'].append(sum(len(fi.nodes) for fi in r[0].fns))
        sizes['functions'].append(len(r[0].fns))
        if 'witness' in prog.features or 'corpus' in prog.features or 'replay' in prog.features:
            by_profile['witness/corpus'] = by_profile.get('witness/corpus', 0) + 1
        elif not prog.profile:
            by_profile['clean'] = by_profile.get('clean', 0) + 1
        else:
            by_profile['with_hazards'] = by_profile.get('with_hazards', 0) + 1
            for h in prog.profile:
                by_profile['hazard:' + h] = by_profile.get('hazard:' + h, 0) + 1
        if len(items) >= 100:
            flush()
    try:
        for prog, cls in progs:
            before = len(run.failing)
            r = one_program(run, prog, ns, stats)
            if r is not None:
                record(prog, r)
            if cls is not None:
                got = run.failing[before:]
                wit_ok[prog.key] = bool(got) and all(f['cls'] == cls for f in got)
        if wit_ok:
            run.cov['known_finding_witnesses_still_fail'] = wit_ok
        if only is None:
            n = 150 if quick else 800
            for prog in G.generate(run.rng, n, size=8 if quick else 10):
                r = one_program(run, prog, ns, stats)
                if r is not None:
                    record(prog, r)
                    if len(run.samples) < 2 and r[3]['checked'] > 20:
                        run.sample({'program': prog.source, 'inputs': [list(i) for i in prog.inputs], 'profile': prog.profile,
                                    'annotated_occurrences_checked': r[3]['checked'], 'untainted': r[3]['checked_untainted'],
                                    'tainted_names': {an_fi.fdef.name: sorted(r[1].get(an_fi.def_id, {})) for an_fi in r[0].fns}})
    except TooManyTimeouts:
        run.notes.append('stopped generating: the real analysis failed to converge, unexplained, on 3 programs')
    flush()
    if run.driver_ok:
        for k in DIS_KEYS:
            run.oblige('correspondence:c19.' + k, 'correspondence', not dis[k], json.dumps(dis[k][:2]))
        run.oblige('checker:isTIFix(real in_/out)', 'checker', not bad['fix'], json.dumps(bad['fix'][:2]))
        run.oblige('checker:closCovers(real CLOSURE_TYPES)', 'checker', not bad['cover'], json.dumps(bad['cover'][:2]))
        run.oblige('checker:taintClosed(class predicate = theorem hypothesis)', 'checker', not bad['taint'], json.dumps(bad['taint'][:2]))
        run.oblige('checker:leastTaint(class predicate excuses nothing more)', 'checker', not bad['least'], json.dumps(bad['least'][:2]))
        # theorem and classifier partition the inputs: a function inside the fully proved fragment (every node modelled,
        # empty taint set, analysis converged) has no failing input of ANY class, known or not
        inside = [f for f in run.failing if (f['case'].get('key'), f['case'].get('in_function')) in proved]
        run.oblige('model:proved-fragment-has-no-finding-class', 'model', not inside,
                   json.dumps([{'class': f['cls'], 'what': f['what'], 'program': f['case'].get('program')} for f in inside[:2]]))
        run.cov['why_outside_the_theorem:generated_corpus'] = whyd.summary()
        if only is None:
            rd = WHY.repo_distribution(run)
            run.cov['why_outside_the_theorem:repo_functions'] = rd.summary()
    else:
        run.oblige('correspondence:c19', 'correspondence', False, 'driver unavailable')
    by_cls = {}
    for f in run.failing:
        by_cls[str(f['cls'])] = by_cls.get(str(f['cls']), 0) + 1
    run.cov['failing_inputs_by_class'] = by_cls
    run.cov['programs_by_profile'] = by_profile
    if sizes['cfg_nodes']:
        sn = sorted(sizes['cfg_nodes'])
        run.cov['cfg_nodes_per_program'] = {'min': sn[0], 'median': sn[len(sn) // 2], 'max': sn[-1]}
        run.cov['functions_per_program'] = {'max': max(sizes['functions']), 'mean': round(sum(sizes['functions']) / len(sizes['functions']), 2)}
    run.cov['stats'] = stats
    run.cov['search'] = 'direct oracle (run-time type log vs TYPES / CLOSURE_TYPES) on %d generated programs x 4 inputs + %d witnesses/corpus cases' % (n, len(progs))


def replay(run, path):
    with open(path) as f:
        rep = json.load(f)
    print(json.dumps(rep, indent=1)[:4000])
    c = rep.get('case', {})
    if 'program' in c:
        prog = G.Program(c['program'], 'f', [tuple(i) for i in c.get('inputs', [()])], ['replay'], [], 'replay',
                         {('f', k): frozenset(v) for k, v in c.get('arg_types', {}).items()})
        check(run, only=prog)
    else:
        check(run)
    return run.finish()
