"""C20 — conversion options survive embedding in generated code and key the caches.

Tie: translator (Feature enum, ctor defaults, STANDARD_OPTIONS, call_options keyword sources) +
EXHAUSTIVE correspondence over all 2^3 x 2^|Feature| option values x spellings, + direct oracle.
"""
import ast, itertools, json, os, subprocess, sys
import common
from common import sexp, parse_sexp

MODEL_FILES = ['MaltModel/Rt/Options.lean', 'MaltModel/Generated/Options.lean']


def _malt():
    from malt.core import converter
    from malt.impl import api
    from malt.pyct import parser
    ag = api.PyToPy().get_extra_locals()['ag__']
    return converter, parser, ag


def all_values(converter):
    feats = list(converter.Feature)
    for r, u, i in itertools.product([False, True], repeat=3):
        for mask in range(1 << len(feats)):
            fs = tuple(f for k, f in enumerate(feats) if mask >> k & 1)
            yield r, u, i, fs


def spellings(fs, rng=None):
    """Ways a user can spell the same feature set."""
    out = [('tuple', tuple(fs)), ('rev', tuple(reversed(fs))), ('set', set(fs)), ('list', list(fs)),
           ('dup', tuple(fs) + tuple(fs[:1]))]
    if len(fs) == 0:
        out.append(('None', None))
    if len(fs) == 1:
        out.append(('single', fs[0]))
    return out


def sp_sexp(kind, fs):
    if kind == 'None':
        return 'none'
    if kind == 'single':
        return ['single', fs.name]
    return ['many'] + [f.name for f in fs]


def canon(o):
    """Canonical text of an options value, read from its FIELDS (never through as_tuple()/==/hash of the class under
    test, and total on whatever the fields hold)."""
    converter = _malt()[0]
    order = {f: k for k, f in enumerate(converter.Feature)}
    try:
        feats = list(o.optional_features)
    except Exception:      # noqa
        feats = [repr(o.optional_features)]
    names = [f.name if f in order else repr(f) for f in sorted(feats, key=lambda f: (order.get(f, 99), repr(f)))]
    return sexp([bool(o.recursive), bool(o.user_requested), bool(o.internal_convert_user_code), names])


def fields_equal(a, b):
    return (a.recursive == b.recursive and a.user_requested == b.user_requested and
            a.internal_convert_user_code == b.internal_convert_user_code and
            frozenset(a.optional_features) == frozenset(b.optional_features))


def ast_to_sexp(node):
    """The expression returned by to_ast -> the model's OptAst, plus the observed feature order."""
    def is_ag_attr(n, name):
        return isinstance(n, ast.Attribute) and n.attr == name and isinstance(n.value, ast.Name) and n.value.id == 'ag__'

    def feat(n):
        if isinstance(n, ast.Attribute) and is_ag_attr(n.value, 'Feature'):
            return n.attr
        return None
    if is_ag_attr(node, 'STD'):
        return 'std', []
    if isinstance(node, ast.Call) and is_ag_attr(node.func, 'ConversionOptions') and not node.args:
        kw = {k.arg: k.value for k in node.keywords}
        if sorted(kw) != ['internal_convert_user_code', 'optional_features', 'recursive', 'user_requested'] \
                or len(node.keywords) != 4:
            return None, None
        bs = []
        for k in ('recursive', 'user_requested', 'internal_convert_user_code'):
            v = kw[k]
            if not (isinstance(v, ast.Constant) and isinstance(v.value, bool)):
                return None, None
            bs.append(v.value)
        fe = kw['optional_features']
        if isinstance(fe, ast.Tuple):
            names = [feat(e) for e in fe.elts]
            if None in names:
                return None, None
            fx = 'empty' if not names else ['tuple'] + names
        elif feat(fe):
            names = [feat(fe)]
            fx = ['bare', names[0]]
        else:
            return None, None
        return ['call', bs[0], bs[1], fx, bs[2]], names
    return None, None


EMBED_SHAPES = """
def e_plain(a):
    return a + 1

def e_nested_def(a):
    def g(b):
        return b + a
    return g(a)

def e_nested_lambda(a):
    h = lambda b: b + a
    return h(a)

def e_two_levels(a):
    def g(b):
        def k(c):
            return c + b
        return k(b) + a
    return g(a)

def e_def_and_lambda(a):
    h = lambda b: b * 2
    def g(b):
        return h(b) + a
    return g(a)

e_lambda = lambda a: a + 1
"""


def embedded_options(tree):
    """[(nesting depth of the enclosing def/lambda, options expression)] for every `ag__.FunctionScope(name, scope, OPTIONS)`
    and `ag__.with_function_scope(thunk, scope, OPTIONS)` call of the generated code, outermost first."""
    out = []

    def is_ag(n, name):
        return isinstance(n, ast.Attribute) and n.attr == name and isinstance(n.value, ast.Name) and n.value.id == 'ag__'

    def walk(n, depth):
        if isinstance(n, ast.Call) and (is_ag(n.func, 'FunctionScope') or is_ag(n.func, 'with_function_scope')) and len(n.args) >= 3:
            out.append((depth, n.args[2]))
        for c in ast.iter_child_nodes(n):
            walk(c, depth + 1 if isinstance(c, (ast.FunctionDef, ast.Lambda)) and not is_thunk(n, c) else depth)

    def is_thunk(parent, child):
        # the `lambda lscope: body` thunk of with_function_scope is not a user-level nesting
        return isinstance(parent, ast.Call) and is_ag(parent.func, 'with_function_scope') and parent.args and parent.args[0] is child

    nodes = tree if isinstance(tree, (list, tuple)) else [tree]
    for t in nodes:
        walk(t, 0 if isinstance(t, (ast.FunctionDef, ast.Lambda)) else -1)
    return sorted(out, key=lambda p: p[0])


def hashseed_worker():
    """Run in a subprocess with a given PYTHONHASHSEED: round trip + to_ast shapes for all values."""
    sys.path.insert(0, common.REPO)
    converter, parser, ag = _malt()
    bad = []
    orders = set()
    n = 0
    for r, u, i, fs in all_values(converter):
        o = converter.ConversionOptions(r, u, i, fs)
        src = parser.unparse(o.to_ast(), include_encoding_marker=False)
        try:
            back = eval(src, {'ag__': ag})
            ok = isinstance(back, converter.ConversionOptions) and fields_equal(back, o)
        except Exception as e:
            ok = False
        n += 1
        if len(fs) >= 2:
            _, names = ast_to_sexp(o.to_ast())
            if names:
                orders.add(tuple(names))
        if not ok:
            bad.append({'recursive': r, 'user_requested': u, 'internal_convert_user_code': i,
                        'optional_features': [f.name for f in fs], 'to_ast': src})
    print(json.dumps({'n': n, 'bad': bad[:20], 'nbad': len(bad), 'orders': len(orders)}))


def check(run):
    run.rule = ('exhaustive: every (recursive, user_requested, internal_convert_user_code) x every subset of '
                'converter.Feature, each under every applicable spelling (tuple, reversed, set, list, with duplicate, '
                'None, single); a case is a (value, spelling, operation) triple; non-trivial = feature set non-empty '
                'or not equal to STANDARD_OPTIONS')
    run.assumptions += [
        'hash() of tuples/frozensets/bools is a function of their value (CPython)',
        'ast.unparse/eval of the emitted options expression are CPython\'s',
    ]
    run.translate(['Options'])
    run.build_and_audit('MaltModel.Props.C20', model_files=MODEL_FILES + ['MaltModel/Drv/C20.lean'])

    converter, parser, ag = _malt()
    Opt = converter.ConversionOptions
    feats = list(converter.Feature)
    values = list(all_values(converter))

    # ---------------- direct oracle on the real code (needs no Lean) ----------------
    objs = []
    for r, u, i, fs in values:
        o = Opt(r, u, i, fs)
        objs.append(o)
        desc = {'recursive': r, 'user_requested': u, 'internal_convert_user_code': i, 'optional_features': [f.name for f in fs]}
        try:
            _per_value(run, converter, parser, ag, Opt, feats, o, r, u, i, fs, desc)
        except Exception as e:      # noqa — an operation of the real class raising is a failing input, not a harness error
            run.fail('an operation on a valid options value raised %s: %s' % (type(e).__name__, str(e)[:120]), desc)
    _after_values(run, converter, parser, ag, Opt, feats, values, objs)


def _per_value(run, converter, parser, ag, Opt, feats, o, r, u, i, fs, desc):
        src = None
        nontriv = bool(fs) or (r, u, i) != (True, False, True)
        # constructor normalisation
        for kind, spv in spellings(fs):
            o2 = Opt(r, u, i, spv)
            run.case(('ctor', r, u, i, tuple(f.name for f in fs), kind), nontriv)
            if not (fields_equal(o, o2) and o == o2 and hash(o) == hash(o2)):
                run.fail('constructor spelling %s gives a different options value' % kind, dict(desc, spelling=kind))
        # stored fields are what was passed
        if (o.recursive, o.user_requested, o.internal_convert_user_code) != (r, u, i) or set(o.optional_features) != set(fs):
            run.fail('constructor does not store the values passed', desc)
        # round trip
        src = parser.unparse(o.to_ast(), include_encoding_marker=False)
        run.case(('roundtrip', r, u, i, tuple(f.name for f in fs)), nontriv)
        try:
            back = eval(src, {'ag__': ag})
            ok = isinstance(back, Opt) and fields_equal(back, o) and back == o
        except Exception as e:  # noqa
            ok = False
        if not ok:
            run.fail('embedded options expression does not evaluate back to an equal value', dict(desc, to_ast=src))
        # call options
        c = o.call_options()
        run.case(('callopts', r, u, i, tuple(f.name for f in fs)), nontriv)
        if not (c.recursive == r and c.user_requested is False and c.internal_convert_user_code == r
                and frozenset(c.optional_features) == frozenset(fs)):
            run.fail('call_options() does not keep recursion flag/features, drop user_requested, allow user code iff recursive', desc)
        # uses
        for f in feats:
            run.case(('uses', r, u, i, tuple(g.name for g in fs), f.name), nontriv)
            want = (f in fs) or (converter.Feature.ALL in fs)
            if bool(o.uses(f)) != want:
                run.fail('uses(%s) wrong' % f.name, dict(desc, feature=f.name))
        if len(run.samples) < 3 and len(fs) == 2 and u:
            run.sample({'value': desc, 'to_ast': src, 'call_options': canon(c)})


def _safe(thunk, default=None):
    try:
        return thunk()
    except Exception as e:      # noqa
        return ('raised', type(e).__name__)


def _after_values(run, converter, parser, ag, Opt, feats, values, objs):
    try:
        _after_values_inner(run, converter, parser, ag, Opt, feats, values, objs)
    except common.InfraError:
        raise
    except Exception as e:      # noqa
        import traceback
        tb = traceback.extract_tb(e.__traceback__)
        where = [f for f in tb if 'malt' in f.filename and 'harness' not in f.filename]
        if not where:
            raise
        run.fail('an operation on valid options values raised %s: %s (at %s:%s)' % (type(e).__name__, str(e)[:120], where[-1].name, where[-1].lineno),
                 {'where': '%s:%d' % (where[-1].filename.split('/malt/')[-1], where[-1].lineno), 'exception': type(e).__name__})


def _after_values_inner(run, converter, parser, ag, Opt, feats, values, objs):
    # eq / hash over all pairs
    keys = [(r, u, i, frozenset(fs)) for r, u, i, fs in values]
    npairs = 0
    for a in range(len(objs)):
        oa, ka = objs[a], keys[a]
        ha = hash(oa)
        for b in range(len(objs)):
            eqv = (oa == objs[b])
            npairs += 1
            if eqv != (ka == keys[b]) or (eqv and ha != hash(objs[b])) or ((oa != objs[b]) == eqv):
                run.fail('==/!=/hash disagree with field equality', {'a': canon(oa), 'b': canon(objs[b])})
    run.evaluations += npairs
    run.cov['eq_hash_pairs'] = npairs
    # fresh equal objects (not identical) compare equal
    for r, u, i, fs in values[::7]:
        if not (Opt(r, u, i, fs) == Opt(r, u, i, tuple(reversed(fs))) and hash(Opt(r, u, i, fs)) == hash(Opt(r, u, i, set(fs)))):
            run.fail('equal options built separately are unequal or hash differently', {'value': [r, u, i, [f.name for f in fs]]})

    # histories: value semantics must hold for objects obtained through ANY sequence of API operations
    # (hash before/after deriving callee options, after to_ast/uses/as_tuple/copying), not only fresh ones
    import copy as _copy
    nhist = 0
    for r, u, i, fs in values:
        for order in (('hash', 'call_options'), ('call_options', 'hash'), ('to_ast', 'hash', 'call_options', 'call_options'),
                      ('hash', 'copy', 'call_options'), ('uses', 'as_tuple', 'hash', 'call_options', 'to_ast')):
            o = Opt(r, u, i, fs)
            objs_h = [o]
            for op in order:
                cur = objs_h[-1]
                if op == 'hash':
                    hash(cur)
                elif op == 'call_options':
                    objs_h.append(cur.call_options())
                elif op == 'to_ast':
                    cur.to_ast()
                elif op == 'copy':
                    objs_h.append(_copy.copy(cur))
                elif op == 'uses':
                    cur.uses(feats[0])
                elif op == 'as_tuple':
                    cur.as_tuple()
            for x in objs_h:
                nhist += 1
                fresh = Opt(x.recursive, x.user_requested, x.internal_convert_user_code, tuple(x.optional_features))
                if not (x == fresh and hash(x) == hash(fresh) and fresh == x and {x: 1}.get(fresh) == 1):
                    run.fail('an options value obtained through %s is not interchangeable with an equal freshly built one (==/hash/dict lookup)' % '->'.join(order),
                             {'start': [r, u, i, [f.name for f in fs]], 'history': list(order), 'derived': canon(x)})
            # the callee options of an object are the same value whatever was done to it before
            c1 = Opt(r, u, i, fs).call_options()
            if not fields_equal(objs_h[-1] if order[-1] == 'call_options' and order.count('call_options') == 1 else c1, c1):
                run.fail('call_options() depends on the history of the object', {'start': [r, u, i, [f.name for f in fs]], 'history': list(order)})
    run.evaluations += nhist
    run.cov['history_checks'] = nhist

    # the options handed to callees by a generated function scope, and the cache sub-key
    from malt.operators import function_wrappers
    from malt.impl import api as _api
    nscope = nscope_built = 0
    for r, u, i, fs in values:
        o = Opt(r, u, i, fs)
        nscope += 1
        try:
            sc = function_wrappers.FunctionScope('f', 'fscope', o)
        except AssertionError:
            continue            # NAME_SCOPES / AUTO_CONTROL_DEPS / ALL are rejected by FunctionScope (documented strip)
        nscope_built += 1
        c = sc.callopts
        run.case(('scope_callopts', r, u, i, tuple(f.name for f in fs)), True)
        if not (isinstance(c, Opt) and c.recursive == r and c.user_requested is False and c.internal_convert_user_code == r
                and frozenset(c.optional_features) == frozenset(fs)):
            run.fail('the options a function scope hands to its callees are not call_options() of its own options '
                     '(recursion flag and features kept, user_requested dropped, user code allowed iff recursive)',
                     {'value': [r, u, i, [f.name for f in fs]], 'callopts': canon(c) if isinstance(c, Opt) else repr(c)})
    run.cov['function_scopes_built'] = nscope_built

    class _Ctx(object):
        def __init__(self, options):
            self.options = options
    tp = _api.PyToPy()
    ckeys = [tp.get_caching_key(_Ctx(o)) for o in objs]
    nk = 0
    for a in range(len(objs)):
        ka = ckeys[a]
        for b in range(a, len(objs), 1 if a % 16 == 0 else 37):
            nk += 1
            same_key = (ka == ckeys[b]) and (hash(ka) == hash(ckeys[b]))
            if same_key != (keys[a] == keys[b]):
                run.fail('cache sub-keys alias two different option values (or separate two equal ones)',
                         {'a': canon(objs[a]), 'b': canon(objs[b]), 'key_a': repr(ka)[:80], 'key_b': repr(ckeys[b])[:80]})
    run.evaluations += nk
    run.cov['cache_key_pairs'] = nk

    # ---- embedding oracle: the options expression embedded in GENERATED CODE evaluates back to the options the
    # conversion ran with (top-level entity) / to their call_options() (every nested def or lambda), whatever else the
    # entity contains (nested defs, nested lambdas, two levels, a lambda entity)
    import passes
    import importlib.util, tempfile
    shp = os.path.join(tempfile.mkdtemp(prefix='c20embed_'), 'c20_embed_shapes.py')
    with open(shp, 'w') as f:
        f.write(EMBED_SHAPES)
    spec_ = importlib.util.spec_from_file_location('c20_embed_shapes', shp)
    modsh = importlib.util.module_from_spec(spec_)
    sys.modules['c20_embed_shapes'] = modsh
    spec_.loader.exec_module(modsh)
    ns = vars(modsh)
    shapes = [ns[k] for k in ('e_plain', 'e_nested_def', 'e_nested_lambda', 'e_two_levels', 'e_def_and_lambda', 'e_lambda')]
    if run.tier == 'quick':
        fsets = [fs for k, (r0, u0, i0, fs) in enumerate(values) if (r0, u0, i0) == (False, False, False)]
        fsets = [fs for k, fs in enumerate(fsets) if len(fs) <= 1 or k % 9 == run.seed % 9]
    else:
        fsets = [fs for (r0, u0, i0, fs) in values if (r0, u0, i0) == (False, False, False)]
    nemb = nexpr = 0
    for fs in fsets:
        for r in (False, True):
            for u in (False, True):
                for i in (False, True):
                    o = Opt(r, u, i, fs)
                    for fn in shapes:
                        trc = passes.trace_conversion(fn, o)
                        nemb += 1
                        if trc.error is not None or trc.final_tree is None:
                            run.fail('conversion fails in the embedding oracle: %r' % (trc.error,),
                                     {'value': [r, u, i, [f.name for f in fs]], 'shape': fn.__name__})
                            continue
                        found = embedded_options(trc.final_tree)
                        run.case(('embed', fn.__name__, r, u, i, tuple(f.name for f in fs)), True)
                        if not found or found[0][0] != 0:
                            run.fail('no function-scope options expression found at the top level of the generated code',
                                     {'value': [r, u, i, [f.name for f in fs]], 'shape': fn.__name__})
                            continue
                        for depth, expr in found:
                            nexpr += 1
                            try:
                                back = eval(parser.unparse(expr, include_encoding_marker=False), {'ag__': ag})
                            except Exception as e:      # noqa
                                back = repr(e)
                            want = o if depth == 0 else o.call_options()
                            if not (isinstance(back, Opt) and fields_equal(back, want) and back == want and hash(back) == hash(want)):
                                run.fail('the options expression embedded in generated code does not evaluate back to the options '
                                         'the conversion ran with (top-level entity) / their call_options() (nested function)',
                                         {'value': [r, u, i, [f.name for f in fs]], 'shape': fn.__name__, 'depth': depth,
                                          'embedded': canon(back) if isinstance(back, Opt) else str(back)[:200], 'expected': canon(want)})
    run.evaluations += nexpr
    run.cov['embedding_oracle'] = {'conversions': nemb, 'embedded_expressions': nexpr, 'shapes': [f.__name__ for f in shapes],
                                   'feature_sets': len(fsets)}

    # PYTHONHASHSEED sweep (frozenset iteration order feeds to_ast)
    seeds = [run.seed * 7 + k + 1 for k in range(2 if run.tier == 'quick' else 10)]
    tot_orders = 0
    for hs in seeds:
        p = subprocess.run([sys.executable, os.path.abspath(__file__), '--hashseed-worker'], text=True,
                           stdout=subprocess.PIPE, stderr=subprocess.PIPE,
                           env=dict(os.environ, PYTHONHASHSEED=str(hs % 4294967295), MALT_REPO=common.REPO))
        if p.returncode != 0:
            raise common.InfraError('hashseed worker failed: ' + p.stderr[-800:])
        rep = json.loads(p.stdout.strip().split('\n')[-1])
        run.evaluations += rep['n']
        tot_orders += rep['orders']
        for b in rep['bad']:
            run.fail('round trip fails under PYTHONHASHSEED=%d' % hs, dict(b, PYTHONHASHSEED=hs))
    run.cov['hashseeds'] = seeds
    run.cov['distinct_feature_orders_seen'] = tot_orders

    # ---------------- correspondence model <-> implementation (exhaustive) ----------------
    if run.driver_ok:
        lines, expect, what = [], [], []

        def add(line, exp, w):
            lines.append(line); expect.append(exp); what.append(w)
        model_feats = parse_sexp(run.drive(['c20.features'])[0])
        run.oblige('correspondence:Feature-enum', 'correspondence', model_feats == [f.name for f in feats],
                   'model %s vs code %s' % (model_feats, [f.name for f in feats]))
        for (r, u, i, fs), o in zip(values, objs):
            for kind, spv in spellings(fs):
                osx = [r, u, i, sp_sexp(kind, spv if kind in ('None', 'single') else list(spv) if kind != 'set' else sorted(spv, key=feats.index))]
                add('c20.ctor ' + sexp(osx), canon(Opt(r, u, i, spv)), 'ctor')
            osx = [r, u, i, ['many'] + [f.name for f in fs]]
            add('c20.callopts ' + sexp(osx), canon(o.call_options()), 'callopts')
            for f in feats:
                add('c20.uses %s %s' % (sexp(osx), f.name), sexp(bool(o.uses(f))), 'uses')
            node = o.to_ast()
            sx, names = ast_to_sexp(node)
            if sx is None:
                add('c20.toast %s (order)' % sexp(osx), 'UNRECOGNISED ' + ast.dump(node)[:200], 'toast')
            else:
                order = names if sx != 'std' else [f.name for f in fs]
                add('c20.toast %s %s' % (sexp(osx), sexp(['order'] + order)), sexp(sx), 'toast')
                back = eval(parser.unparse(node, include_encoding_marker=False), {'ag__': ag})
                add('c20.evalast ' + sexp(sx), canon(back) if isinstance(back, Opt) else 'NOT-OPTIONS', 'evalast')
        # eq: every value against its one-field neighbours and a random sample
        idx = list(range(len(values)))
        for a in idx:
            others = {a, a ^ 1, (a + 128) % len(values), (a + 256) % len(values), (a + 512) % len(values)}
            others |= {run.rng.randrange(len(values)) for _ in range(3)}
            for b in others:
                ra, ua, ia, fa = values[a]; rb, ub, ib, fb = values[b]
                add('c20.eq %s %s' % (sexp([ra, ua, ia, ['many'] + [f.name for f in fa]]),
                                      sexp([rb, ub, ib, ['many'] + [f.name for f in fb]])),
                    sexp(objs[a] == objs[b]), 'eq')
        got = run.drive(lines)
        dis = {}
        for l, e, g, w in zip(lines, expect, got, what):
            run.evaluations += 1
            if e != g:
                dis.setdefault(w, []).append({'request': l, 'implementation': e, 'model': g})
        for w in ('ctor', 'callopts', 'uses', 'toast', 'evalast', 'eq'):
            d = dis.get(w, [])
            run.oblige('correspondence:c20.' + w, 'correspondence', not d,
                       json.dumps(d[:3]) if d else '')
        run.cov['correspondence_lines'] = len(lines)
        run.cov['exhaustive'] = True
        run.sample({'request': lines[len(lines) // 2], 'implementation': expect[len(lines) // 2], 'model': got[len(lines) // 2]})
    else:
        run.oblige('correspondence:c20', 'correspondence', False, 'driver unavailable')
        run.cov['exhaustive'] = False
    run.cov['search'] = 'exhaustive direct oracle over all %d option values (all spellings, all pairs for ==/hash, %d PYTHONHASHSEEDs)' % (len(values), len(seeds))


def replay(run, path):
    with open(path) as f:
        rep = json.load(f)
    print(json.dumps(rep, indent=1))
    check(run)
    return run.finish()


if __name__ == '__main__' and '--hashseed-worker' in sys.argv:
    hashseed_worker()
