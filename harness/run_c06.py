"""C06 — reaching definitions and defined-on-entry sets are sound.

Tie: VERIFIED CHECKERS (Lean, `isFix`/`isPostFix`/… with soundness theorems) run on the implementation's own graph, Scope
sets, `Analyzer.in_/out`, `gen_map` and annotations for every function graph of the corpus; correspondence of the Lean
model of the worklist + transfer function with the real solution; direct oracle = instrumented executions with a
last-writer log (dataflow_instr / dataflow_oracle)."""
import json

import common
import dataflow_check as chk

MODEL_FILES = ['MaltModel/Analysis/Dataflow.lean', 'MaltModel/Analysis/Worklist.lean', 'MaltModel/Proofs/C06Worklist.lean', 'MaltModel/Analysis/CfgData.lean',
               'MaltModel/Analysis/ReachDef.lean', 'MaltModel/Drv/Dataflow.lean', 'MaltModel/Drv/C06.lean']


def check(run, only_program=None):
    run.rule = ('static: one case per function graph (every FunctionDef of /repo/malt and /repo/tests analysed by the real '
                'qual_names/activity/cfg/reaching_definitions + every generated program), non-trivial = more than 3 CFG nodes; '
                'dynamic: one case per (program, arguments, decision vector) execution of an instrumented program '
                '(corpus, deliberate scenarios, bounded skeletons, typed random programs), non-trivial = more than 3 checked reads')
    run.assumptions += [
        'serialisation of the real cfg.Graph / Scope sets / Analyzer.in_/out (harness/dataflow_common.py) is faithful',
        'actual writes ⊆ scope.bound/params and kill ⊆ actual writes are hypotheses of rd_sound (hgen is property C08; hkill is evaluated per trace)',
        'the instrumentation (harness/dataflow_instr.py) reports reads/writes in the order CPython performs them; executions with implicit exceptions are dropped as the property says',
        'a read of a variable declared global/nonlocal whose value was produced before the activation began is matched against the declaration\'s definition',
    ]
    run.build_and_audit('MaltModel.Props.C06', model_files=MODEL_FILES)
    info = {}
    # a replay runs the known-finding witnesses (corpus) too: classes are attributed only while their witness still fails
    progs = (list(chk.corpus_programs(run)) + [only_program]) if only_program is not None else chk.executable_programs(run, info)
    sources = chk.dynamic_phase(run, 'C06', progs)
    run.cov.update(info)
    if only_program is None:
        chk.static_phase(run, 'C06', sources)
    else:
        chk.static_phase(run, 'C06', sources)
    run.cov['search'] = ('direct oracle (last-writer log vs DEFINITIONS, bound locals vs DEFINED_VARS_IN) on %d executions of %s programs; '
                         'verified fixpoint checker on %d real graphs' % (run.cov['dynamic']['stats'].get('executions', 0),
                                                                          sum(run.cov['dynamic']['programs'].values()),
                                                                          run.cov['static']['graphs']))


def replay(run, path):
    import progen
    with open(path) as f:
        rep = json.load(f)
    case = rep.get('case') or {}
    if 'program' not in case:
        print(json.dumps(rep, indent=1)[:3000])
        check(run)
        return run.finish()
    p = progen.Program.from_json(case['program'])
    p.inputs = [tuple(case['args'])]
    p.decisions = [case['decisions']]
    print('replaying', case.get('observation'))
    print(p.function_source())
    check(run, only_program=p)
    return run.finish()
