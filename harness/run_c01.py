"""C01 — conversion preserves Python semantics under the default operators.

1. translator (pipeline order/guards/analyses) + lake build + axiom audit of Props/C01 and the per-pass
   theorem modules (C01Jumps, C01Func, C01Exprs) that exist;
2. per-pass correspondences contributed by the pass builders (check_part hooks), when present;
3. direct differential oracle (harness/c01_oracle.py) in parallel worker subprocesses, one PYTHONHASHSEED each.
"""
import glob, importlib, json, os, subprocess, sys

import common

MORE_PROPS = ['MaltModel.Props.C01Jumps', 'MaltModel.Props.C01Func', 'MaltModel.Props.C01Exprs', 'MaltModel.Props.C01Compose', 'MaltModel.Props.C01CF']   # per-pass theorem modules + their composition
PART_HOOKS = []   # per-pass correspondences are wired in when the pass builders deliver them


def spawn(spec, hashseed):
    env = dict(os.environ, PYTHONHASHSEED=str(hashseed), MALT_REPO=common.REPO)
    return subprocess.Popen([sys.executable, os.path.join(common.HERE, 'c01_oracle.py')], stdin=subprocess.PIPE,
                            stdout=subprocess.PIPE, stderr=subprocess.PIPE, text=True, env=env)


def run_workers(specs, timeout):
    procs = []
    for k, spec in enumerate(specs):
        p = spawn(spec, spec['hashseed'])
        p.stdin.write(json.dumps(spec)); p.stdin.close()
        procs.append(p)
    outs = []
    for p in procs:
        try:
            out = p.stdout.read()
            p.wait(timeout=timeout)
        except subprocess.TimeoutExpired:
            p.kill()
            raise common.InfraError('oracle worker timed out')
        if p.returncode != 0:
            raise common.InfraError('oracle worker failed: ' + p.stderr.read()[-1500:])
        outs.append(json.loads(out.strip().split('\n')[-1]))
    return outs


def merge(run, outs):
    agg = {'programs': 0, 'cases': 0, 'nontrivial': 0, 'features': {}, 'outcomes': {}, 'configs': {}, 'convert_errors': 0}
    for o in outs:
        for k in ('programs', 'cases', 'nontrivial', 'convert_errors'):
            agg[k] += o[k]
        for k in ('features', 'outcomes', 'configs'):
            for a, b in o[k].items():
                agg[k][a] = agg[k].get(a, 0) + b
        for f in o['failures']:
            run.fail(f['what'], f['case'], f['cls'])
        for s in o['samples']:
            run.sample(s)
    return agg


def check(run):
    quick = run.tier == 'quick'
    run.rule = ('programs: bounded-exhaustive control-flow skeletons (progen.skeleton_programs, canonical order, stride-sampled '
                'when over the cap) + the jump-context family (every jump kind under every nesting path of if/else/try/handler/'
                'try-finally/with/inner-loop contexts with/without trailing statements, progen.jump_context_programs) + typed random programs of the C01 class (progen.random_programs); each converted with '
                'malt.to_graph (and malt.convert on a quarter) under option sets from recursive x {None,BUILTIN_FUNCTIONS,'
                'EQUALITY_OPERATORS,both}; each run on inputs x decision vectors; a case = (program, config, variant, input, '
                'decisions); non-trivial = the original run logs more than one external event')
    run.assumptions += [
        'CPython 3.12 executes the generated code (trusted runtime)',
        'per-pass semantic theorems are over the core language Malt.Sem (lean/MaltModel/Sem/Core.lean), a hand-written '
        'description of CPython on the modelled subset, validated differentially',
    ]
    run.translate(['Pipeline'])
    run.build_and_audit('MaltModel.Props.C01', model_files=['MaltModel/Conv/Pipeline.lean', 'MaltModel/Generated/Pipeline.lean',
                                                            'MaltModel/Sem/Core.lean'],
                        more_props=MORE_PROPS)

    # corpus: witnesses of known findings and minimised past failures, replayed first
    corpus = []
    for path in sorted(glob.glob(os.path.join(common.VERIF, 'corpus', 'C01', '*.json'))):
        with open(path) as f:
            corpus.append(json.load(f))
    nsh = 14
    specs = []
    if corpus:
        specs.append({'seed': run.seed, 'shard': 0, 'nshards': 1, 'replay': corpus, 'skel_cap': 0, 'random_n': 0, 'budget_s': 200,
                      'configs_per_program': 8, 'runs_per_program': 12, 'hashseed': 1 + run.seed})
    for k in range(nsh):
        specs.append({'seed': run.seed, 'shard': k, 'nshards': nsh,
                      'skel_cap': 45 if quick else 320, 'skel_stmts': 4 if quick else 5, 'skel_depth': 3,
                      'rich': not quick,
                      'jump_cap': 45 if quick else 700, 'jump_depth': 2 if quick else 3,
                      'random_n': 20 if quick else 140, 'size': 12 if quick else 16, 'family_step': 3 if quick else 1,
                      'budget_s': 140 if quick else 800,
                      'configs_per_program': 2 if quick else 4, 'runs_per_program': 6 if quick else 10,
                      'hashseed': (run.seed * 97 + k * 13 + 7) % 100000})
    outs = run_workers(specs, timeout=400 if quick else 1500)
    agg = merge(run, outs)
    run.evaluations += agg['cases']
    # distinct non-trivial cases are counted by the workers (each case is a distinct (program, config, input) tuple)
    run.nontrivial = set(range(agg['nontrivial']))
    run.cov.update({'programs': agg['programs'], 'construct_distribution': agg['features'], 'outcome_distribution': agg['outcomes'],
                    'config_distribution': agg['configs'], 'conversion_errors': agg['convert_errors'],
                    'skeleton_and_jump_context_space': outs[-1].get('space'), 'workers': len(specs),
                    'hashseeds': sorted(set(s['hashseed'] for s in specs)),
                    'truncated_workers': len([o for o in outs if o.get('truncated')]),
                    'corpus_programs': len(corpus)})
    run.cov['search'] = ('direct differential oracle f(*a) vs to_graph(f)(*a) / convert()(f)(*a): %d cases over %d programs'
                         % (agg['cases'], agg['programs']))

    # jump-lowering passes (break / continue / return): Lean mirrors diffed per pass against the real output, the
    # semantic lowerings tied to them per program, Malt.Sem validated against CPython, three-pass oracle.
    # Runs as a sub-run of the development alias C01J (own driver drv_c01j) and is merged into this run.
    # (The expression passes' and control_flow's model-vs-code correspondences run under C04 and C03.)
    try:
        import c01_jumps
    except ModuleNotFoundError:
        run.notes.append('c01_jumps not present')
        return
    sub = common.Run('C01J', run.tier, run.seed)
    if quick:
        os.environ['C01J_MAX_PROGRAMS'] = os.environ.get('C01J_MAX_PROGRAMS', '1200')
    c01_jumps.check_part(sub)
    for o in sub.obligations:
        if o['name'].startswith('theorem:') and any(x['name'] == o['name'] for x in run.obligations):
            continue        # Props/C01Jumps is already audited above
        run.obligations.append(dict(o, name='jumps/' + o['name']))
    for f in sub.failing:
        run.failing.append(f)
    run.evaluations += sub.evaluations
    run.nontrivial = set(range(len(run.nontrivial) + len(sub.nontrivial)))
    run.cov['jump_passes'] = {k: v for k, v in sub.cov.items() if k not in ('checker_cmd',)}
    run.cov['jump_passes']['cases'] = sub.evaluations
    for smp in sub.samples[:2]:
        run.sample(smp)
    run.axioms.update(sub.axioms)


def replay(run, path):
    with open(path) as f:
        rep = json.load(f)
    case = rep.get('case', rep)
    spec = {'seed': 0, 'shard': 0, 'nshards': 1, 'replay': [case], 'skel_cap': 0, 'random_n': 0, 'budget_s': 300,
            'configs_per_program': 8, 'runs_per_program': 50, 'hashseed': 0}
    outs = run_workers([spec], timeout=600)
    for f in outs[0]['failures']:
        print('FAILS:', f['what'], 'class:', f['cls'])
        print(f['case'].get('original')); print(f['case'].get('converted'))
    print('failures on replay: %d' % outs[0]['nfailures'])
    return 1 if outs[0]['nfailures'] else 0
