"""C15 — generators of source layouts (function definitions and lambdas) + token helpers.

Everything random comes from the `random.Random` passed in (derived from run.rng by the caller).
A generated module is plain text; it registers the function objects of interest in a module-level
list `REG` so the harness can reach them whatever their nesting.
"""
import io, tokenize

# --------------------------------------------------------------------------- token helpers


def tokens_of(code):
    """Tokens of `code` exactly as dedent_block collects them. Returns (tokens, status);
    status: 'ok', 'tokenerror' (partial list, what the code silently accepts) or the name of another
    exception the tokenizer raised (dedent_block propagates it)."""
    toks = []
    try:
        for t in tokenize.generate_tokens(io.StringIO(code).readline):
            toks.append(t)
    except tokenize.TokenError:
        return toks, 'tokenerror'
    except Exception as e:  # IndentationError, SyntaxError subclasses
        return toks, type(e).__name__
    return toks, 'ok'


def tok_sexp(t):
    return [tokenize.tok_name[t.type], t.string, t.start[0], t.start[1], t.end[0], t.end[1]]


ZERO_WIDTH = (tokenize.INDENT, tokenize.DEDENT, tokenize.ENDMARKER)
FSTRING_MIDDLE = getattr(tokenize, 'FSTRING_MIDDLE', -1)


def esc_braces(s):
    return s.replace('{', '{{').replace('}', '}}')


def atoks_of(code, toks):
    """Annotate each token with the text between the previous visible token and it (the `gap`).
    INDENT/DEDENT/ENDMARKER are zero-width (gap ''), the token after them owns the whitespace.
    Returns a list of [gap, KIND, text] or None when positions do not line up with the text."""
    starts = [0]
    for line in code.split('\n'):
        starts.append(starts[-1] + len(line) + 1)
    out, pos = [], 0
    for t in toks:
        name = tokenize.tok_name[t.type]
        if t.type in ZERO_WIDTH:
            out.append(['', name, t.string])
            continue
        r, c = t.start
        if r - 1 >= len(starts):
            return None
        s = starts[r - 1] + c
        if s < pos:
            return None
        out.append([code[pos:s], name, t.string])
        # an f-string literal part appears in the source with its braces doubled ('{{' is tokenized as '{')
        width = len(esc_braces(t.string)) if t.type == FSTRING_MIDDLE else len(t.string)
        pos = s + width
    return out


# python mirrors of the class predicates (used for the direct oracle when the Lean driver is unavailable,
# and cross-checked against the driver otherwise)
def _vis(a):
    return '' if a[1] == 'INDENT' else esc_braces(a[2]) if a[1] == 'FSTRING_MIDDLE' else a[2]


def py_cont_inside_token(atoks):
    return any('\\\n' in _vis(a) or _vis(a).endswith('\\') for a in atoks)


DELIMS = set('()[]{},;')


def py_cont_joins(atoks):
    prev = None
    for a in atoks:
        v = _vis(a)
        if prev is not None and '\\\n' in a[0] and a[0].replace('\\\n', '') == '' and v != '':
            if not (prev[-1] in DELIMS or v[0] in DELIMS):
                return True
        if a[1] in ('NEWLINE', 'NL'):
            prev = None
        elif v != '':
            prev = v
    return False


def py_cont_in_indentation(atoks):
    line_start = True
    for a in atoks:
        if line_start and '\\\n' in a[0]:
            return True
        if a[1] in ('NEWLINE', 'NL'):
            line_start = True
        elif _vis(a) != '':
            line_start = False
    return False


# --------------------------------------------------------------------------- definitions

PRELUDE = '''import contextlib, functools
REG = []
def reg(f):
    REG.append(f)
    return f
def deco(f):
    return f
def deco_args(*a, **k):
    def d(f):
        return f
    return d
def wrapping(f):
    @functools.wraps(f)
    def wrapper(*a, **k):
        return f(*a, **k)
    REG.append(wrapper)
    return wrapper
@contextlib.contextmanager
def ctx():
    yield 1
'''


class DefGen:
    """Emits one module of function definitions in assorted layouts."""

    def __init__(self, rng, tabs=False, exotic=False, defects=True, future=False):
        self.rng = rng
        self.tabs = tabs
        self.exotic = exotic          # continuations that change token boundaries
        self.defects = defects        # layouts known to trigger the pinned-tree defects
        # `from __future__ import …` at the top: transpiler.transform_function passes the names to parse_entity,
        # which prepends the import lines to the recovered source
        self.lines = (['from __future__ import annotations, division'] if future else []) + PRELUDE.split('\n')[:-1]
        self.n = 0
        self.funcs = []               # dict(name, feats) in registration order is NOT guaranteed; use names
        self.cur = None               # feature set of the function being emitted

    # ---- small helpers
    def unit(self):
        r = self.rng
        if self.tabs:
            return r.choice(['\t', '\t', '\t', '\t\t'])
        return r.choice(['    '] * 5 + ['  ', '  ', ' ', '        ', '   '])

    def ws(self, maxn=12):
        """arbitrary whitespace for positions where Python ignores it"""
        r = self.rng
        if self.tabs:
            return '\t' * r.randrange(0, 4)
        return ' ' * r.randrange(0, maxn)

    def feat(self, f):
        if self.cur is not None:
            self.cur.add(f)

    def emit(self, s):
        self.lines.append(s)

    def fresh(self, p='f'):
        self.n += 1
        return '%s%d' % (p, self.n)

    def expr(self):
        r = self.rng
        return r.choice(['a + 1', 'a * 2', 'b - a', '(a, b)', 'a', 'str(a)', '[a, b]', 'a if b else 3',
                         'len(c)', 'd', '{"k": a}', 'a + b * 2', 'not a', 'a < b', '-a', 'c[0:1]'])

    # ---- statements
    def stmt(self, ind, depth):
        r = self.rng
        kinds = ['assign', 'assign', 'comment', 'inline_comment', 'blank', 'bs_cont', 'bs_cont', 'bracket', 'bracket',
                 'tq_string', 'tq_string', 'tq_string', 'sq_string_bs', 'fstring', 'semicolon', 'oneliner',
                 'concat', 'unicode', 'lambda', 'trailing_ws']
        if depth < 3:
            kinds += ['compound', 'compound', 'compound', 'nested_def', 'nested_class']
        if self.exotic:
            kinds += ['bs_join', 'bs_join'] + ([] if self.tabs else ['bs_indent', 'bs_indent'])
        k = r.choice(kinds)
        getattr(self, 's_' + k)(ind, depth)

    def s_assign(self, ind, depth):
        self.emit('%sx = %s' % (ind, self.expr()))

    def s_trailing_ws(self, ind, depth):
        self.feat('trailing_ws')
        self.emit('%sx = %s%s' % (ind, self.expr(), self.ws(4) or ' '))

    def comment_text(self, allow_bs=True):
        r = self.rng
        t = r.choice(['# note', '#', '# x = 1', '#: "quoted', "# it's", '# if a:', '#\tTab', '# ''"""', '# back\\slash'])
        if allow_bs and self.defects and r.random() < 0.12:
            self.feat('comment_bs')
            t += r.choice([' \\', '\\', ' path C:\\'])
        return t

    def s_comment(self, ind, depth):
        r = self.rng
        self.feat('comment')
        where = r.choice(['same', 'same', 'col0', 'deeper', 'any'])
        pre = {'same': ind, 'col0': '', 'deeper': ind + self.unit(), 'any': self.ws()}[where]
        if where != 'same':
            self.feat('comment_offside')
        self.emit(pre + self.comment_text())

    def s_inline_comment(self, ind, depth):
        self.feat('comment')
        self.emit('%sx = %s%s%s' % (ind, self.expr(), self.rng.choice(['  ', ' ', '\t', '']), self.comment_text()))

    def s_blank(self, ind, depth):
        self.feat('blank')
        self.emit(self.rng.choice(['', '', ind, self.ws(), ind + self.unit()]))

    def s_bs_cont(self, ind, depth):
        r = self.rng
        self.feat('bs_cont')
        n = r.choice([1, 1, 2, 3])
        pre_bs = r.choice([' ', ' ', '  ', '', '\t'])
        if pre_bs == '':
            self.feat('bs_cont_tight')
        form = r.choice(['expr', 'expr', 'if', 'call', 'with', 'return_paren'])
        if form == 'if':
            self.emit('%sif a and%s\\' % (ind, pre_bs or ' '))
            self.emit('%sb:' % self.cont_ws(ind))
            self.emit('%sx = 1' % (ind + self.unit()))
            return
        if form == 'with':
            self.emit('%swith ctx() as x,%s\\' % (ind, pre_bs))
            self.emit('%sctx() as y:' % self.cont_ws(ind))
            self.emit('%sx = y' % (ind + self.unit()))
            return
        parts = ['a'] + [r.choice(['b', '1', 'd', 'len(c)', '"s"', "'''t'''"]) for _ in range(n)]
        if form == 'call':
            self.emit('%sx = str(a,%s\\' % (ind, pre_bs))
            self.emit('%s)' % self.cont_ws(ind))
            return
        first = '%sx = [%s] +%s\\' % (ind, parts[0], pre_bs)
        self.emit(first)
        for i, p in enumerate(parts[1:]):
            last = i == len(parts) - 2
            self.emit('%s[%s]%s' % (self.cont_ws(ind), p, '' if last else ' +' + pre_bs + '\\'))

    def cont_ws(self, ind):
        r = self.rng
        c = r.choice(['deeper', 'deeper', 'same', 'col0', 'one', 'any'])
        if c != 'deeper':
            self.feat('cont_offside')
        return {'deeper': ind + self.unit(), 'same': ind, 'col0': '', 'one': '\t' if self.tabs else ' ', 'any': self.ws()}[c]

    def s_bs_join(self, ind, depth):
        """continuation with no blank on either side between two word tokens (exotic, valid Python)"""
        self.feat('bs_join')
        self.emit('%sx = 1 if a\\' % ind)
        self.emit('else 2')

    def s_bs_indent(self, ind, depth):
        """a physical line that is only indentation + backslash (exotic, valid Python)"""
        self.feat('bs_indent')
        self.emit('%s\\' % ind)
        self.emit('%sx = 2' % self.rng.choice([ind, '', ind]))

    def s_bracket(self, ind, depth):
        r = self.rng
        self.feat('bracket')
        op, cl = r.choice([('[', ']'), ('(', ')'), ('{', '}'), ('str(', ')'), ('max(', ')'), ('[(', ')]')])
        n = r.randrange(1, 4)
        self.emit('%sx = %s%s,%s' % (ind, op, r.choice(['a', '1', '"s"']), r.choice(['', '  # c', ' '])))
        for i in range(n):
            k = r.random()
            if k < 0.15:
                self.emit(self.cont_ws(ind) + self.comment_text(allow_bs=False))
            elif k < 0.25:
                self.emit(r.choice(['', self.ws()]))
            item = r.choice(['b', '2', "'t'", 'a + 1', '"""m\nl"""', 'lambda q: q', '(1,\n2)'])
            if '\n' in item:
                self.feat('tq_in_bracket')
            sep = '' if (op in ('{',) and False) else ','
            for j, piece in enumerate(item.split('\n')):
                if j == 0:
                    line = self.cont_ws(ind) + piece
                else:
                    line = piece
                if j == len(item.split('\n')) - 1:
                    line += sep
                self.emit(line)
        self.emit('%s%s' % (self.cont_ws(ind), cl))

    def string_body(self, raw, fstr, ind):
        """interior of a triple-quoted literal: list of physical lines (first one follows the opening quotes)"""
        r = self.rng
        n = r.randrange(1, 5)
        out = [r.choice(['', 'ab', 'text ', 'Doc.'])]
        for i in range(n):
            k = r.choice(['under', 'col0', 'same', 'over', 'wsonly', 'hash', 'quote', 'code', 'tab', 'empty'])
            body = {'under': (ind[:len(ind) // 2]) + 'under', 'col0': 'col0 text', 'same': ind + 'same',
                    'over': ind + self.unit() + 'over', 'wsonly': self.ws(6), 'hash': ind + '# not a comment',
                    'quote': ind + 'it\'s "q"', 'code': 'def g():\n' + ind + '    return 1', 'tab': '\tx\ty',
                    'empty': ''}[k]
            if k in ('under', 'col0', 'code'):
                self.feat('str_underindent')
            if fstr and r.random() < 0.5:
                body += r.choice(['{a}', '{a!r:>4}', '{{lit}}', '{a + 1}', '{b:{a}}'])
                if '{{' in body:
                    self.feat('fstring_escaped_brace')
            out.extend(body.split('\n'))
        # backslash-terminated lines
        if r.random() < 0.4:
            i = r.randrange(0, len(out) - 0)
            if raw:
                if self.defects:
                    self.feat('str_bs_raw')
                    out[i] = out[i] + '\\'
                    if i == len(out) - 1:
                        out.append('end')
            else:
                k = r.random()
                if k < 0.75 or not self.defects:
                    self.feat('str_bs')
                    out[i] = out[i] + '\\'
                    if i == len(out) - 1:
                        out.append('end')
                else:
                    self.feat('str_bs_escaped')      # an escaped backslash followed by the newline
                    out[i] = out[i] + '\\\\'
                    if i == len(out) - 1:
                        out.append('end')
        if out[-1].endswith('\\') or out[-1].endswith('"') or out[-1].endswith("'"):
            out.append('')
        return out

    def s_tq_string(self, ind, depth, target='s = '):
        r = self.rng
        prefix = r.choice(['', '', '', 'r', 'b', 'rb', 'f', 'fr', 'u', 'R', 'Br', 'F', 'rF'])
        q = r.choice(['"""', '"""', "'''"])
        raw = 'r' in prefix.lower()
        fstr = 'f' in prefix.lower()
        self.feat('tq_string')
        self.feat('prefix_' + (prefix.lower() or 'none'))
        body = self.string_body(raw, fstr, ind)
        if q == "'''":
            body = [l.replace("'", '"') for l in body]
        else:
            body = [l.replace('"', "'") for l in body]
        if 'b' in prefix.lower():
            body = [l.encode('ascii', 'replace').decode('ascii') for l in body]
        text = target + prefix + q + '\n'.join(body) + q
        tail = r.choice(['', '', '  # after', ' + ' + prefix.replace('f', '').replace('F', '') + ('""' if q == '"""' else "''")])
        if 'b' in prefix.lower() and tail.startswith(' + ') and 'b' not in tail.lower():
            tail = ''
        if target != 's = ':
            tail = ''
        lines = (text + tail).split('\n')
        self.emit(ind + lines[0])
        for l in lines[1:]:
            self.emit(l)

    def s_sq_string_bs(self, ind, depth):
        r = self.rng
        prefix = r.choice(['', '', 'b', 'f', 'r', 'rb']) if self.defects else r.choice(['', 'b', 'f'])
        q = r.choice(['"', "'"])
        if 'r' in prefix:
            self.feat('str_bs_raw')
        else:
            self.feat('str_bs')
        self.feat('sq_string_bs')
        mid = '{a}' if 'f' in prefix else 'm'
        self.emit('%ss = %s%sab%s\\' % (ind, prefix, q, mid))
        self.emit('%scd%s' % (r.choice(['', '  ', ind]), q))

    def s_fstring(self, ind, depth):
        r = self.rng
        self.feat('fstring')
        k = r.choice(['one', 'nested', 'ml_field', 'ml_field', 'concat'])
        if k == 'one':
            self.emit('%ss = f"{a}-{b!r}-{{x}}-{a:>{b}}"' % ind)
        elif k == 'nested':
            self.emit('%ss = f"{a + len(f\'{b}\')}"' % ind)
        elif k == 'ml_field':
            self.feat('fstring_ml_field')
            self.emit('%ss = f"""{' % ind)
            self.emit('%sa' % self.cont_ws(ind))
            self.emit('%s+ b}' % self.cont_ws(ind))
            self.emit('%stail {b' % self.ws())
            self.emit('%s}"""' % self.cont_ws(ind))
        else:
            self.emit('%ss = ("p" f"{a}"' % ind)
            self.emit('%sf\'{b}\' "q")' % self.cont_ws(ind))

    def s_semicolon(self, ind, depth):
        self.feat('semicolon')
        self.emit('%sx = a; y = b;%s' % (ind, self.rng.choice(['', ' z = 3', ' pass'])))

    def s_oneliner(self, ind, depth):
        self.feat('oneliner')
        self.emit(ind + self.rng.choice(['if a: x = 1', 'for i in c: x = i', 'while False: pass',
                                          'if a: x = 1; y = 2', 'with ctx() as w: x = w', 'class Z: pass',
                                          'def g(q): return q']))

    def s_concat(self, ind, depth):
        self.feat('concat')
        self.emit('%ss = ("abc"' % ind)
        self.emit('%s"def" \'g\'' % self.cont_ws(ind))
        self.emit('%sr"\\n")' % self.cont_ws(ind))

    def s_unicode(self, ind, depth):
        self.feat('unicode')
        self.emit('%ss = "h\u00e9llo \u4e16\u754c"  # \u00fcber \u00a0nbsp' % ind)
        self.emit('%sx = [s, "\u00e9",' % ind)
        self.emit('%s"\U0001f600", a]' % self.cont_ws(ind))

    def s_lambda(self, ind, depth):
        self.feat('lambda_in_def')
        self.emit('%sg = lambda q, *r, k=1: (q,' % ind)
        self.emit('%sk)' % self.cont_ws(ind))

    def s_compound(self, ind, depth):
        r = self.rng
        self.feat('compound')
        u = ind + self.unit()
        k = r.choice(['if', 'ifelse', 'for', 'while', 'with', 'try', 'tryfull', 'match'])
        if k == 'if':
            self.emit('%sif a:' % ind); self.body(u, depth + 1, r.randrange(1, 3))
        elif k == 'ifelse':
            self.emit('%sif a:%s' % (ind, r.choice(['', '  # c'])))
            self.body(u, depth + 1, r.randrange(1, 3))
            self.emit('%selif b:' % ind); self.body(ind + self.unit(), depth + 1, 1)
            self.emit('%selse:' % ind); self.body(ind + self.unit(), depth + 1, r.randrange(1, 3))
        elif k == 'for':
            self.emit('%sfor i in c:' % ind); self.body(u, depth + 1, r.randrange(1, 3))
        elif k == 'while':
            self.emit('%swhile a:' % ind); self.body(u, depth + 1, 1); self.emit('%sbreak' % u)
        elif k == 'with':
            self.emit('%swith ctx() as w:' % ind); self.body(u, depth + 1, r.randrange(1, 3))
        elif k == 'try':
            self.emit('%stry:' % ind); self.body(u, depth + 1, 1)
            self.emit('%sfinally:' % ind); self.body(ind + self.unit(), depth + 1, 1)
        elif k == 'tryfull':
            self.emit('%stry:' % ind); self.body(u, depth + 1, 1)
            self.emit('%sexcept (ValueError, KeyError) as err:' % ind); self.body(ind + self.unit(), depth + 1, 1)
            self.emit('%sexcept Exception:' % ind); self.body(ind + self.unit(), depth + 1, 1)
            self.emit('%selse:' % ind); self.body(ind + self.unit(), depth + 1, 1)
            self.emit('%sfinally:' % ind); self.body(ind + self.unit(), depth + 1, 1)
        else:
            self.emit('%smatch a:' % ind)
            self.emit('%scase 1:' % u); self.body(u + self.unit(), depth + 1, 1)
            self.emit('%scase [p, *_] if p:' % u); self.body(u + self.unit(), depth + 1, 1)
            self.emit('%scase _:' % u); self.body(u + self.unit(), depth + 1, 1)

    def s_nested_def(self, ind, depth):
        self.feat('nested_def')
        u = ind + self.unit()
        if self.rng.random() < 0.3:
            self.emit('%s@deco' % ind)
        self.emit('%s%sdef g(p, q=1):' % (ind, self.rng.choice(['', '', 'async '])))
        self.body(u, depth + 1, self.rng.randrange(1, 3))
        self.emit('%sreturn p' % u)

    def s_nested_class(self, ind, depth):
        self.feat('nested_class')
        u = ind + self.unit()
        self.emit('%sclass Z(object):' % ind)
        self.emit('%s"""Doc' % u)
        self.emit('under-indented doc line"""')
        self.emit('%sv = 1' % u)
        uu = u + self.unit()
        self.emit('%sdef m(self): # c' % u)
        self.body(uu, depth + 2, 1)

    def body(self, ind, depth, n):
        """n statements; always ends in a state where a further statement at `ind` is legal, and the
        body is non-empty"""
        self.emit('%sx = 0' % ind) if self.rng.random() < 0.4 else self.emit('%spass' % ind)
        for _ in range(n):
            self.stmt(ind, depth)

    # ---- a function definition
    def signature(self, ind, name):
        r = self.rng
        is_async = r.random() < 0.08
        kw = 'async def' if is_async else 'def'
        k = r.choice(['plain', 'plain', 'plain', 'multi', 'multi', 'annot'])
        if k == 'plain':
            sp = r.choice(['', '', ' '])
            return ['%s%s %s%s(a, b=2, *c, d=3, **e):%s' % (ind, kw, name, sp, r.choice(['', '', '  # sig', ' ']))]
        if k == 'annot':
            self.feat('annotations')
            return ['%s%s %s(a: int, b: "str" = 2, /, *c, d=3, **e) -> "r":' % (ind, kw, name)]
        self.feat('multiline_sig')
        out = ['%s%s %s(a,%s' % (ind, kw, name, r.choice(['', '  # first', ' ']))]
        out.append('%sb=2,' % self.cont_ws(ind))
        if r.random() < 0.3:
            out.append(self.cont_ws(ind) + self.comment_text(allow_bs=False))
        if r.random() < 0.3:
            out.append('')
        out.append('%s*c, d=("x",' % self.cont_ws(ind))
        out.append('%s"""y' % self.cont_ws(ind))
        out.append('z"""), **e')
        out.append('%s)%s:' % (self.cont_ws(ind), r.choice(['', ' -> None', ' -> "q"'])))
        return out

    def decorators(self, ind, registering):
        r = self.rng
        out = []
        if registering == 'reg':
            out.append('%s@reg' % ind)
        elif registering == 'wrapping':
            out.append('%s@wrapping' % ind)
        n = r.choice([0, 0, 0, 1, 1, 2])
        for _ in range(n):
            self.feat('decorator')
            k = r.choice(['plain', 'args', 'multi', 'attr'])
            if k == 'plain':
                out.append('%s@deco' % ind)
            elif k == 'args':
                out.append('%s@deco_args(1, "s", k=(2, 3))' % ind)
            elif k == 'attr':
                out.append('%s@functools.lru_cache(maxsize=None)' % ind if False else '%s@deco_args()' % ind)
            else:
                self.feat('decorator_multiline')
                out.append('%s@deco_args(1,' % ind)
                out.append('%s"""a' % self.cont_ws(ind))
                out.append('b""",')
                out.append('%sk=2)' % self.cont_ws(ind))
            if r.random() < 0.2:
                out.append(ind + '# between decorators')
            if r.random() < 0.1:
                out.append('')
        return out

    def function(self, ind, depth, registering='append'):
        r = self.rng
        name = self.fresh()
        self.cur = set()
        if ind:
            self.feat('indented')
        if '\t' in ind:
            self.feat('tabs')
        start = len(self.lines)
        for l in self.decorators(ind, registering):
            self.emit(l)
        if r.random() < 0.08 and registering == 'append':
            self.feat('oneline_def')
            self.emit('%sdef %s(a, b=2, *c, d=3, **e): %s' % (ind, name, r.choice(['return a', 'x = a; return x', 'pass'])))
        else:
            for l in self.signature(ind, name):
                self.emit(l)
            u = ind + self.unit()
            if r.random() < 0.3:
                self.feat('docstring')
                self.s_tq_string(u, depth, target='')
            else:
                self.emit('%sx = 0' % u)
            for _ in range(r.randrange(1, 6)):
                self.stmt(u, depth + 1)
            self.emit('%sreturn x' % u)
        # what follows the function
        k = r.random()
        if k < 0.15:
            self.emit(ind + self.unit() + '# trailing comment, body level')
        elif k < 0.25:
            self.emit(ind + '# trailing comment, def level')
        elif k < 0.3:
            self.emit('# trailing comment col 0')
        elif k < 0.4:
            self.emit('')
        feats = self.cur
        self.cur = None
        if registering == 'append':
            self.emit('%sREG.append(%s)' % (ind, name))
        if registering == 'wrapping':
            feats.add('wrapped')
            name = 'wrapper'      # the registered object is the wrapper defined in PRELUDE
        self.funcs.append({'name': name, 'feats': sorted(feats), 'line': start + 1})

    # ---- containers
    def container(self, ind, depth):
        r = self.rng
        n = r.randrange(1, 4)
        for _ in range(n):
            k = r.random()
            if depth < 3 and k < 0.45:
                kind = r.choice(['class', 'def', 'if', 'for', 'with', 'try', 'while'])
                u = ind + self.unit()
                if kind == 'class':
                    self.emit('%sclass %s:' % (ind, self.fresh('K')))
                    if r.random() < 0.3:
                        self.emit('%s"""class doc"""' % u)
                    self.container(u, depth + 1)
                elif kind == 'def':
                    o = self.fresh('outer')
                    self.emit('%sdef %s():' % (ind, o))
                    self.emit('%sfree = 1' % u)
                    self.container(u, depth + 1)
                    self.emit('%s%s()' % (ind, o))
                elif kind == 'if':
                    self.emit('%sif True:' % ind); self.container(u, depth + 1)
                    if r.random() < 0.4:
                        self.emit('%selse:' % ind); self.emit('%spass' % (ind + self.unit()))
                elif kind == 'for':
                    self.emit('%sfor _i in range(1):' % ind); self.container(u, depth + 1)
                elif kind == 'with':
                    self.emit('%swith ctx():' % ind); self.container(u, depth + 1)
                elif kind == 'try':
                    self.emit('%stry:' % ind); self.container(u, depth + 1)
                    self.emit('%sfinally:' % ind); self.emit('%spass' % (ind + self.unit()))
                else:
                    self.emit('%swhile True:' % ind); self.container(u, depth + 1); self.emit('%sbreak' % u)
            else:
                self.function(ind, depth, registering=r.choice(['append'] * 8 + ['reg', 'wrapping']))
                if r.random() < 0.2:
                    self.emit('%sv%d = 1' % (ind, self.n))

    def module(self, nfuncs=10, no_final_newline=False):
        while len(self.funcs) < nfuncs:
            self.container('', 0)
        if no_final_newline:
            self.function('', 0, registering='reg')
            while self.lines and not self.lines[-1].strip():
                self.lines.pop()
            self.funcs[-1]['feats'] = sorted(set(self.funcs[-1]['feats']) | {'no_final_newline'})
            return '\n'.join(self.lines)
        return '\n'.join(self.lines) + '\n'


# --------------------------------------------------------------------------- lambdas

LAM_PRELUDE = '''REG = []
G = 1
def keep(*fs):
    for f in fs:
        REG.append(f)
    return fs
def deco_with(f):
    REG.append(f)
    def d(g):
        return g
    return d
def deco_many(*fs):
    keep(*fs)
    def d(g):
        return g
    return d
class cm:
    def __init__(self, *a): pass
    def __enter__(self): return self
    def __exit__(self, *a): return False
'''

NAMES = ['x', 'y', 'z', 'u', 'v', 'w']


class LamGen:
    """Emits one module of lambdas. Every lambda body is a tuple `(TAG, expr)` with a unique int TAG >= 1000
    and a non-constant expr, so that a function object can be matched to its source node independently of
    positions. Outer lambdas of nested pairs have body `(TAG, lambda …)`."""

    def __init__(self, rng, posonly=True):
        self.rng = rng
        self.posonly = posonly
        self.lines = LAM_PRELUDE.split('\n')[:-1]
        self.tag = 1000
        self.n = 0

    def emit(self, s):
        self.lines.append(s)

    def sig(self, like=None, allow_posonly=True):
        """returns (text, params) — params: list of (name, kind) for building the body expression"""
        r = self.rng
        if like is not None and r.random() < 0.5:
            return like
        names = r.sample(NAMES, r.randrange(0, 4))
        parts, params = [], []
        npos = len(names)
        po = r.randrange(1, npos + 1) if (allow_posonly and self.posonly and npos and r.random() < 0.3) else 0
        for i, nm in enumerate(names):
            d = r.random() < 0.25
            parts.append(nm + ('=%d' % r.randrange(1, 9) if d or any('=' in p for p in parts if not p.startswith('/')) else ''))
            params.append((nm, 'pos'))
            if po and i == po - 1:
                parts.append('/')
        k = r.random()
        star = False
        if k < 0.2:
            parts.append('*args'); params.append(('args', 'var')); star = True
        elif k < 0.35:
            parts.append('*'); star = True
        if star:
            kn = r.choice(['k', 'kk'])
            if parts[-1] == '*' or r.random() < 0.5:
                parts.append(kn + r.choice(['', '=4'])); params.append((kn, 'kwonly'))
        if r.random() < 0.15:
            parts.append('**kw'); params.append(('kw', 'kw'))
        return ', '.join(parts), params

    def body_expr(self, params, extra=None):
        r = self.rng
        terms = ['G']
        for nm, kind in params:
            if kind in ('pos', 'kwonly'):
                terms.append(r.choice(['%s', '%s * 2', '%s - 1', '-%s']) % nm)
            else:
                terms.append('len(%s)' % nm)
        if extra:
            terms.append(extra)
        r.shuffle(terms)
        return ' + '.join(terms) if r.random() < 0.7 else ' - '.join(terms)

    def lam(self, like=None, multiline=False, inner=False, free=None, allow_posonly=True):
        """text of one lambda expression (may contain newlines if multiline)"""
        r = self.rng
        sigtext, params = self.sig(like, allow_posonly)
        self.tag += 1
        tag = self.tag
        if inner:
            itext, _, _ = self.lam(free=[p[0] for p in params if p[1] in ('pos', 'kwonly')][:1] or None)
            body = '(%d, %s)' % (tag, itext)
        else:
            body = '(%d, %s)' % (tag, self.body_expr(params, extra=(free[0] if free else None)))
        if multiline:
            k = r.choice(['paren', 'mid'])
            if k == 'paren':
                body = body.replace(', ', ',\n%s' % (' ' * r.randrange(0, 9)), 1)
            else:
                body = body[:-1] + '\n%s)' % (' ' * r.randrange(0, 9))
        sp = ' ' if sigtext else ''
        return 'lambda%s%s: %s' % (sp, sigtext, body), (sigtext, params), tag

    def statement(self, ind):
        r = self.rng
        self.n += 1
        v = 'T%d' % self.n
        k = r.choice(['single', 'single', 'tuple', 'tuple', 'tuple_same', 'tuple_ml', 'tuple_ml', 'nested', 'default',
                      'call', 'comp', 'bs', 'after_str', 'dict', 'posonly_pair', 'non_ascii',
                      'semi', 'semi', 'semi',
                      'def_default', 'def_default', 'lam_default', 'comp_clause', 'comp_clause', 'with_item',
                      'deco_args', 'case_guard'])
        if k == 'single':
            t, _, _ = self.lam(multiline=r.random() < 0.2)
            if '\n' in t:
                t = '(' + t + ')'
            self.emitm(ind, '%s = keep(%s)' % (v, t))
        elif k in ('tuple', 'tuple_same', 'tuple_ml', 'dict'):
            n = r.randrange(2, 5)
            items, like = [], None
            for i in range(n):
                t, s, _ = self.lam(like=like if k == 'tuple_same' or r.random() < 0.3 else None,
                                   multiline=(k == 'tuple_ml' and r.random() < 0.6))
                like = s
                items.append(t)
            if k == 'dict':
                self.emitm(ind, '%s = keep(*{%s}.values())' % (v, ', '.join('%d: %s' % (i, t) for i, t in enumerate(items))))
            else:
                seps = [r.choice([', ', ', ', ',\n   ']) if k == 'tuple_ml' else ', ' for _ in items]
                txt = ''.join(t + s for t, s in zip(items, seps))
                self.emitm(ind, '%s = keep(%s)' % (v, txt))
        elif k == 'posonly_pair':
            # a lambda with positional-only parameters next to one with the same names without the marker
            names = r.sample(NAMES, 2)
            self.tag += 2
            a = 'lambda %s, /, %s: (%d, %s - %s + G)' % (names[0], names[1], self.tag - 1, names[0], names[1])
            b = 'lambda %s, %s: (%d, %s + %s + G)' % (names[0], names[1], self.tag, names[0], names[1])
            if not self.posonly:
                a = 'lambda %s, %s=1: (%d, %s - %s + G)' % (names[0], names[1], self.tag - 1, names[0], names[1])
            pair = [a, b] if r.random() < 0.5 else [b, a]
            self.emitm(ind, '%s = keep(%s)' % (v, ', '.join(pair)))
        elif k == 'nested':
            t, _, _ = self.lam(inner=True, allow_posonly=False)
            self.emitm(ind, '%s = keep(%s)' % (v, t))
            self.emitm(ind, 'keep(_call_inner(%s[0]))' % v)
        elif k == 'default':
            t, _, _ = self.lam()
            t2, _, _ = self.lam()
            self.emitm(ind, 'def h%d(f=%s, g=%s): return f, g' % (self.n, t, t2))
            self.emitm(ind, 'keep(*h%d())' % self.n)
        elif k == 'call':
            t, _, _ = self.lam()
            t2, _, _ = self.lam(multiline=r.random() < 0.3)
            self.emitm(ind, 'keep(%s,\n%s     %s)' % (t, ind, t2))
        elif k == 'comp':
            self.tag += 1
            self.emitm(ind, '%s = keep(*[lambda x, i=i: (%d, x + i + G) for i in range(2)])' % (v, self.tag))
        elif k == 'bs':
            t, _, _ = self.lam()
            head, body = t.split(': ', 1)
            self.emitm(ind, '%s = keep(%s: \\\n%s  %s)' % (v, head, ind, body))
        elif k in ('def_default', 'lam_default', 'comp_clause', 'with_item', 'deco_args', 'case_guard'):
            # a lambda inside a container node that carries no line number of its own (ast.arguments, ast.comprehension,
            # ast.withitem, ast.match_case) or inside decorator arguments, paired with 0-2 further lambdas on the same
            # physical line OUTSIDE that container (same or different signatures)
            nin = r.choice([1, 1, 2])
            inside, like = [], None
            for _ in range(nin):
                t, sg, _ = self.lam(allow_posonly=r.random() < 0.3)
                like = sg
                inside.append(t)
            outside = []
            for _ in range(r.choice([0, 1, 1, 2])):
                t, sg, _ = self.lam(like=like if r.random() < 0.5 else None, allow_posonly=r.random() < 0.3)
                outside.append(t)
            outs = ''.join(', ' + t for t in outside)
            if k == 'def_default':
                params = ', '.join('f%d=%s' % (i, t) for i, t in enumerate(inside))
                if r.random() < 0.4 and len(inside) == 2:
                    params = 'f0=%s, *, f1=%s' % tuple(inside)
                rets = ', '.join('f%d' % i for i in range(len(inside)))
                self.emitm(ind, 'def h%d(%s): return keep(%s%s)' % (self.n, params, rets, outs))
                self.emitm(ind, 'h%d()' % self.n)
            elif k == 'lam_default':
                self.tag += 1
                params = ', '.join('f%d=%s' % (i, t) for i, t in enumerate(inside))
                self.emitm(ind, '%s = keep(lambda q, %s: (%d, q + G)%s)' % (v, params, self.tag, outs))
                self.emitm(ind, 'keep(*%s[0].__defaults__)' % v)
            elif k == 'comp_clause':
                it = inside[0]
                cond = ' if keep(%s)' % inside[1] if len(inside) > 1 else ''
                br = r.choice(['[]', '()', '{}'])
                comp = '%s1 for _f in keep(%s)%s%s' % (br[0], it, cond, br[1])
                self.emitm(ind, '%s = (list(%s)%s)' % (v, comp, ''.join(', keep(%s)' % t for t in outside) or ', 0'))
            elif k == 'with_item':
                items = ', '.join('cm(keep(%s))' % t for t in inside)
                body = 'keep(%s)' % ', '.join(outside) if outside else 'pass'
                self.emitm(ind, 'with %s as _w: %s' % (items, body))
            elif k == 'deco_args':
                self.emitm(ind, '@deco_many(%s%s)' % (', '.join(inside), outs))
                self.emitm(ind, 'def d%d(): pass' % self.n)
            else:
                body = 'keep(%s)' % ', '.join(outside) if outside else 'pass'
                self.emitm(ind, 'match G:')
                self.emitm(ind, '    case _ if keep(%s): %s' % (', '.join(inside), body))
        elif k == 'semi':
            # several simple statements on ONE physical line separated by ';', each containing lambdas with the same or
            # different signatures (at module level these are distinct top-level statements with the same lineno)
            n = r.randrange(2, 5)
            stmts, like = [], None
            for i in range(n):
                m = r.choice([1, 1, 2])
                items = []
                for _ in range(m):
                    t, sg, _ = self.lam(like=like if r.random() < 0.4 else None, allow_posonly=r.random() < 0.3)
                    like = sg
                    items.append(t)
                form = r.choice(['keep', 'assign_keep', 'expr'])
                if form == 'keep':
                    stmts.append('keep(%s)' % ', '.join(items))
                elif form == 'assign_keep':
                    stmts.append('%s_%d = keep(%s)' % (v, i, ', '.join(items)))
                else:
                    stmts.append('%s_%d = [%s]; keep(*%s_%d)' % (v, i, ', '.join(items), v, i))
            self.emitm(ind, '; '.join(stmts) + r.choice(['', ';', '  # c']))
        elif k == 'non_ascii':
            t, _, _ = self.lam()
            t2, _, _ = self.lam()
            self.emitm(ind, '%s = keep(%s, len("h\u00e9llo \u4e16\u754c"), %s)  # \u00fcber' % (v, t, t2))
        elif k == 'after_str':
            t, _, _ = self.lam()
            t2, _, _ = self.lam()
            self.emitm(ind, '%s = keep(%s, len("""a\nb"""), %s)' % (v, t, t2))

    def emitm(self, ind, text):
        ls = text.split('\n')
        self.emit(ind + ls[0])
        for l in ls[1:]:
            self.emit(l)

    def module(self, nstmts=8):
        r = self.rng
        self.emit('def _call_inner(f):')
        self.emit('    import inspect')
        self.emit('    n = len([p for p in inspect.signature(f).parameters.values() if p.default is p.empty and p.kind in (p.POSITIONAL_ONLY, p.POSITIONAL_OR_KEYWORD)])')
        self.emit('    ko = {p.name: 2 for p in inspect.signature(f).parameters.values() if p.default is p.empty and p.kind == p.KEYWORD_ONLY}')
        self.emit('    return f(*range(1, n + 1), **ko)[1]')
        done = 0
        while done < nstmts:
            k = r.random()
            if k < 0.6:
                self.statement(''); done += 1
            elif k < 0.75:
                self.emit('class C%d:' % self.n)
                self.emit('    a = 1')
                for _ in range(r.randrange(1, 3)):
                    self.statement('    '); done += 1
                self.n += 1
            elif k < 0.9:
                self.n += 1
                o = 'outer%d' % self.n
                self.emit('def %s(p):' % o)
                self.emit('    q = p + 1')
                for _ in range(r.randrange(1, 3)):
                    self.statement('    '); done += 1
                self.emit('%s(1)' % o)
            else:
                # lambda in a decorator of a top-level definition: not reachable by the search (explicit error)
                t, _, _ = self.lam(allow_posonly=False)
                self.n += 1
                self.emit('@deco_with(%s)' % t)
                self.emit('def top%d(): pass' % self.n)
                done += 1
        return '\n'.join(self.lines) + '\n'


# --------------------------------------------------------------------------- modules that are not plain files

class LoaderGen:
    """A decorator module D (functools.wraps decorators in assorted layouts, plain decorators as controls, a function
    of its own) and a user module U whose functions are decorated with D's decorators.  The harness imports each of
    them from disk, from a zip archive (zipimport) or through a custom loader that only offers `get_source`."""

    def __init__(self, rng):
        self.rng = rng
        self.tabs = False

    def unit(self):
        # one indentation character per module (mixing tabs and spaces inside one function is the documented
        # explicit error of dedent_block, exercised elsewhere)
        if self.tabs:
            return self.rng.choice(['\t', '\t', '\t\t'])
        return self.rng.choice(['    ', '    ', '  ', ' ', '   '])

    def dmod(self):
        r = self.rng
        self.tabs = r.random() < 0.25
        L = ['# decorator module', 'import functools', 'LOG = []', '']
        u = self.unit()
        L += ['def plain(f):', u + 'return f', '']
        # wrapping: wrapper nested once
        u, v = self.unit(), None
        v = u + (self.unit() if '\t' not in u else '\t')
        L += ['def wrapping(f):']
        if r.random() < 0.5:
            L += [u + '# the wrapper below replaces f', '']
        L += [u + '@functools.wraps(f)']
        sig = r.choice(['def wrapper(*a, **k):', 'def wrapper(*a,\n' + v + v + '**k):  # two lines',
                        'def wrapper(*a, **k):  # c'])
        L += [u + x for x in sig.split('\n')[:1]] + sig.split('\n')[1:]
        if r.random() < 0.5:
            L += [v + '"""wrapper doc', 'under-indented line"""']
        if r.random() < 0.5:
            L += [v + 'LOG.append(("call",', v + v + 'len(a)))']
        if r.random() < 0.4:
            L += [v + 'x = 1 + \\', v + v + '2']
        L += [v + 'return f(*a, **k)', u + 'return wrapper', '']
        # factory: wrapper nested twice
        u = self.unit(); v = u + u; w = v + u
        L += ['def wrapping_args(n, tag="t"):', u + 'def deco(f):', v + '@functools.wraps(f)',
              v + 'def wrapper(*a, **k):']
        if r.random() < 0.5:
            L += [w + '# %s' % r.choice(['note', 'x = 1', "it's"])]
        L += [w + 'r = f(*a, **k)', w + 'return r', v + 'return wrapper', u + 'return deco', '']
        # static method of a class
        u = self.unit(); v = u + u; w = v + u
        L += ['class Deco:', u + '@staticmethod', u + 'def wrap(f):', v + '@functools.wraps(f)',
              v + 'def inner(*a, **k): return f(*a, **k)' if r.random() < 0.5 else v + 'def inner(*a, **k):\n' + w + 'return f(*a, **k)',
              v + 'return inner', '']
        L += ['def own(x, y=2):', self.unit() + 'return (x,', 'y)', '']
        return '\n'.join(L)

    def umod(self, dname):
        r = self.rng
        self.tabs = r.random() < 0.25
        L = ['# user module', 'import %s as D' % dname, 'REG = []', '']
        names = ['area', 'volume', 'ratio', 'scale', 'norm', 'clip']
        r.shuffle(names)
        decos = ['@D.wrapping', '@D.wrapping_args(2)', '@D.wrapping_args(1,\n tag="x")', '@D.Deco.wrap', '@D.plain', None,
                 '@D.wrapping\n@D.plain', '@D.plain\n@D.wrapping']
        for nm in names:
            d = r.choice(decos)
            u = self.unit()
            if d:
                L += d.split('\n')
            L += ['def %s(w, h=2):' % nm]
            if r.random() < 0.4:
                L += [u + '"""%s of a thing' % nm, 'second line"""']
            L += [u + 'return %s' % r.choice(['w * h', 'w + h', '(w,\n' + 'h)', 'w / h'])]
            L += ['REG.append(%s)' % nm, '']
        L += ['REG.append(D.own)', 'REG.append(D.wrapping)', 'REG.append(D.plain)', '']
        return '\n'.join(L)


# --------------------------------------------------------------------------- tokenize -> the Lean lexer's view

def lean_view(code):
    """What the Lean lexer (MaltModel/Rt/Lex.lean) should produce for `code`, derived from tokenize:
    (class string, one letter per character: c code, n newline, k continuation, s string, m comment;
     chunk tokens [gap, KIND, text]).  Returns None if tokenize rejects the text."""
    toks, status = tokens_of(code)
    if status != 'ok':
        return None
    starts = [0]
    for line in code.split('\n'):
        starts.append(starts[-1] + len(line) + 1)
    off = lambda rc: starts[rc[0] - 1] + rc[1]
    # 1. collapse f-strings (3.12: FSTRING_START … FSTRING_END with nesting) into one STRING pseudo token
    items, depth, fstart = [], 0, None
    FS, FE = getattr(tokenize, 'FSTRING_START', -1), getattr(tokenize, 'FSTRING_END', -2)
    for t in toks:
        if t.type == FS:
            if depth == 0:
                fstart = off(t.start)
            depth += 1
            continue
        if t.type == FE:
            depth -= 1
            if depth == 0:
                items.append(('STRING', fstart, off(t.end)))
            continue
        if depth:
            continue
        name = tokenize.tok_name[t.type]
        if t.type in ZERO_WIDTH:
            items.append((name, None, t.string))
        elif t.type in (tokenize.NEWLINE, tokenize.NL):
            items.append((name, off(t.start), off(t.start) + len(t.string)))
        else:
            items.append((name if name in ('STRING', 'COMMENT') else 'OP', off(t.start), off(t.start) + len(t.string)))
    # 2. classes
    cls = ['c'] * len(code)
    for name, a, b in items:
        if a is None:
            continue
        if name == 'STRING':
            q = a
            while q < b and code[q] not in '"\'':
                q += 1                       # prefix letters are code
            for i in range(q, b):
                cls[i] = 's'
        elif name == 'COMMENT':
            for i in range(a, b):
                cls[i] = 'm'
        elif name in ('NEWLINE', 'NL'):
            for i in range(a, min(b, len(code))):
                cls[i] = 'n'
    i = code.find('\\\n')
    while i >= 0:
        if cls[i] == 'c' and cls[i + 1] == 'c':
            cls[i] = cls[i + 1] = 'k'
        i = code.find('\\\n', i + 2)
    # 3. chunks: gap-free neighbours merged
    out, pos, cur = [], 0, None
    for name, a, b in items:
        if a is None:
            if cur:
                out.append(cur); cur = None
            out.append(['', name, b])
            continue
        gap, text = code[pos:a], code[a:b]
        if name in ('STRING', 'OP'):
            if cur is not None and gap == '':
                cur[2] += text
                cur[1] = 'STRING' if (name == 'STRING' or cur[1] == 'STRING') else 'OP'
            else:
                if cur:
                    out.append(cur)
                cur = [gap, name, text]
        else:
            if cur:
                out.append(cur); cur = None
            out.append([gap, name, text])
        pos = b if b <= len(code) else len(code)
    if cur:
        out.append(cur)
    return ''.join(cls), out
