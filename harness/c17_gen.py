"""C17 unusual-literals stream: small functions of the C01 class built from syntactic forms the unparser / the
templates have to get right.  Programs are converted, never executed: only their syntax matters (they are valid Python
over the progen prelude: tr, d, n, cm, E1, E2, G).

Every program records the categories it uses (`features`) and is reproducible from its source text alone.
"""
import random, warnings

import progen

# ---------------------------------------------------------------- expression pools, by category
EXPRS = {
    'neg': ['-1', '- 1', '-a', '--a', '-(-1)', '+-1', '~-1', '-1.5e-3', '-0.0', '-1j', 'not -a', '-a * -b', 'a - -1',
            'a--1', '-(a)', '(-a)', '- - - a', '-1 if a else -2', '[-1, -2][-1]', 'abs(-a)'],
    'precedence': ['-1 ** 2', '(-1) ** 2', '2 ** -1', '-a ** -b', '2 ** 3 ** 2', '(2 ** 3) ** 2', '~a ** 2', '(~a) ** 2',
                   'a if b else c if a else b', '(a if b else c) if a else b', 'a if (b if c else a) else b',
                   'not a == b', '(not a) == b', 'a or b and c', '(a or b) and c', 'not (a and b)', 'not a and b',
                   '-a * b', '-(a * b)', 'a - (b - c)', 'a - b - c', 'a / (b * c)', 'a / b * c', 'a << b + 1', '(a << b) + 1',
                   'a & b == c', '(a & b) == c', 'a | b ^ c & a', '(a | b) ^ c', 'a % b % c', 'a % (b % c)',
                   '(a, b) + (c,)', '(a,)', '()', '((a))', 'a * (b + c) * a', '-a ** 2 ** -b', 'a // -b', 'a ** (b if c else a)',
                   '(a + b).real', '(-a).real', '(1).real', '1 .real', '1.0.real', '(a or b).real', '(lambda: a)()',
                   '(tr if b else tr)(a)', '(a)',
                   'a < b or b < c and not c < a', 'not not a', '- (not a)', 'a'],
    'chained': ['a < b < c', 'a < b == c != 0', 'a is not None is not b', 'a in l not in [l]', '0 <= a <= b < c',
                '(a < b) < c', 'a < (b < c)', 'not a < b', 'a == b == c', 'a != b != c', 'a < b > c', 'a is b is c',
                'a == (b == c)', '(a == b) == c', 'a < b < c < a < b', 'tr(1, a) < tr(2, b) < tr(3, c)', 'a <= b == (c >= a)'],
    'fstring': ['f"{a}"', 'f"{a!r:>{b}}"', 'f"{a:{b}.{c}}"', "f\"{f'{a}'}\"", 'f"{a + 1=}"', "f\"{'x' if a else 'y'}\"",
                'f"{{literal}} {a}"', 'f"{l[0]!s}" f"{b}"', 'f"{a:>10}" "tail"', 'f"{(lambda q: q)(a)}"', 'f"{a, b}"',
                'f"{ {1: a}[1] }"', "f\"{a:{'>'}{b}}\"", 'f""', 'f"plain"', 'f"{a}{b}{c}"', 'f"{a!a}"', "f'{a:0{b}d}'",
                "f'{\"q\" + str(a)}'", 'f"{a:%Y}"', "f'''{a}\n{b}'''", 'f"{a}" + f"{b}"', 'f"{-a}"', 'f"{a if b else c}"',
                "f\"{'{'}{a}{'}'}\"", 'f"\\n{a}\\t"', "f\"{f'{f\"{a}\"}'}\"", 'f"{a:{b}{c}}"', 'f"{l[a:b]}"', 'f"{a!r}" \'x\' f"{b!s}"',
                'f"{[i for i in l]}"', 'f"{ {a} }"', 'f"{a:}"', "f\"{a:{'' if b else '>'}}\""],
    'subscript': ['l[0]', 'l[-1]', 'l[a, b]', '{(a, b): c}[a, b]', 'l[0:1]', 'l[::2]', 'l[a:b:c]', 'l[()]', 'l[a, 1:2]',
                  'l[..., 0]', 'l[*l]', 'l[(a, b)[0]]', 'l[-1][0]', 'l[(a, b)]', 'l[a,]', 'l[:]', 'l[::]', 'l[a:]', 'l[:b]',
                  'l[::-1]', 'l[-a:-b]', 'l[a][b][c]', 'l[l[0]]', 'l[a if b else c]', 'l[a:b, c:a]', 'l[(a):(b)]', 'l[lambda: 0]',
                  'l[1, 2, 3]', 'l[(1, 2), 3]', 'l[not a]', 'l[a < b]', 'l[a:b if c else a]', 'l[*l, a]', 'l[-1:]'],
    'starred': ['(*l, a)', '[*l, *l]', 'tr(*l)', 'tr(0, *l, *l)', '{*l}', "{**{'a': 1}, 'b': a}", '(*l,)', '[*l]',
                'tr(*l, **{})', 'tr(*[a, b], c)', '(a, *l, b)', '[*(a, b), *[c]]', '{*l, *l, a}', 'tr(*(l or [a]))',
                "dict(**{'k': a})", 'tr(a, *l, b)', '(*l, *l)', '[a, *(b, c)]', '(*(i for i in l),)'],
    'walrus': ['(y := a)', '(y := a) + (z := b)', 'tr((y := a))', '[(w := i) for i in l]', 'f"{(y := a)}"',
               'tr((y := a), y)', '(y := a) if b else (z := c)', 'tr(k := a) if False else tr((k := a))',
               '(y := (z := a))', '(y := a) < b < (z := c)', 'not (y := a)', '[i for i in l if (w := i) > 0]',
               '(y := tr(1, a)) and (z := tr(2, y))', '{(y := a): (z := b)}', 'tr(*[(y := a)])'],
    'walrus-exposed': ['((y := a), y)', '[(y := a), y ** 2]', 'l[(y := 0)]', '(y := l)[0]', '(a, (y := b), c)', '[*(y := l)]',
                       '((y := a),)', 'l[(y := 0):(z := 1)]', '(y := l).count', '[[(y := a)]]', '((y := a), (z := b))'],
    'lambda': ['lambda: a', 'lambda q=1: q', 'lambda q=lambda: 1: q()', '(lambda *r, **k: r)(a)', 'lambda q=(1, 2): q',
               '(lambda: a) if b else (lambda: c)', 'lambda: a if b else c', 'lambda q, /, r=2, *s, t, u=3, **v: (q, r, s, t, u, v)',
               'lambda *, k=-1: k', 'lambda q=-1, r=[*l]: (q, r)', '(lambda: (lambda: a))()()', 'lambda q: lambda r: q + r',
               'lambda: (a, b)', 'lambda: [a for a in l]', '(lambda q: q)(lambda: a)', 'lambda q=(lambda: (lambda: 1)): q()()',
               'lambda: not a', 'lambda: -1 ** 2', 'lambda: f"{a}"', 'lambda q=...: q', "lambda q=b'x', r=1j: (q, r)",
               'sorted(l, key=lambda i: -i)', 'lambda: (y := a)', 'lambda q=a if b else c: q', '(lambda: a)() if b else (lambda: c)()'],
    'const': ["b'ab\\x00'", "b''", '1j', '1 + 2j', '-2j', '...', 'Ellipsis', '1e400', '1e-400', '0x1F', '1_000', '0b101', '0o17',
              '123456789012345678901234567890', "'\\N{BULLET}'", "'\\ud800'", "'''a\nb'''", "r'\\d'", "'it' 's'", "u'x'",
              "b'a' b'b'", '1.', '.5', '1e10', '1E-3', '1_0.0_1', 'True', 'None', '(None,)', "'\\''", '"\\""', "'\"'",
              "'a\\\\b'", "'\\x00'", "'\\t\\n\\r'", "'é'", "'日本'", "'\\U0001F600'", '""', "b'\\\\'", '0', '00', '-0',
              '1e308 * 10', 'float("nan")', "'%s' % a", "'{}'.format(a)", "rb'\\x'", "Rb'a'", "'' ''", '(1).__class__', '1if a else 2'],
    'display': ["{**{'a': 1}, 'b': a}", '{*l, a}', "{**{}}", "{'k': [*l]}", '{k: v for k, v in [(a, b)]}', '{i for i in l}',
                '[[i, j] for i in l for j in l if i if j]', '[i for i in [j for j in l]]', 'sum(i for i in l)',
                '{a: {b: {c: []}}}', '[(), [], {}, set()]', '{1, 2} | {3}', '{(a, b): [c], **{}}', '[i for i in l]',
                '{**{}, **{}}', "{'a': 1, **{'b': 2}, 'c': 3}", '[*l, *[*l]]', '{*(), *[]}', '(i for i in l)', 'list((i, j) for i, j in [(a, b)])',
                '{i: j for i in l for j in l}', '[x for x in l]', '[[y for y in l] for y in l]', '{(i, j) for (i, j) in [(a, b)]}',
                '[i for (i) in l]', '[i for i, in [(a,)]]', '[(i, j) for i, *j in [l]]'],
    'call': ['tr(a)', 'tr(a, b)', 'tr(tr(tr(a)))', 'tr(tr)(a)', 'l.append(a)', 'l.pop()', 'len(l)', 'range(a)',
             'str(a)', 'int(a)', 'max(a, b, key=lambda q: -q)', 'tr(a,)', 'tr(*l, **{})',
             'list(range(3))', 'sorted(l)', 'isinstance(a, (int, float))', 'getattr(a, "real")', 'tr(k) if (k := a) else 0',
             'enumerate(l)', 'zip(l, l)', 'any(i for i in l)', 'all([a, b])', 'type(a)(b)', 'abs(a)'],
}
for _k in EXPRS:
    EXPRS[_k] = sorted(set(EXPRS[_k]), key=EXPRS[_k].index)


def deep_expr(rng, kind, depth):
    if kind == 'sum':
        return ' + '.join(['a'] + [str(rng.randrange(1, 9)) for _ in range(depth)])
    if kind == 'parens':
        return '(' * depth + 'a' + ')' * depth
    if kind == 'calls':
        return 'tr(' * depth + 'a' + ')' * depth
    if kind == 'lists':
        return '[' * depth + 'a' + ']' * depth
    if kind == 'tuples':
        return '(' * depth + 'a' + ',)' * depth
    if kind == 'bool':
        return ' and '.join(['a'] + ['b', 'c', 'not a'][: 1] * depth)
    if kind == 'ternary':
        e = 'c'
        for i in range(depth):
            e = 'a if %s else (%s)' % ('b', e) if i % 2 else '(%s) if a else b' % e
        return e
    if kind == 'subs':
        # ContextAdjuster.visit_Subscript visits the value twice: the real adjuster is exponential in the nesting depth of
        # subscripts (2^45 steps hang a conversion); kept small here, reported as an observation
        return 'l' + '[0]' * min(depth, 12)
    if kind == 'attrs':
        return 'a' + '.real' * depth
    if kind == 'unary':
        return '-' * depth + 'a' if depth % 2 else ' '.join(['not'] * depth) + ' a'
    if kind == 'pow':
        return ' ** '.join(['a'] + ['2'] * depth)
    if kind == 'compare':
        return ' < '.join(['a'] + [rng.choice(['b', 'c', 'a']) for _ in range(depth)])
    if kind == 'lambdas':
        return '(' + 'lambda: ' * depth + 'a' + ')' + '()' * depth
    if kind == 'dicts':
        e = 'a'
        for _ in range(depth):
            e = "{'k': %s}" % e
        return e
    if kind == 'fstr':
        e = 'a'
        q = ['"', "'", '"""', "'''"]
        for i in range(min(depth, 4)):
            e = 'f%s{%s}%s' % (q[3 - i], e, q[3 - i])
        return e
    raise ValueError(kind)


DEEP_KINDS = ['sum', 'parens', 'calls', 'lists', 'tuples', 'bool', 'ternary', 'subs', 'attrs', 'unary', 'pow', 'compare',
              'lambdas', 'dicts', 'fstr']

# statement shapes with expression slots {E}; all are valid inside `def f(a, b, c, l)` after x, y, z are assigned
STMTS = [
    'x = {E}', 'x = y = {E}', 'tr({E})', 'tr(0, {E}, {E})', 'x += {E}', 'x = ({E}, {E})', 'x = [{E}]', 'x = l[{E}]',
    'x = tr({E}) if {E} else {E}', 'x = lambda: {E}', 'x = {E} and {E}', 'x = not {E}', 'x = {E} == {E}', 'x = {E} != {E}',
    'assert {E}, {E}', 'if {E}:\n    x = 1', 'if {E}:\n    x = {E}\nelse:\n    y = {E}', 'while {E}:\n    break',
    'while {E}:\n    x = {E}\n    if d():\n        break', 'for i in {E}:\n    x += i', 'for i in ({E}, {E}):\n    y = i',
    'with cm({E}) as w:\n    x = w', 'with cm({E}), cm({E}) as w:\n    pass', 'def g(p, q={E}):\n    return p\nx = g(a)',
    'def g(p, *r, q={E}, **k):\n    return {E}\nx = g(a)', 'x = {E} or {E}', 'x = ({E}) is None', 'x = {E}, {E}',
    'try:\n    x = {E}\nfinally:\n    y = {E}', 'try:\n    x = {E}\nexcept E1:\n    y = {E}', 'x: int = {E}', 'l[0] = {E}',
    'l[{E}] = {E}', 'return {E}', 'if {E}:\n    return {E}', 'for i in n():\n    if {E}:\n        break\n    x = {E}',
    'for i in n():\n    if {E}:\n        continue\n    x = {E}', 'x = {E} in ({E},)', 'x = tr(k={E})', 'x = {E} if {E} else {E} if {E} else {E}',
    'x = [{E} for i in l]', 'x = (lambda q: {E})(a)', 'x = {{1: {E}}}', 'x = str({E})', 'raise E1({E})', 'x = -({E})',
    'x = l[{E}:{E}]', 'x = ({E}).real', 'x = ({E})[0]',
]

# statements that are themselves the unusual form (targets, multiple assignment, deletes, ...)
SPECIAL = {
    'multi-target': ['x = y = a', 'x, y = y, x', 'x = y, z = a, b', '(x, y), z = (a, b), c', 'x = y = z = w = a', '[x, y] = a, b',
                     'x, = l', '(x), (y) = a, b', 'x, (y, (z, w)) = a, (b, (c, a))', 'x = (y) = a', 'l[0], l[1] = a, b',
                     'l[0] = l[1] = a', 'x, l[0] = a, b', 'x = l[0] = a'],
    'starred-target': ['x, *y = l', '*x, y = l', '[x, *y] = l', '(x, (y, *z)) = (a, (b, c))', '*x, = l', 'x, *y, z = l',
                       'for i, *j in [l]:\n    x = j', 'for (i, (j, *k)) in [(a, (b, c))]:\n    x = k', '[*x] = l',
                       'for *i, j in [l]:\n    y = i'],
    'augassign': ['x += -1', 'x **= 2', 'x //= -1', 'l[0] += 1', 'x -= -a', 'x %= 3', 'x <<= 1', 'x |= a & b',
                  'l[a] *= 2', 'l[0:1] += [a]', 'x ^= ~a', 'l[-1] -= 1', 'x /= (a or 1)', 'x &= a'],
    'delete': ['del x', 'del x, y', 'del l[0]', 'del (x)', 'del l[0], l[-1]', 'del l[a:b]', 'del (x, y)', 'del [x, y]', 'del l[:]'],
    'annassign': ['x: int = a', 'x: "str" = a', 'w: int', 'x: list[int] = [a]', '(x): int = a', 'l[0]: int = a', 'x: (int if a else str) = b',
                  'x: int = -1'],
    'with': ['with cm(1) as x, cm(2) as y:\n    pass', 'with (cm(1) as x, cm(2) as y):\n    pass', 'with cm(1) as (x, y):\n    pass',
             'with cm(1) as [x, *y]:\n    pass', 'with cm(1):\n    with cm(2) as l[0]:\n        pass', 'with (cm(1)):\n    pass',
             'with cm(1) as x:\n    x = x', 'with cm(a) as x, cm(x) as y:\n    z = (x, y)'],
    'misc': ['pass', 'assert a', 'assert (a, b)', 'assert a, (b, c)', 'raise E1(a) from None',
             'raise E1(a) from E2(b)', 'try:\n    raise\nexcept:\n    pass', 'try:\n    pass\nexcept (E1, E2):\n    pass\nelse:\n    x = 1\nfinally:\n    y = 2',
             'for i in l:\n    pass', 'while d():\n    pass',
             'if a:\n    pass\nelif b:\n    pass\nelif c:\n    pass\nelse:\n    pass', 'if a:\n    if b:\n        pass\n    else:\n        pass',
             'def g():\n    nonlocal x\n    x = (1)\ng()', 'def g(p: int = 0, *r: "t", q: str = \'s\', **k: dict) -> "None":\n    pass',
             'def g():\n    return\ng()', 'x = ...', "'''expression\nstatement string'''", '...', 'a',
             '(a)', 'a, b', '[a][0]', 'x = 1; y = 2', 'x = 1;', 'if a: x = 1', 'while d(): break', 'for i in l: x = i',
             'import math', 'import os.path as p', 'from math import (pi, e as ee)', 'def g(*, k): return k\nx = g(k=a)',
             'pass', 'lambda: 0', 'x = a if b else c', 'return'],
}

HEADERS = [
    'def f(a, b, c, l):',
    'def f(a, b=1, c=-1, l=None):',
    'def f(a, b=lambda: 1, *, c=(lambda x: -x), l=()):',
    'def f(a: int, b: "str" = 1, c: float = -1.5e-3, l: list = [1, 2]) -> None:',
    'def f(a, /, b, c=b\'x\', *, l=...):',
    'def f(a, b, c, l, *rest, k=(1, 2), **kw):',
    'def f(a, b=(lambda q=(lambda: 1): q), c=f"{1}", l=[*range(3)]):',
    'def f(a, b = - 1, c = (1, ), l = { **{} }):',
]

DOCSTRINGS = [None, None, None, '"""one line."""', '"""Two lines.\n\n    indented continuation.\n    """', "'single quoted'",
              '"""with \'quotes\' and "double" and \\\\ backslash"""', '"""\n    starts on the next line\n    """', 'r"""raw \\d"""',
              '"""dedented\ncontinuation at column 0\n"""', '"""tabs\there"""', '"""unicode é 日本"""', '""""quote at start"""',
              "'''ends with quote\"'''", '"""trailing spaces   \n   \n    """', 'f"""not a docstring {1}"""', 'b"bytes"', '"a" "b"']


def _fill(rng, shape, cats, used):
    out = shape
    while '{E}' in out:
        cat = rng.choice(cats)
        used.add(cat)
        if cat == 'deep':
            e = deep_expr(rng, rng.choice(DEEP_KINDS), rng.choice([3, 8, 20, 45]))
        else:
            e = rng.choice(EXPRS[cat])
        out = out.replace('{E}', e, 1)
    return out.replace('{{', '{').replace('}}', '}')


def indent(src, n=4):
    pad = ' ' * n
    return '\n'.join(pad + ln if ln.strip() else ln for ln in src.split('\n'))


def unusual_program(rng, walrus_exposed=False):
    cats_all = [k for k in EXPRS if k != 'walrus-exposed'] + ['deep']
    ncat = rng.randrange(1, 4)
    cats = rng.sample(cats_all, ncat)
    if walrus_exposed:
        cats = ['walrus-exposed'] + cats[:1]
    used = set()
    lines = [rng.choice(HEADERS)]
    doc = rng.choice(DOCSTRINGS)
    if doc:
        lines.append('    ' + doc)
        used.add('docstring')
    if lines[0] != HEADERS[0]:
        used.add('signature')
    lines += ['    x = a', '    y = b', '    z = c', '    w = 0']
    nst = rng.randrange(2, 7)
    has_return = False
    for _ in range(nst):
        if rng.random() < 0.3:
            k = rng.choice(sorted(SPECIAL))
            used.add(k)
            st = rng.choice(SPECIAL[k])
        else:
            st = _fill(rng, rng.choice(STMTS), cats, used)
        lines.append(indent(st))
        if st.startswith('return') or st.startswith('raise'):
            has_return = True
            break
    if not has_return:
        lines.append(indent(_fill(rng, rng.choice(['return {E}', 'return x', 'return x, y', 'return ({E}, x)', 'return']), cats, used)))
    src = '\n'.join(lines) + '\n'
    return src, used


def unusual_programs(rng, n, exposed_fraction=0.08):
    """n programs; a fraction places a walrus where the ContextAdjuster reaches it (known finding)."""
    made = 0
    attempts = 0
    while made < n and attempts < n * 20:
        attempts += 1
        src, used = unusual_program(rng, walrus_exposed=rng.random() < exposed_fraction)
        full = progen.PRELUDE + src
        try:
            with warnings.catch_warnings():
                warnings.simplefilter('ignore')
                compile(full, '<c17gen>', 'exec')
        except SyntaxError:
            continue
        made += 1
        yield progen.Program(full, [(1, 2, 3, [1, 2])], ['unusual'] + sorted('u:' + u for u in used), 'unusual')


def exhaustive_snippets():
    """every expression of every pool once, in a fixed simple statement context — (category, expression, program)"""
    for cat in sorted(EXPRS):
        for e in EXPRS[cat]:
            for shape in ('x = {E}', 'return {E}', 'if {E}:\n    x = 1', 'x = tr({E}, ({E}, a))'):
                st = shape.replace('{E}', e)
                src = 'def f(a, b, c, l):\n    x = a\n    y = b\n    z = c\n' + indent(st) + '\n    return x\n'
                full = progen.PRELUDE + src
                try:
                    compile(full, '<c17gen>', 'exec')
                except SyntaxError:
                    continue
                yield cat, e, progen.Program(full, [(1, 2, 3, [1, 2])], ['unusual', 'u:' + cat], 'unusual')
    for k in sorted(SPECIAL):
        for st in SPECIAL[k]:
            src = 'def f(a, b, c, l):\n    x = a\n    y = b\n    z = c\n    w = 0\n' + indent(st) + '\n    return x\n'
            full = progen.PRELUDE + src
            try:
                compile(full, '<c17gen>', 'exec')
            except SyntaxError:
                continue
            yield k, st, progen.Program(full, [(1, 2, 3, [1, 2])], ['unusual', 'u:' + k], 'unusual')
    for hd in HEADERS:
        for doc in DOCSTRINGS:
            src = hd + '\n' + ('    ' + doc + '\n' if doc else '') + '    x = a\n    return x\n'
            full = progen.PRELUDE + src
            try:
                compile(full, '<c17gen>', 'exec')
            except SyntaxError:
                continue
            yield 'signature', hd + (doc or ''), progen.Program(full, [(1, 2, 3, [1, 2])], ['unusual', 'u:signature', 'u:docstring'], 'unusual')


# ---------------------------------------------------------------- composite-state stream
# Stores through LITERAL subscripts inside if/while/for/with/try bodies with the container live-in: qual_names gives
# `a[<literal>]` a composite qualified name, control_flow then carries it through get_state/set_state, and the state
# functions are built from `QN.ast()` — i.e. a node SYNTHESISED from the literal's value, which must print and re-parse
# to itself (a `Constant(-1)` prints as `-1` and re-parses as `UnaryOp(USub, Constant(1))`).
CS_INDICES = {
    'neg-int': ['-1', '-2', '- 1', '-0'],
    'pos-int': ['0', '1', '+1', '~0', '0x10', '10**2'],
    'float': ['1.5', '-1.5', '1e3', '-0.0', '1.'],
    'str': ["'k'", '"it\'s"', "'a' 'b'", "''", "'\\n'", "u'k'"],
    'bytes': ["b'k'"],
    'bool-none': ['True', 'False', 'None'],
    'complex-ellipsis': ['1j', '-1j', '...'],
    'tuple': ['(1, 2)', '1, -2', '()'],
    'nested': ['0][-1', '-1][-1', "'k'][0", "'k']['j'", '0][1.5', '-1][a', 'a][-1', "True][None"],
    'name-expr': ['a', '-a', 'a + 1', 'i0'],
}
CS_STORES = ['{X} = 5', '{X} += 1', '{X} = {X} + 1', '{X}, y = 1, 2', 'del {X}', '{X} -= -1', 'x = {X} = b', '{X} = [{X}]']
CS_CORE_STORES = ['{X} = 5', '{X} += 1']
CS_BODIES = {
    'if': 'if c:\n{S}',
    'if-else': 'if c:\n{S}\nelse:\n    y = 0',
    'while': 'while d():\n{S}\n    if a:\n        break',
    'for': 'for i0 in n():\n{S}',
    'for-if': 'for i0 in n():\n    if i0:\n    {S}',
    'with': 'with cm(1):\n    if c:\n    {S}',
    'try': 'try:\n    if c:\n    {S}\nfinally:\n    y = 1',
    'nested-def': 'def g():\n    if c:\n    {S}\n    return m\ng()',
}
CS_CORE_BODIES = ['if', 'while', 'for']
CS_CORE_INDICES = ['neg-int', 'float', 'str', 'bool-none', 'nested']


def _cs_program(idx, store, body):
    # `m` holds anything: a dict whose values are again dicts/lists, so every index form is at least plausible
    x = 'm[%s]' % idx
    st = store.replace('{X}', x)
    blk = CS_BODIES[body].replace('{S}', '    ' + st)
    src = ('def f(a, b, c, l):\n    x = a\n    y = b\n    i0 = 0\n    m = {0: [l, l], -1: [l, l], \'k\': {0: l, \'j\': l}, a: [a, b], True: {None: 0}}\n'
           + indent(blk) + '\n    return m, l\n')
    return progen.PRELUDE + src


def composite_state_programs():
    """-> (core: bool, category, description, Program).  core = negative/float/string/bool-None/nested indices x plain and
    augmented store x if/while/for body (always run); the rest of the product is stride-sampled by the caller."""
    import warnings
    for cat in sorted(CS_INDICES):
        for idx in CS_INDICES[cat]:
            for store in CS_STORES:
                for body in sorted(CS_BODIES):
                    full = _cs_program(idx, store, body)
                    try:
                        with warnings.catch_warnings():
                            warnings.simplefilter('ignore')
                            compile(full, '<c17gen>', 'exec')
                    except SyntaxError:
                        continue
                    core = cat in CS_CORE_INDICES and store in CS_CORE_STORES and body in CS_CORE_BODIES
                    yield core, cat, '%s | %s | %s' % (idx, store, body), progen.Program(
                        full, [(1, 2, 3, [1, 2])], ['composite_state', 'cs:' + cat, 'cs:' + body], 'composite')


# ---------------------------------------------------------------- signatures of the converted entity (always run)
# parameters a, b, c, l in every kind; keyword-only parameters with and without default in every order
SIGNATURES = [
    'a, b, c, l', 'a, b, c, *, l', 'a, b, *, c, l', 'a, *, b, c, l', '*, a, b, c, l', 'a, b, c, *, l=0', 'a, b, *, c, l=0', 'a, b, *, c=0, l',
    'a, b, *, c=0, l=1', 'a, *, b, c=0, l', 'a, *, b=0, c, l=1', 'a, *, b=0, c=1, l', '*, a, b=0, c, l=None', '*, a=0, b, c=1, l',
    'a, /, b, c, l', 'a, b, /, c, *, l', 'a, /, b=1, *, c, l=2', 'a, b=1, /, c=2, *, l', 'a, *rest, b, c, l', 'a, *rest, b=0, c, l=1, **kw',
    'a, b, c, l, **kw', 'a, b=1, c=-1, l=None', 'a, b=1, *rest, c, l=(1, 2), **kw', 'a, /, b, *, c, l, **kw',
    'a: int, b: "str", *, c: float, l: list = None', 'a: int = 0, *rest: int, b, c: "q" = 1, l, **kw: dict', 'a, b, c, *, l: int',
    'a=lambda: 1, *, b, c=lambda q=1: q, l', 'a, b, c, l=[*range(3)]', 'a, *, b, c, l=..., **k',
]

# ---------------------------------------------------------------- kinds of entity (function OBJECTS with state on them)
_ENT_BODY = '    x = a\n    if x > 0:\n        x = x + 1\n    return x\n'
ENTITY_KINDS = [
    # attributes set on the function object
    'def f(a, b, c, l):\n' + _ENT_BODY + 'f.tag = "t"\nf.registry = [1, 2]\n',
    # functools.wraps wrapper (carries __wrapped__, __dict__ of the wrapped function)
    'import functools\ndef logged(fn):\n    @functools.wraps(fn)\n    def wrapper(a, b, c, l):\n        if a > 0:\n            a = fn(a, b, c, l)\n        return a\n    return wrapper\n'
    '@logged\ndef f(a, b, c, l):\n    return a + 1\n',
    # update_wrapper by hand, no decorator syntax on the converted function
    'import functools\ndef g(a, b, c, l):\n    """the wrapped one"""\n    return a - 1\ng.mark = 1\ndef f(a, b, c, l):\n' + _ENT_BODY + 'functools.update_wrapper(f, g)\n',
    # __wrapped__ set by hand
    'def g(a, b, c, l):\n    return 0\ndef f(a, b, c, l):\n' + _ENT_BODY + 'f.__wrapped__ = g\n',
    # __wrapped__ chain of two
    'import functools\ndef g0(a, b, c, l):\n    return 0\ndef g1(a, b, c, l):\n    return 1\nfunctools.update_wrapper(g1, g0)\ndef f(a, b, c, l):\n' + _ENT_BODY + 'functools.update_wrapper(f, g1)\n',
    # other dunder/state: __doc__, __annotations__, __kwdefaults__, __defaults__
    'def f(a, b=1, c=2, *, l=3):\n    """doc"""\n' + _ENT_BODY + 'f.__doc__ = "changed"\nf.__annotations__ = {"a": int}\nf.__defaults__ = (5, 6)\nf.__kwdefaults__ = {"l": 7}\n',
    # a method's function
    'class K(object):\n    def m(self, a, b, c, l):\n' + _ENT_BODY.replace('    ', '        ').replace('        x = x + 1', '            x = x + 1') + 'f = K.m\nf.note = 1\n',
    # a function with attributes that shadow names malt sets
    'def f(a, b, c, l):\n' + _ENT_BODY + 'f.ag_note = 1\nf.__qualname__ = "renamed"\n',
]
