"""C18 — A-normal-form transformation preserves evaluation order and yields ANF.

Tie: correspondence of the Lean model `Conv.Anf` with `anf.transform` (structural equality of the output
AST / same error) on generated programs under the default and random edge-pattern configurations and on
every function of /repo; correspondence of the small semantics `Py.SemAnf` with CPython; direct oracle:
execute original vs. transformed with a logging tracer in every operand position.
"""
import ast, collections, copy, glob, json, os, re

import common
from common import sexp, parse_sexp
import pyast
import c18_lib as L
import c18_gen as G

MODEL_FILES = ['MaltModel/Conv/Anf.lean', 'MaltModel/Conv/AnfSpec.lean', 'MaltModel/Py/SemAnf.lean',
               'MaltModel/Py/SemAnfStd.lean', 'MaltModel/Drv/C18.lean'] + \
              ['MaltModel/Proofs/' + os.path.basename(p) for p in sorted(glob.glob(os.path.join(common.LEAN, 'MaltModel', 'Proofs', 'C18*.lean')))]

# priority in which a failing case is attributed when the program has several hazard classes
CLASS_ORDER = ['matmult_operator_node_hoisted_as_expression', 'user_name_has_temporary_form', 'walrus_target_context_clobbered_by_hoisted_copy', 'with_target_hoisted_as_read', 'pending_statements_dropped',
               'name_read_reordered_after_rebinding_operand', 'store_target_evaluated_before_value',
               'later_target_operand_hoisted_before_earlier_store', 'with_item_evaluated_before_earlier_enter',
               'dict_value_reordered_after_later_key', 'operand_effect_reordered_after_later_operand']

TEMP_RE = re.compile(r'^tmp_\d+$')


# ------------------------------------------------------------------ python-side checks of the real output
def _matches_slot(slot, node):
    if slot is None:
        return True
    return any(isinstance(node, getattr(ast, c)) for c in slot)


def should_transform(cfg, parent, field, child):
    rules = cfg if cfg is not None else [['edge', None, None, ['Constant', 'Name'], False], ['edge', None, None, ['expr'], True]]
    for r in rules:
        if r[0] == 'any':
            return r[1]
        _, p, f, c, d = r
        if _matches_slot(p, parent) and (f is None or f == field) and _matches_slot(c, child):
            return d
    return False


ENSURED = {ast.Call: ['func', 'args', 'keywords'], ast.BinOp: ['left', 'right'], ast.UnaryOp: ['operand'],
           ast.Compare: ['left', 'comparators'], ast.Attribute: ['value'], ast.Subscript: ['value', 'slice'],
           ast.Set: ['elts'], ast.Dict: ['keys', 'values'], ast.Return: ['value'], ast.Raise: ['exc', 'cause'],
           ast.If: ['test'], ast.For: ['iter'], ast.While: ['test'], ast.With: ['items'], ast.BoolOp: ['values'],
           ast.IfExp: ['test', 'body', 'orelse'], ast.Lambda: ['body'], ast.Assert: ['test', 'msg']}


def _trivial(n):
    return isinstance(n, ast.Name) or (isinstance(n, ast.Constant) and n.value is Ellipsis)


def _edge_ok(cfg, parent, field, child, bad):
    if child is None:
        return
    if isinstance(child, list):
        for c in child:
            _edge_ok(cfg, parent, field, c, bad)
        return
    if isinstance(child, ast.keyword):
        return _edge_ok(cfg, parent, field, child.value, bad)
    if isinstance(child, ast.Starred):
        return _edge_ok(cfg, parent, field, child.value, bad)
    if isinstance(child, ast.withitem):
        _edge_ok(cfg, parent, field, child.context_expr, bad)
        return _edge_ok(cfg, parent, field, child.optional_vars, bad)
    if _trivial(child):
        return
    if should_transform(cfg, parent, field, child):
        bad.append('%s.%s holds %s' % (type(parent).__name__, field, ast.unparse(child)[:60]))


def shape_problems(out_fn, cfg):
    """Every position the configuration selects holds a variable (or `...`) in the real output."""
    bad = []
    for node in ast.walk(out_fn):
        fields = ENSURED.get(type(node))
        if type(node) in (ast.Tuple, ast.List) and not isinstance(node.ctx, ast.Store):
            fields = ['elts']
        for f in fields or []:
            _edge_ok(cfg, node, f, getattr(node, f), bad)
    return bad


def temp_targets(out_fn):
    return [n.targets[0].id for n in ast.walk(out_fn)
            if isinstance(n, ast.Assign) and len(n.targets) == 1 and isinstance(n.targets[0], ast.Name)
            and TEMP_RE.match(n.targets[0].id)]


def _nontrivial(e):
    return not isinstance(e, (ast.Name, ast.Constant))


def nontrivial_lazy(fn):
    """Constructs the default configuration must reject (as the code documents them)."""
    out = []
    for n in ast.walk(fn):
        if isinstance(n, (ast.ListComp, ast.SetComp, ast.DictComp, ast.GeneratorExp)):
            out.append(type(n).__name__)
        elif isinstance(n, ast.Compare) and len(n.ops) > 1:
            out.append('Compare')
        elif isinstance(n, ast.BoolOp) and any(_nontrivial(v) for v in n.values):
            out.append('BoolOp')
        elif isinstance(n, ast.IfExp) and any(_nontrivial(v) for v in (n.test, n.body, n.orelse)):
            out.append('IfExp')
        elif isinstance(n, ast.Lambda) and _nontrivial(n.body):
            out.append('Lambda')
        elif isinstance(n, ast.JoinedStr) and any(isinstance(v, ast.FormattedValue) and _nontrivial(v.value)
                                                  for m in ast.walk(n) for v in [m]):
            out.append('JoinedStr')     # "Nontrivial JoinedStr / FormattedValue nodes not supported yet"
        elif isinstance(n, ast.While) and _nontrivial(n.test):
            out.append('While')
        elif isinstance(n, ast.Assert) and (_nontrivial(n.test) or (n.msg is not None and _nontrivial(n.msg))):
            out.append('Assert')
    return out


# ------------------------------------------------------------------ cases
def gen_cases(run):
    rng = run.rng
    quick = run.tier == 'quick'
    cases = []          # dict(key, src, cfg, stream)
    for key, src in G.FIXED:
        st = 'mutable' if key.startswith('mutable') else 'fixed'
        cases.append({'key': 'fixed:' + key, 'src': src, 'cfg': None, 'stream': st})
        cases.append({'key': 'fixed:' + key + ':leave', 'src': src, 'cfg': [['any', False]], 'stream': st})
        if key.startswith(('lazy-nested', 'annotation', 'fstring')):
            for k, cfg in enumerate(L.INNER_ONLY + (G.FSTRING_CFGS if key.startswith('fstring') else [])):
                cases.append({'key': 'fixed:%s:inner%d' % (key, k), 'src': src, 'cfg': cfg, 'stream': st})
    n_main = 420 if quick else 4200
    n_lazy = 60 if quick else 600
    n_temp = 15 if quick else 100
    n_frag = 150 if quick else 1500
    feats = collections.Counter()
    for i in range(n_main + n_lazy + n_temp + n_frag):
        stream = 'main' if i < n_main else 'lazy' if i < n_main + n_lazy else 'temp' if i < n_main + n_lazy + n_temp else 'frag'
        g = G.Gen(rng, size=rng.randint(2, 9), depth=rng.randint(1, 3),
                  lazy=0.3 if stream == 'lazy' else 0.0, temp_names=(stream == 'temp'), frag=(stream == 'frag'),
                  shallow_bias=rng.choice([0.2, 0.6, 0.95]), walrus=rng.choice([0.0, 0.06, 0.15]),
                  raising=rng.choice([0.0, 0.05, 0.15]), fstr=rng.choice([0.0, 0.0, 0.12]) if stream in ('main', 'lazy') else 0.0)
        src = g.program()
        try:
            ast.parse(src)
        except SyntaxError:      # a generator slip must not turn into an infrastructure error
            feats['(unparsable program skipped)'] += 1
            continue
        for f in g.feats:
            feats[f] += 1
        cases.append({'key': '%s%d' % (stream, i), 'src': src, 'cfg': None, 'stream': stream})
        for _ in range(1 if quick else 2):
            cases.append({'key': '%s%d:rc' % (stream, i), 'src': src, 'cfg': L.random_config(rng), 'stream': stream})
    # f-strings (fields format an object with observable formatting, later fields mutate it) in statements of every kind
    for i in range(70 if quick else 700):
        src, fs = G.fstring_program(rng)
        for f in fs:
            feats[f] += 1
        for cfg in [None, rng.choice(G.FSTRING_CFGS), rng.choice(G.FSTRING_CFGS + L.INNER_ONLY + [L.random_config(rng)])]:
            cases.append({'key': 'fstr%d' % i, 'src': src, 'cfg': cfg, 'stream': 'fstring'})
    # one program for every node kind of the grammar the random generators never produce
    for key, src in G.GRAMMAR:
        feats['grammar-' + key] += 1
        cfgs = [None, [['any', False]]] + L.INNER_ONLY + [L.random_config(rng) for _ in range(2 if quick else 10)]
        for k, cfg in enumerate(cfgs):
            cases.append({'key': 'grammar:%s:%d' % (key, k), 'src': src, 'cfg': cfg, 'stream': 'grammar'})
    # lazy constructs with nested calls in the lazy operand, under configurations naming inner positions only
    for i in range(50 if quick else 500):
        src, fs = G.lazy_nested_program(rng)
        for f in fs:
            feats[f] += 1
        for cfg in [None, rng.choice(L.INNER_ONLY), rng.choice(L.INNER_ONLY + [L.random_config(rng)])]:
            cases.append({'key': 'lazyn%d' % i, 'src': src, 'cfg': cfg, 'stream': 'lazy-nested'})
    # annotated locals: the annotation is never evaluated
    for i in range(50 if quick else 500):
        src, fs = G.annassign_program(rng)
        for f in fs:
            feats[f] += 1
        for cfg in [None, rng.choice(L.INNER_ONLY + [L.random_config(rng)])]:
            cases.append({'key': 'ann%d' % i, 'src': src, 'cfg': cfg, 'stream': 'annassign'})
    # repeated call-free expressions around a call that mutates what they read (mutable box / list / global)
    for i in range(60 if quick else 600):
        src, fs = G.mutable_program(rng)
        for f in fs:
            feats[f] += 1
        cases.append({'key': 'mut%d' % i, 'src': src, 'cfg': None, 'stream': 'mutable'})
        if rng.random() < 0.3:
            cases.append({'key': 'mut%d:rc' % i, 'src': src, 'cfg': L.random_config(rng), 'stream': 'mutable'})
    # programs that already mention tmp_1NNN names: user code, and real two-pass pipelines
    # (pass 1 under a random configuration by the transformer itself, its output is the input of the case)
    n_pipe = 80 if quick else 800
    made = 0
    for i in range(n_pipe * 3):
        if made >= n_pipe:
            break
        g = G.Gen(rng, size=rng.randint(2, 7), depth=rng.randint(1, 3), temp_names=(rng.random() < 0.3),
                  temp_hi=True, shallow_bias=rng.choice([0.2, 0.6, 0.95]), raising=rng.choice([0.0, 0.05]))
        src = g.program()
        try:
            fn1 = ast.parse(src).body[0]
        except SyntaxError:
            continue
        if rng.random() < 0.7:
            r1 = L.real_anf(fn1, L.random_config(rng))
            if r1[0] != 'ok' or not isinstance(r1[1], ast.FunctionDef) or not temp_targets(r1[1]):
                continue
            try:
                src = ast.unparse(ast.fix_missing_locations(r1[1])) + '\n'
                ast.parse(src)
            except Exception:
                continue
            feats['two-pass-pipeline'] += 1
        elif not re.search(r'\btmp_\d+\b', src):
            continue
        else:
            feats['user-temp-names'] += 1
        made += 1
        cases.append({'key': 'pipe%d' % i, 'src': src, 'cfg': None, 'stream': 'pipeline'})
        if rng.random() < 0.4:
            cases.append({'key': 'pipe%d:rc' % i, 'src': src, 'cfg': L.random_config(rng), 'stream': 'pipeline'})
    return cases, feats


def load_corpus():
    out = []
    for p in sorted(glob.glob(os.path.join(common.VERIF, 'corpus', 'C18', '*.json'))):
        with open(p) as f:
            c = json.load(f)
        out.append({'key': 'corpus:' + os.path.basename(p), 'src': c['src'], 'cfg': c.get('cfg'), 'stream': 'corpus'})
    return out


def _mutable(case):
    """programs using the mutable part of the prelude (outside the pure-load assumption of Py.SemAnf)"""
    return case.get('stream') == 'mutable' or bool(re.search(r'\b(bump|B|L|G|F|Fm)\b', case['src']))


_SEM_BINOPS = (ast.Add, ast.Sub, ast.Mult)
_SEM_CMPOPS = (ast.Lt, ast.LtE, ast.Gt, ast.GtE, ast.Eq, ast.NotEq)
_NO_SEM = tuple(getattr(ast, n) for n in
                ['JoinedStr', 'FormattedValue', 'Await', 'Yield', 'YieldFrom', 'AsyncFunctionDef', 'AsyncFor', 'AsyncWith', 'ClassDef',
                 'Import', 'ImportFrom', 'Match', 'TryStar', 'TypeAlias'] if hasattr(ast, n))


def _outside_sem(fn):
    """constructs Py.SemAnf does not give a meaning to (checked on the real code by execution only)"""
    for n in ast.walk(fn):
        if isinstance(n, _NO_SEM):
            return True
        if isinstance(n, (ast.BinOp, ast.AugAssign)) and not isinstance(n.op, _SEM_BINOPS):
            return True
        if isinstance(n, ast.Compare) and not all(isinstance(o, _SEM_CMPOPS) for o in n.ops):
            return True
        if isinstance(n, ast.Starred) and isinstance(n.ctx, ast.Store):
            return True
        if isinstance(n, ast.Call):     # calls of anything but the tracer functions of the prelude (closures, lambdas, modules)
            f = n.func
            while isinstance(f, ast.Attribute):
                f = f.value
            if isinstance(f, ast.Name) and f.id not in ('tr', 'mk', 'E', 'cm', 'O') and not f.id.startswith('tmp_'):
                return True
        if isinstance(n, ast.Constant) and not isinstance(n.value, (int, str, type(None))):
            return True
        if isinstance(n, (ast.FunctionDef, ast.Lambda)) and n is not fn and getattr(n, 'type_params', None):
            return True
    return False


def ast_histogram(cases):
    """node kinds of the generated corpus, and the kinds of Python's grammar that never occur in it"""
    h = collections.Counter()
    for c in cases:
        try:
            t = ast.parse(c['src'])
        except SyntaxError:
            continue
        for n in ast.walk(t):
            h[type(n).__name__] += 1
    dep = {'Num', 'Str', 'Bytes', 'NameConstant', 'Ellipsis', 'Index', 'ExtSlice', 'Suite', 'Param', 'AugLoad', 'AugStore',
           'Interactive', 'Expression', 'FunctionType'}
    uni = {}
    for base in (ast.expr, ast.stmt, ast.operator, ast.unaryop, ast.cmpop, ast.boolop, ast.expr_context,
                 getattr(ast, 'pattern', None), getattr(ast, 'type_param', None)):
        if base is None:
            continue
        for k in base.__subclasses__():
            if k.__name__ not in dep:
                uni[k.__name__] = base.__name__
    for k in ('comprehension', 'ExceptHandler', 'arguments', 'arg', 'keyword', 'alias', 'withitem', 'match_case'):
        uni[k] = 'other'
    never = sorted(k for k in uni if h[k] == 0)
    by_group = collections.defaultdict(dict)
    for k, g in uni.items():
        by_group[g][k] = h[k]
    return {'node_counts': {g: dict(sorted(d.items(), key=lambda kv: -kv[1])) for g, d in by_group.items()},
            'never_generated': never,
            'never_generated_expression_kinds': [k for k in never if uni[k] in ('expr', 'operator', 'unaryop', 'cmpop', 'boolop')]}


def args_sexp(a):
    return sexp([['int', str(x)] for x in a])


# ------------------------------------------------------------------ one case on the real code
def direct(case):
    """Run the real transformer and both programs.  -> dict with everything later steps need."""
    fn = G.parse_fn(case['src'])
    cfg = case['cfg']
    res = L.real_anf(fn, cfg)
    d = {'fn': fn, 'res': res, 'problems': [], 'diffs': []}
    d['lazy'] = nontrivial_lazy(fn)
    if res[0] == 'err':
        return d
    out = res[1]
    d['out'] = out
    if not isinstance(out, (ast.FunctionDef, ast.AsyncFunctionDef)):
        d['problems'].append('transform did not return a FunctionDef')
        return d
    d['problems'] += ['selected position not named: ' + b for b in shape_problems(out, cfg)]
    # temporaries introduced by THIS pass = `tmp_N = ...` assignments of the output that the input did not have
    # (the input may already assign names of that form: user code, or the output of an earlier pass)
    intro = collections.Counter(temp_targets(out)) - collections.Counter(temp_targets(fn))
    dup = sorted(t for t, k in intro.items() if k > 1)
    if dup:
        d['problems'].append('temporaries introduced by one pass collide with each other: %s' % dup)
    temps = list(intro.elements())
    d['ntemps'] = len(temps)
    if cfg is None and d['lazy']:
        d['problems'].append('accepted a non-trivial lazy construct: %s' % d['lazy'])
    else:
        comps = [k for k in d['lazy'] if k in ('ListComp', 'SetComp', 'DictComp', 'GeneratorExp')]
        if comps:       # comprehensions are documented as unsupported whatever the configuration
            d['problems'].append('accepted a comprehension (never supported): %s' % comps)
    d['py_orig'], d['py_anf'] = [], []
    for a in G.INPUTS:
        o1 = G.run_python(copy.deepcopy(fn), a)
        o2 = G.run_python(copy.deepcopy(out), a)
        d['py_orig'].append(o1)
        d['py_anf'].append(o2)
        if G.exc_type_view(o1) != G.exc_type_view(o2):
            d['diffs'].append({'args': list(a), 'original': _short(o1), 'transformed': _short(o2)})
    return d


def _short(obs):
    o, log = obs
    return {'outcome': o, 'log': [[e[0], e[1], e[2], e[3]] for e in log][:40]}


def cfg_text(cfg):
    return 'default' if cfg is None else json.dumps(cfg)


def case_record(case, d=None):
    r = {'src': case['src'], 'cfg': case['cfg'], 'key': case['key']}
    if d is not None and d.get('out') is not None:
        try:
            r['transformed'] = ast.unparse(d['out'])
        except Exception:
            pass
    return r


# ------------------------------------------------------------------ the check
def check(run, only_cases=None):
    run.rule = ('random straight-line/if/for/with/try functions f(a, b) with tracer calls tr(k, ...) / O.m(...) / mk / cm / E '
                'in operand positions (call args, keywords, *, **, attribute bases, subscripts, slices, binary/unary/compare '
                'operands, tuple/list/set/dict displays, return/raise operands, store/augmented/delete targets), each under '
                'the default configuration and under random edge-pattern configurations; plus dedicated streams: lazy constructs '
                '(trivial / non-trivial / nested calls under inner-position-only configurations), comprehensions, temporary-like '
                'user names and two-pass pipelines, repeated reads around mutating calls, annotated locals, f-strings (1-3 fields, '
                'conversions, nested format specs, fields formatting objects with observable formatting next to mutating fields, '
                'in statements of every kind), and one program per remaining node kind of the grammar (all operators, identity / '
                'membership tests, global / nonlocal, imports, classes, async def / for / with, await, yield / yield from, match, '
                'except*, type aliases / type parameters); coverage.corpus_ast_node_kinds has the histogram of node kinds and the '
                'kinds never generated; a case = (program, configuration); '
                'distinct = distinct (source text, configuration); non-trivial = the transformer accepted it and introduced '
                '>= 1 temporary, or rejected it')
    run.assumptions += [
        'Py.SemAnf is a hand-written semantics of the generated subset (validated against CPython 3.12 on every run, not proved); '
        'operators, attribute/item loads and truthiness are pure total functions; unbound-name errors are not modelled',
        'directive callables other than anf.REPLACE / anf.LEAVE are not modelled (configurations are lists of edge patterns)',
        'attribute / item loads and operators are pure in Py.SemAnf; the stream "mutable" (a box, a list and a global mutated by '
        'bump()) checks the REAL transformer beyond that assumption by execution only, on statements whose operands are flat',
        'f-strings, generators, coroutines, classes, imports, match, calls of closures, starred targets and the operators other than '
        '+ - * < <= > >= == != have no meaning in Py.SemAnf: such programs are compared original-vs-transformed by execution in CPython '
        'only (coverage.semantics_runs counts them)',
        'C18_sem_partial is proved for the fragment stated in Props/C18.lean (fragFn); outside it preservation is tested, not proved; '
        'the distribution of the reasons that put accepted functions outside the fragment is in coverage.fragment_exclusion_*',
    ]
    run.build_and_audit('MaltModel.Props.C18', model_files=MODEL_FILES)

    if only_cases is None:
        cases, feats = gen_cases(run)
        cases = load_corpus() + cases
        run.cov['generator_features'] = dict(feats)
        run.cov['corpus_ast_node_kinds'] = ast_histogram(cases)
    else:
        cases = only_cases
    seen = set()
    uniq = []
    for c in cases:
        k = (c['src'], cfg_text(c['cfg']))
        if k not in seen:
            seen.add(k)
            uniq.append(c)
    cases = uniq

    # ---------------- 1. direct oracle on the real code (needs no Lean) ----------------
    results = []
    stats = collections.Counter()
    errkinds = collections.Counter()
    for c in cases:
        d = direct(c)
        results.append(d)
        if d['res'][0] == 'err':
            stats['rejected'] += 1
            errkinds['%s:%s' % (d['res'][1], d['res'][2])] += 1
            run.case((c['src'], cfg_text(c['cfg'])), True)
        else:
            stats['accepted'] += 1
            run.case((c['src'], cfg_text(c['cfg'])), d.get('ntemps', 0) > 0)
            if d.get('ntemps', 0) > 0:
                stats['accepted_with_temps'] += 1
            if d['diffs']:
                stats['behaviour_differs'] += 1
    run.cov['direct'] = dict(stats)
    run.cov['rejections_by_kind'] = dict(errkinds)

    # ---------------- driver batch: model transform, hazards, semantics ----------------
    answers = None
    if run.driver_ok:
        lines = []
        idx = []
        for c, d in zip(cases, results):
            ser = pyast.Ser(d['fn']).text()
            cs = L.config_to_sexp(c['cfg'])
            at = {'anf': len(lines)}
            lines.append('c18.anf %s %s' % (cs, ser))
            at['haz'] = len(lines)
            lines.append('c18.hazards%s %s %s' % ('-mut' if _mutable(c) else '', cs, ser))
            at['frag'] = len(lines)
            lines.append('c18.frag %s %s' % (cs, ser))
            at['why'] = len(lines)
            lines.append('c18.why %s %s' % (cs, ser))
            at['exec'] = len(lines)
            for a in G.INPUTS:
                lines.append('c18.exec %s %s' % (ser, args_sexp(a)))
            at['anfexec'] = len(lines)
            for a in G.INPUTS:
                lines.append('c18.anfexec %s %s %s' % (cs, ser, args_sexp(a)))
            idx.append(at)
        answers = run.drive(lines)

    def hazards_of(i):
        if answers is None:
            return None
        try:
            return list(parse_sexp(answers[idx[i]['haz']]))
        except Exception:
            return None

    # ---------------- a listed finding suppresses only while its own witness still fails (DESIGN 2.7) ----------------
    live_classes, stale = set(), []
    for k in common.load_known_findings():
        if k.get('property') != run.prop or k.get('status', 'open') != 'open':
            continue
        w = k.get('witness', {})
        try:
            dw = direct({'key': 'witness:' + k['id'], 'src': w['src'], 'cfg': w.get('cfg'), 'stream': 'witness'})
            fails = dw['res'][0] == 'ok' and bool(dw['diffs'] or dw['problems'])
        except Exception:
            fails = False
        if fails:
            live_classes.add(k['class'])
        else:
            stale.append(k['id'])
    run.cov['known_finding_witnesses_still_failing'] = sorted(live_classes)
    if stale:
        run.notes.append('listed findings whose witness no longer fails (they suppress nothing): %s' % stale)

    # ---------------- classify failing inputs of the direct oracle ----------------
    hazfree = 0
    hazcount = collections.Counter()
    for i, (c, d) in enumerate(zip(cases, results)):
        hz = hazards_of(i)
        if hz is not None:
            if not hz:
                hazfree += 1
            for h in hz:
                hazcount[h] += 1
        for p in d['problems']:
            cls = None
            if p.startswith('temporaries collide') or p.startswith('selected position') or p.startswith('accepted a non-trivial'):
                cls = None
            run.fail(p, case_record(c, d), cls)
        if d['diffs']:
            cls = None
            if hz:
                cands = [h for h in CLASS_ORDER if h in hz and h in live_classes]
                cls = cands[0] if cands else None
            rec = case_record(c, d)
            rec['diff'] = d['diffs'][0]
            rec['hazards'] = hz
            run.fail('transformed function behaves differently (result / ordered effect log / exception type)', rec, cls)
    run.cov['hazard_free_cases'] = hazfree
    if answers is not None:
        # (the theorem is about programs the model transforms: `anf cfg fn = .ok out`)
        infrag = [i for i in range(len(cases)) if answers[idx[i]['frag']] == 'True' and not _mutable(cases[i])
                  and answers[idx[i]['anf']].startswith('(ok')]
        bad = [case_record(cases[i]) for i in infrag if hazards_of(i)]
        run.cov['cases_in_proved_fragment'] = len(infrag)
        run.cov['cases_in_proved_fragment_with_temporaries'] = len([i for i in infrag if results[i].get('ntemps', 0) > 0])
        run.oblige('model:proved-fragment-has-no-hazard-class', 'correspondence', not bad, json.dumps(bad[:2]) if bad else '')
        # why are accepted cases outside the proved fragment?  (distribution of the excluding reasons)
        def why_stats(rows):
            acc = [w for w in rows if w is not None]
            c, sole = collections.Counter(), collections.Counter()
            for w in acc:
                for r in w:
                    c[r] += 1
                if len(w) == 1:
                    sole[w[0]] += 1
            inside = sum(1 for w in acc if not w)
            return {'accepted': len(acc), 'inside_fragment': inside,
                    'fraction_inside': round(inside / max(1, len(acc)), 4),
                    'reasons(functions having it)': dict(c.most_common(30)), 'sole_reason': dict(sole.most_common(15))}
        rows = []
        for i, (c, d) in enumerate(zip(cases, results)):
            if c['cfg'] is None and c['stream'] == 'main' and d['res'][0] == 'ok':
                try:
                    rows.append(list(parse_sexp(answers[idx[i]['why']])))
                except Exception:
                    rows.append(None)
        run.cov['fragment_exclusion_generated_main_default_cfg'] = why_stats(rows)
        run.cov['fragment_growth'] = {
            'before (fragment of the first C18_sem_partial)': {'repo_functions': '735/2480 = 29.6%', 'generated_main_stream': '60/600 = 10.0%'},
            'note': 'fraction of the functions the transformer accepts under the default configuration that satisfy fragFn '
                    '(and have no temporary-like names); current values in fragment_exclusion_*'}
    run.cov['hazard_classes_seen'] = dict(hazcount)

    # ---------------- 2. correspondence model <-> real transformer ----------------
    if answers is not None:
        dis = []
        n = 0
        for i, (c, d) in enumerate(zip(cases, results)):
            want = L.real_answer(d['res'])
            got = L.model_answer_canon(answers[idx[i]['anf']])
            n += 1
            if got.startswith('(err unsupported'):
                stats['outside_model'] += 1
                continue
            if want != got:
                dis.append({'case': case_record(c), 'implementation': want[:1500], 'model': got[:1500]})
        run.evaluations += n
        run.oblige('correspondence:c18.anf(generated)', 'correspondence', not dis, json.dumps(dis[:2]) if dis else '')
        # ... and on every function of /repo (syntactic corpus; never executed)
        import progen
        fns = list(progen.repo_functions())
        if run.tier == 'quick':
            off = run.seed % 5
            fns = fns[off::5]
        rl, rexp, rmeta = [], [], []
        for k, fn in enumerate(fns):
            cfgs = [None, L.random_config(run.rng)]
            for cfg in cfgs:
                rl.append('c18.anf %s %s' % (L.config_to_sexp(cfg), pyast.Ser(fn.node).text()))
                rexp.append(L.real_answer(L.real_anf(fn.node, cfg)))
                rmeta.append((fn.path, fn.qualname, cfg))
        wl = ['c18.why default %s' % pyast.Ser(fn.node).text() for fn in fns]
        wgot = run.drive(wl)
        rgot = run.drive(rl)
        rdis = []
        rk = collections.Counter()
        for g, e, m in zip(rgot, rexp, rmeta):
            run.evaluations += 1
            rk['ok' if e.startswith('(ok') else e[:40]] += 1
            if g.startswith('(err unsupported'):
                rk['outside-model:' + g[:40]] += 1
                continue
            if L.model_answer_canon(g) != e:
                rdis.append({'function': '%s:%s' % (m[0], m[1]), 'cfg': m[2], 'implementation': e[:800], 'model': L.model_answer_canon(g)[:800]})
        run.oblige('correspondence:c18.anf(repo-functions)', 'correspondence', not rdis, json.dumps(rdis[:2]) if rdis else '')
        rows = []
        for k, fn in enumerate(fns):
            # rexp[2*k] is the real answer under the default configuration
            if rexp[2 * k].startswith('(ok'):
                try:
                    rows.append(list(parse_sexp(wgot[k])))
                except Exception:
                    rows.append(None)
        run.cov['fragment_exclusion_repo_functions_default_cfg'] = why_stats(rows)
        run.cov['repo_functions_compared'] = len(rl)
        run.cov['repo_outcomes'] = dict(rk)

        # ---------------- 3. the small semantics vs CPython ----------------
        sdis, sn, skipped = [], 0, 0
        outside_sem = 0
        adis, an = [], 0
        mdis, mn = [], 0
        for i, (c, d) in enumerate(zip(cases, results)):
            if d['res'][0] == 'err' or any(isinstance(n, ast.While) for n in ast.walk(d['fn'])) or _mutable(c):
                continue        # Py.SemAnf has no `while`, and no mutable objects (loads are pure there)
            if _outside_sem(d['fn']):
                outside_sem += 1
                continue        # f-strings, generators, coroutines, classes, imports, the other operators: execution only
            hz = hazards_of(i) or []
            for j, a in enumerate(G.INPUTS):
                py = json.loads(json.dumps(d['py_orig'][j]))
                o = py[0]
                if o[0] not in ('return', 'raise') or (o[0] == 'raise' and o[1][1] != 'Err'):
                    skipped += 1
                    continue
                try:
                    mo = G.canon_model_obs(parse_sexp(answers[idx[i]['exec'] + j]))
                except Exception:
                    mo = answers[idx[i]['exec'] + j]
                sn += 1
                if mo != py:
                    sdis.append({'case': case_record(c), 'args': list(a), 'cpython': py, 'model': mo})
                # model transform + model semantics vs real transform + CPython
                pa = json.loads(json.dumps(d['py_anf'][j]))
                if 'walrus_target_context_clobbered_by_hoisted_copy' in hz:
                    pass        # CPython compiles a `:=` whose target has Load context into something else entirely
                elif pa[0][0] in ('return',) or (pa[0][0] == 'raise' and pa[0][1][1] == 'Err'):
                    try:
                        ma = G.canon_model_obs(parse_sexp(answers[idx[i]['anfexec'] + j]))
                    except Exception:
                        ma = answers[idx[i]['anfexec'] + j]
                    an += 1
                    if ma != pa:
                        adis.append({'case': case_record(c, d), 'args': list(a), 'cpython': pa, 'model': ma})
                # instance of the theorem inside the model: hazard-free => same observation
                if not hz:
                    mn += 1
                    if answers[idx[i]['exec'] + j] != answers[idx[i]['anfexec'] + j]:
                        mdis.append({'case': case_record(c, d), 'args': list(a), 'exec': answers[idx[i]['exec'] + j][:600],
                                     'anfexec': answers[idx[i]['anfexec'] + j][:600]})
        run.evaluations += sn + an + mn
        run.oblige('correspondence:Py.SemAnf-vs-CPython(original)', 'correspondence', not sdis, json.dumps(sdis[:2]) if sdis else '')
        run.oblige('correspondence:Py.SemAnf(model anf)-vs-CPython(real anf)', 'correspondence', not adis, json.dumps(adis[:2]) if adis else '')
        run.oblige('model:hazard-free-programs-preserved', 'correspondence', not mdis, json.dumps(mdis[:2]) if mdis else '')
        run.cov['semantics_runs'] = {'original': sn, 'transformed': an, 'model_theorem_instances': mn, 'skipped_other_exception': skipped,
                                     'cases_outside_Py.SemAnf(execution oracle only)': outside_sem}
    else:
        run.oblige('correspondence:c18', 'correspondence', False, 'driver unavailable')

    # samples for the evidence
    for c, d in zip(cases, results):
        if d['res'][0] == 'ok' and d.get('ntemps', 0) >= 3 and c['stream'] == 'main':
            run.sample({'program': c['src'], 'config': cfg_text(c['cfg']), 'transformed': ast.unparse(d['out']),
                        'observation': d['py_orig'][1]}, cap=3)
    for c, d in zip(cases, results):
        if d['res'][0] == 'err' and c['stream'] == 'lazy':
            run.sample({'program': c['src'], 'config': cfg_text(c['cfg']), 'rejected': list(d['res'][1:])}, cap=5)
    run.cov['search'] = ('direct oracle: %d (program, configuration) cases executed original vs transformed on %d inputs each; '
                         'hazard classification by the Lean predicate `hazards`' % (len(cases), len(G.INPUTS)))


def replay(run, path):
    with open(path) as f:
        rep = json.load(f)
    c = rep.get('case', rep)
    case = {'key': 'replay', 'src': c['src'], 'cfg': c.get('cfg'), 'stream': 'replay'}
    d = direct(case)
    print('--- program\n' + case['src'])
    print('--- configuration:', cfg_text(case['cfg']))
    if d['res'][0] == 'err':
        print('--- transformer raised', d['res'][1:])
    else:
        print('--- transformed\n' + ast.unparse(d['out']))
        for p in d['problems']:
            print('PROBLEM:', p)
        for df in d['diffs']:
            print('DIFF:', json.dumps(df)[:2000])
    check(run, only_cases=[case])
    return run.finish()
