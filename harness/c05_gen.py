"""Bounded-exhaustive enumeration of CONTROL SKELETONS for C05 (DESIGN.md §2.5).

The space S(N, D): all function bodies with at most N statements and compound-nesting depth at most D over
  leaves    S (plain assignment), RET, RAISE, DEF (nested def), and inside a loop BRK, CONT;
            in `rich` mode also L (assignment whose value holds lambdas), CLS (nested class), RETL (return of a lambda)
  compound  IF(body, else?), WHILE(body, else?), FOR(body, else?), WITH(body), DEFB (nested def with a body),
            TRY(body, 0..2 handlers, else? (only with a handler), finally?)  (at least one handler or a finally)
with jump statements only where Python allows them.  Dead code after a jump is part of the space.

The space is never materialised: `count` is a DP and `unrank(i)` builds the i-th skeleton of the canonical order, so a
stride sample `offset + k*stride` is cheap and the evidence can state the exact size of the space.
"""
import functools

LEAF1 = ['S', 'RET', 'RAISE', 'DEF']
LEAF1_RICH = ['L', 'CLS', 'RETL']
LEAF_LOOP = ['BRK', 'CONT']


class Space:
    def __init__(self, max_stmts, max_depth, rich=False):
        self.N, self.D, self.rich = max_stmts, max_depth, rich
        self.leaves = LEAF1 + (LEAF1_RICH if rich else [])
        self.stmt_count = functools.lru_cache(maxsize=None)(self._stmt_count)
        self.block_count = functools.lru_cache(maxsize=None)(self._block_count)
        self.try_shapes = functools.lru_cache(maxsize=None)(self._try_shapes)
        self.size = sum(self.block_count(n, self.D, False) for n in range(1, self.N + 1))

    # ---- counting --------------------------------------------------------------------------
    def _block_count(self, n, d, loop):
        """sequences of statements of total size exactly n (n = 0: the empty block)"""
        if n == 0:
            return 1
        return sum(self.stmt_count(k, d, loop) * self.block_count(n - k, d, loop) for k in range(1, n + 1))

    def _try_shapes(self, m):
        """(a, hs, c, e): body size, tuple of handler body sizes, else size, finally size; sum = m"""
        out = []
        for a in range(1, m + 1):
            for nh in (0, 1, 2):
                for hs in _compositions(m - a, nh):
                    rest = m - a - sum(hs)
                    for c in range(0, rest + 1):
                        e = rest - c
                        if c and not nh:
                            continue
                        if not nh and not e:
                            continue
                        out.append((a, hs, c, e))
        return out

    def _stmt_count(self, n, d, loop):
        if n == 1:
            return len(self.leaves) + (len(LEAF_LOOP) if loop else 0)
        if d == 0:
            return 0
        m = n - 1
        bc = self.block_count
        tot = 0
        # IF
        tot += sum(bc(a, d - 1, loop) * bc(m - a, d - 1, loop) for a in range(1, m + 1))
        # WHILE, FOR
        tot += 2 * sum(bc(a, d - 1, True) * bc(m - a, d - 1, loop) for a in range(1, m + 1))
        # WITH
        tot += bc(m, d - 1, loop)
        # DEFB
        tot += bc(m, d - 1, False)
        # TRY
        for a, hs, c, e in self.try_shapes(m):
            t = bc(a, d - 1, loop) * bc(c, d - 1, loop) * bc(e, d - 1, loop)
            for h in hs:
                t *= bc(h, d - 1, loop)
            tot += t
        return tot

    # ---- unranking -------------------------------------------------------------------------
    def unrank(self, i):
        """i-th function body (list of statement trees) in canonical order, 0 <= i < size"""
        for n in range(1, self.N + 1):
            c = self.block_count(n, self.D, False)
            if i < c:
                return self.block(i, n, self.D, False)
            i -= c
        raise IndexError(i)

    def block(self, i, n, d, loop):
        if n == 0:
            return []
        for k in range(1, n + 1):
            cs, cb = self.stmt_count(k, d, loop), self.block_count(n - k, d, loop)
            if i < cs * cb:
                return [self.stmt(i // cb, k, d, loop)] + self.block(i % cb, n - k, d, loop)
            i -= cs * cb
        raise IndexError

    def _two(self, i, a, b, d, la, lb):
        cb = self.block_count(b, d, lb)
        return self.block(i // cb, a, d, la), self.block(i % cb, b, d, lb)

    def stmt(self, i, n, d, loop):
        if n == 1:
            ks = self.leaves + (LEAF_LOOP if loop else [])
            return (ks[i],)
        m = n - 1
        bc = self.block_count
        for a in range(1, m + 1):
            c = bc(a, d - 1, loop) * bc(m - a, d - 1, loop)
            if i < c:
                x, y = self._two(i, a, m - a, d - 1, loop, loop)
                return ('IF', x, y)
            i -= c
        for kind in ('WHILE', 'FOR'):
            for a in range(1, m + 1):
                c = bc(a, d - 1, True) * bc(m - a, d - 1, loop)
                if i < c:
                    x, y = self._two(i, a, m - a, d - 1, True, loop)
                    return (kind, x, y)
                i -= c
        c = bc(m, d - 1, loop)
        if i < c:
            return ('WITH', self.block(i, m, d - 1, loop))
        i -= c
        c = bc(m, d - 1, False)
        if i < c:
            return ('DEFB', self.block(i, m, d - 1, False))
        i -= c
        for a, hs, cc, e in self.try_shapes(m):
            sizes = [a] + list(hs) + [cc, e]
            t = 1
            for s in sizes:
                t *= bc(s, d - 1, loop)
            if i < t:
                parts = []
                for s in reversed(sizes):
                    cnt = bc(s, d - 1, loop)
                    parts.append(self.block(i % cnt, s, d - 1, loop))
                    i //= cnt
                parts.reverse()
                return ('TRY', parts[0], parts[1:1 + len(hs)], parts[-2], parts[-1])
            i -= t
        raise IndexError


def _compositions(total_max, k):
    """tuples of k positive ints with sum <= total_max"""
    if k == 0:
        return [()]
    out = []
    for first in range(1, total_max + 1):
        for rest in _compositions(total_max - first, k - 1):
            out.append((first,) + rest)
    return out


# ---- rendering -----------------------------------------------------------------------------------
def render(body, name='f'):
    """skeleton -> Python source of `def f(a): ...` (plain Python; executable control does not matter here,
    the harness executes an instrumented copy driven by decision vectors)"""
    lines = ['def %s(a, b=0):' % name]
    # handler types and raised classes are not part of the skeleton: they rotate through the kinds below, starting at a
    # position derived from the skeleton, so that every kind occurs in every syntactic position across the space
    ctx = {'h': len(repr(body)) % 7, 'r': len(repr(body)) % 5, 's': len(repr(body)) % len(SIMPLE_KINDS)}
    _block(body, 1, lines, ctx)
    return '\n'.join(lines) + '\n'


HANDLER_KINDS = ['E%d', 'Exception', '(E0, E1)', 'BaseException', 'KeyError', 'E%d', None]   # None: bare `except:` (last clause only)
# every kind of simple statement `_process_basic_statement` handles (the plain leaf `S` rotates through them)
SIMPLE_KINDS = ['x = a', 'x: int = a', 'x += a', 'g(a)', 'n: int', 'del x', 'pass', 'import os', 'from os import path',
                'global G', 'nonlocal N', 'assert a', 'assert a, b', 'x = y = a']
RAISE_KINDS = ['raise E(a)', 'raise E(a)', 'raise E0(a)', 'raise E(a)', 'raise BX(a)']


def _block(stmts, ind, lines, ctx):
    if not stmts:
        lines.append('    ' * ind + 'pass')
    for s in stmts:
        _stmt(s, ind, lines, ctx)


def _stmt(s, ind, lines, ctx):
    p = '    ' * ind
    k = s[0]
    if k == 'SRC':
        for ln in s[1]:
            lines.append(p + ln)                       # raw source lines (targeted families)
    elif k == 'S':
        if len(s) > 1:
            lines.append(p + s[1])                     # explicit text (targeted families)
        else:
            lines.append(p + SIMPLE_KINDS[ctx['s'] % len(SIMPLE_KINDS)])
            ctx['s'] += 1
    elif k == 'L':
        lines.append(p + 'x = g(lambda u=(lambda: 0): u, key=lambda: (lambda: 1))')
    elif k == 'RET':
        lines.append(p + 'return a')
    elif k == 'RETL':
        lines.append(p + 'return lambda: a')
    elif k == 'RAISE':
        if len(s) > 1:
            lines.append(p + s[1])                     # explicit text (targeted families)
        else:
            lines.append(p + RAISE_KINDS[ctx['r'] % len(RAISE_KINDS)])
            ctx['r'] += 1
    elif k == 'BRK':
        lines.append(p + 'break')
    elif k == 'CONT':
        lines.append(p + 'continue')
    elif k == 'DEF':
        lines.append(p + 'def h(y):')
        lines.append(p + '    return y')
    elif k == 'CLS':
        lines.append(p + 'class C(B):')
        lines.append(p + '    z = 1')
        lines.append(p + '    def m(self):')
        lines.append(p + '        return self')
    elif k == 'DEFB':
        lines.append(p + 'def h(y):')
        _block(s[1], ind + 1, lines, ctx)
    elif k == 'IF':
        lines.append(p + 'if a:')
        _block(s[1], ind + 1, lines, ctx)
        if s[2]:
            lines.append(p + 'else:')
            _block(s[2], ind + 1, lines, ctx)
    elif k in ('WHILE', 'FOR'):
        lines.append(p + ('while a:' if k == 'WHILE' else 'for i in a:'))
        _block(s[1], ind + 1, lines, ctx)
        if s[2]:
            lines.append(p + 'else:')
            _block(s[2], ind + 1, lines, ctx)
    elif k == 'WITH':
        lines.append(p + 'with a as w, b:')
        _block(s[1], ind + 1, lines, ctx)
    elif k == 'TRY':
        lines.append(p + 'try:')
        _block(s[1], ind + 1, lines, ctx)
        for j, h in enumerate(s[2]):
            if len(s) > 5:
                lines.append(p + s[5][j])              # explicit clauses (targeted families)
            else:
                kind = HANDLER_KINDS[ctx['h'] % len(HANDLER_KINDS)]
                ctx['h'] += 1
                if kind is None and j + 1 < len(s[2]):
                    kind = 'E%d'                       # a bare `except:` must be the last clause
                lines.append(p + ('except:' if kind is None else 'except %s:' % (kind % j if '%d' in kind else kind)))
            _block(h, ind + 1, lines, ctx)
        if s[3]:
            lines.append(p + 'else:')
            _block(s[3], ind + 1, lines, ctx)
        if s[4]:
            lines.append(p + 'finally:')
            _block(s[4], ind + 1, lines, ctx)
    else:
        raise ValueError(k)


def features(body):
    out = set()

    def go(ss):
        for s in ss:
            out.add(s[0])
            if s[0] == 'SRC':
                continue
            if s[0] == 'TRY':
                go(s[1]); [go(h) for h in s[2]]; go(s[3]); go(s[4])
                if s[2]:
                    out.add('HANDLER')
                if s[3]:
                    out.add('TRYELSE')
                if s[4]:
                    out.add('FINALLY')
            else:
                for part in s[1:]:
                    if isinstance(part, list):
                        go(part)
                if s[0] in ('WHILE', 'FOR') and s[2]:
                    out.add('LOOPELSE')
    go(body)
    return out


def nested_try_family():
    """Targeted exhaustive family (quick tier): try statements nested INSIDE the finally block / a handler / the else
    block of another try, so that the lifetimes of `finally_section_has_direct_flow`, `pending_finally_sections` and
    `finally_section_subgraphs` of two (or three) try statements overlap.  All combinations of
      place      where the inner try sits in the outer try: finally / handler / else
      inner      shape of the inner try: finally only / handler+finally / handler only
      ending     how the inner try body ends: falls through / return / raise / break / continue
      wrap       inner try unconditional / under `if` / in the `else` of an `if`
      reach      how the outer try body ends (outer finally reached by fall-through or by a jump)
      outer_fin  outer try has a finally block (forced when place = finally)
      deep       the inner finally block itself contains a third try/finally whose body jumps
      tail       a statement follows the inner try inside the part / follows the outer try
      lead       (place = else) the else block starts with the inner try or the `if` itself / with a plain statement
    break/continue variants are wrapped in a loop.  Returns a list of function bodies (same tree format as `Space`)."""
    S = ('S',)
    ends = {'fall': [S], 'ret': [('RET',)], 'raise': [('RAISE',)], 'brk': [('BRK',)], 'cont': [('CONT',)]}
    out = []
    for place in ('finally', 'handler', 'else'):
        for inner in ('fin', 'hfin', 'h'):
            for ending in ('fall', 'ret', 'raise', 'brk', 'cont'):
                for wrap in ('none', 'if', 'ifelse'):
                    for reach in ('fall', 'ret', 'raise', 'brk', 'cont'):
                        for outer_fin in (True, False):
                            if place == 'finally' and not outer_fin:
                                continue
                            for deep in (False, True):
                                if deep and inner == 'h':
                                    continue
                                for tail in (0, 1, 2, 3):
                                  # the else block starts with the inner try / the `if` itself, or with a plain statement
                                  for lead in ((False, True) if place == 'else' else (False,)):
                                    ifin = [S]
                                    if deep:
                                        ifin = [('TRY', list(ends[ending if ending != 'fall' else 'ret']), [], [], [S]), S]
                                    itry = ('TRY', [S] + list(ends[ending]) if ending == 'fall' else list(ends[ending]),
                                            [[S]] if inner in ('hfin', 'h') else [], [],
                                            ifin if inner in ('fin', 'hfin') else [])
                                    if wrap == 'none':
                                        part = [itry]
                                    elif wrap == 'if':
                                        part = [('IF', [itry], [])]
                                    else:
                                        part = [('IF', [S], [itry])]
                                    if lead:
                                        part = [S] + part
                                    if tail & 1:
                                        part = part + [S]
                                    obody = [S] + list(ends[reach]) if reach == 'fall' else list(ends[reach])
                                    if place == 'finally':
                                        otry = ('TRY', obody, [], [], part)
                                    elif place == 'handler':
                                        otry = ('TRY', obody, [part], [], [S] if outer_fin else [])
                                    else:
                                        otry = ('TRY', obody, [[S]], part, [S] if outer_fin else [])
                                    body = [otry] + ([S] if tail & 2 else [])
                                    if 'brk' in (ending, reach) or 'cont' in (ending, reach):
                                        body = [('WHILE', body, []), S]
                                    out.append(body)
    return out


def _leaf_positions(body):
    """paths of the plain leaves `('S',)` of a skeleton"""
    out = []

    def go(ss, path):
        for k, st in enumerate(ss):
            if st == ('S',):
                out.append(path + (k,))
            else:
                for j, part in enumerate(st[1:], 1):
                    if isinstance(part, list):
                        if part and isinstance(part[0], list):        # the handler list of a TRY
                            for h, hb in enumerate(part):
                                go(hb, path + (k, j, h))
                        else:
                            go(part, path + (k, j))
    go(body, ())
    return out


def _replace(body, path, new):
    if len(path) == 1:
        return body[:path[0]] + [new] + body[path[0] + 1:]
    k = path[0]
    st = list(body[k])
    j = path[1]
    if len(path) >= 3 and st[j] and isinstance(st[j][0], list):
        hs = list(st[j])
        hs[path[2]] = _replace(hs[path[2]], path[3:], new)
        st[j] = hs
    else:
        st[j] = _replace(st[j], path[2:], new)
    return body[:k] + [tuple(st)] + body[k + 1:]


LEAF_KINDS = [('S', t) for t in SIMPLE_KINDS] + [('RET',), ('RAISE', 'raise E(a)'), ('DEF',), ('CLS',), ('L',), ('RETL',)]


def leaf_kind_family():
    """Targeted exhaustive family (every quick run): EVERY plain-statement position of every small skeleton
    (`Space(3, 2)`) is filled with EVERY leaf kind once — all simple statements the builder treats as basic statements
    (Assign, AnnAssign with and without value, AugAssign, Expr, Delete, Pass, Import, ImportFrom, Global, Nonlocal, Assert),
    return, raise, nested def / class, lambda-bearing statements — and inside a loop also break / continue; plus explicit
    contexts that need more than three statements: the leaf as first (or only) statement of a try body, handler, else block,
    finally block (with and without handlers), loop body, loop else, with body, if branch, followed or not by a statement.
    A visitor that drops one statement kind is therefore executed by the trace oracle in every syntactic position."""
    out = []
    sp = Space(3, 2)
    for i in range(sp.size):
        body = sp.unrank(i)
        for path in _leaf_positions(body):
            for leaf in LEAF_KINDS:
                out.append(_replace(body, path, leaf))
    P = ('S', 'x = a')
    for leaf in LEAF_KINDS + [('BRK',), ('CONT',)]:
        for tail in ([], [P]):
            hole = [leaf] + tail
            ctxs = []
            if leaf[0] not in ('BRK', 'CONT'):
                ctxs += [
                    [('TRY', hole, [[P]], [P], [P])], [('TRY', [P], [hole], [P], [P])], [('TRY', [P], [[P]], hole, [P])],
                    [('TRY', [P], [[P]], [P], hole)], [('TRY', [P], [], [], hole)], [('TRY', hole, [], [], [P])],
                    [('TRY', [P], [[P], hole], [], [])], [('WITH', hole)], [('IF', hole, [P])], [('IF', [P], hole)],
                    [('WHILE', [P], hole)], [('FOR', [P], hole)], [('TRY', [('TRY', [P], [], [], hole)], [], [], hole)],
                ]
            ctxs += [[('WHILE', hole, [])], [('FOR', hole, [P])], [('WHILE', [('TRY', hole, [[P]], [], [P])], [])],
                     [('FOR', [('TRY', [P], [hole], [P], [])], [])], [('WHILE', [('TRY', [P], [], [], [P]), ('IF', hole, [])], [])]]
            for c in ctxs:
                out.append(c + [P])
    return out


def local_class_family():
    """Targeted exhaustive family (every run): a function with a LOCAL class — plain, with methods, with control flow in the
    class body, with nested classes, with lambdas — at the top of the function / under `if` / in a loop / in a try body /
    in a finally block / inside a nested def, FOLLOWED (directly, after a statement, or inside a later compound) by nested
    defs (plain, with control flow, with an inner def), lambdas (assigned, as call arguments, returned), or another class;
    so several GraphBuilders are live within ONE cfg.build call and every function / lambda graph of the returned dict can
    be checked against its own function."""
    P = ('S', 'x = a')
    classes = [
        ['class K:', '    z = 1'],
        ['class K(B):', '    z = 1', '    def m(self):', '        return self'],
        ['class K:', '    if a:', '        z = 1', '    else:', '        z = 2', '    for i in a:', '        w = i', '    try:', '        v = 1', '    finally:', '        u = 2'],
        ['class K:', '    class J(B):', '        def n(self):', '            return lambda: self', '    def m(self, y):', '        while y:', '            y = g(y)', '        return J'],
        ['class K:', '    key = lambda s: s', '    def m(self):', '        def inner(t):', '            return t', '        return inner'],
    ]
    followers = [
        ['def h(y):', '    return y'],
        ['x = lambda: a'],
        ['def h(y):', '    if y:', '        return y', '    while y:', '        y = g(y)', '    return a'],
        ['return lambda: a'],
        ['x = g(lambda u: u, key=lambda: 1)', 'def h2(y):', '    x = y'],
        ['def h(y):', '    def k(z):', '        return z', '    return k'],
        ['class K2:', '    def m2(self):', '        return 2', 'def h(y):', '    return y'],
    ]
    out = []
    for cl in classes:
        C = ('SRC', cl)
        for fo in followers:
            F = ('SRC', fo)
            out += [
                [C, F], [C, P, F], [P, C, P, F, P],
                [('IF', [C], [P]), F], [('IF', [C, F], [])], [C, ('IF', [P], [F])],
                [('WHILE', [C, P], []), F], [C, ('FOR', [F], [])] if fo[0] != 'return lambda: a' else [C, ('FOR', [P], []), F],
                [('TRY', [C], [[P]], [], [P]), F], [('TRY', [P], [], [], [C]), F], [C, ('TRY', [P], [[F]], [], [])],
                [('DEFB', [C, P]), F], [C, C, F],
            ]
    return out


def raise_handler_family():
    """Targeted exhaustive family (quick tier): a try nested in the BODY of another try, both with handlers, over all
    combinations of
      inner / outer clauses   bare, `Exception`, `BaseException`, one class, a tuple of classes, class + `Exception`,
                              class + bare
      place                   the explicit raise sits in the inner body / the inner `else` block / the first inner handler
      raised                  the generic `raise E(a)` (the decision vector picks the class, among them a class that is
                              not an `Exception`), `raise BX(a)` (a `BaseException` that is not an `Exception`), `raise E0(a)`, `raise E1`
      after                   a statement follows the inner try inside the outer body
      ifin                    the inner try has a `finally` block
    so that which handler of which try an explicit raise reaches depends on Python's matching rule.  The raise is
    conditional, so the parts after it are live.  Returns a list of function bodies."""
    S = ('S',)
    CL = [['except:'], ['except Exception:'], ['except BaseException:'], ['except E0:'], ['except (E0, E1):'],
          ['except E0:', 'except Exception:'], ['except E1:', 'except:']]
    RS = ['raise E(a)', 'raise BX(a)', 'raise E0(a)', 'raise E1']
    out = []
    for icl in CL:
        for ocl in CL:
            for place in ('body', 'else', 'handler'):
                for r in RS:
                    for after in (False, True):
                        for ifin in (False, True):
                            R = ('IF', [('RAISE', r)], [])
                            if place == 'body':
                                ibody = [S, R]
                            elif place == 'handler':
                                ibody = [S, ('IF', [('RAISE', 'raise E(a)')], [])]
                            else:
                                ibody = [S]
                            ih = [[S, R] if (place == 'handler' and j == 0) else [S] for j in range(len(icl))]
                            ielse = ([R] if after else [S, R]) if place == 'else' else []     # also: else block starting with `if`
                            itry = ('TRY', ibody, ih, ielse, [S] if ifin else [], icl)
                            otry = ('TRY', [itry] + ([S] if after else []), [[S] for _ in ocl], [], [], ocl)
                            out.append([otry, ('RET',)])
    return out


def sample_indices(size, cap, seed):
    """All indices when size <= cap, else a stride sample with a seed-derived offset (different seeds cover
    different residues).  Returns (indices, exhaustive, stride, offset)."""
    if size <= cap:
        return range(size), True, 1, 0
    stride = -(-size // cap)
    offset = (seed * 7919 + 13) % stride
    return range(offset, size, stride), False, stride, offset


if __name__ == '__main__':
    import sys
    for n, d in ((3, 2), (4, 3), (5, 3), (6, 3), (7, 4)):
        for rich in (False, True):
            sp = Space(n, d, rich)
            print(n, d, rich, sp.size)
    sp = Space(4, 3)
    for i in range(0, sp.size, sp.size // 7):
        print(render(sp.unrank(i)))
