"""C09 case generator: signatures x closure shapes -> module source text.

A case is a plain dict (JSON-serialisable); `render(case)` is a pure function of it, so a failing case
replays from its recorded data alone.  Every generated module defines

    COUNTS = {'default': n, 'deco': n}      # side-effect counters of default expressions / the decorator
    def build(convert): ... -> dict          # defines the function(s), converts them with `convert`
                                              # (while 'empty' cells are still unassigned), returns handles

Names never shadow each other (disjoint pools for parameters, free variables, locals, globals), so the
set of occurrences of a free variable in the function text is exactly the set of `ast.Name` /
`nonlocal` occurrences of that identifier.
"""

KINDS = ['nested', 'nested', 'nested', 'toplevel', 'lambda', 'method', 'classmethod', 'loop', 'factory_loop',
         'looplambda', 'linelambdas', 'reloaded']
BODIES = ['ret', 'if', 'while', 'for']
DEFAULT_KINDS = ['int', 'list', 'dict', 'closure']


def gen_signature(rng, allow_closure_default, is_lambda):
    """List of params: dicts name, kind in posonly|pos|varpos|kwonly|varkw, default, ann."""
    ps = []
    n_po = rng.choice([0, 0, 1, 2])
    n_p = rng.choice([0, 1, 1, 2, 3])
    n_ko = rng.choice([0, 0, 1, 2])
    has_va = rng.random() < 0.4
    has_vk = rng.random() < 0.4
    if n_po + n_p == 0 and rng.random() < 0.7:
        n_p = 1
    # positional defaults must be a suffix of posonly+pos
    n_pos_total = n_po + n_p
    n_def = rng.choice([0, 0, 1, 2, n_pos_total]) if n_pos_total else 0
    n_def = min(n_def, n_pos_total)
    dk = DEFAULT_KINDS if allow_closure_default else DEFAULT_KINDS[:3]
    for i in range(n_po):
        ps.append({'name': 'p%d' % i, 'kind': 'posonly', 'default': None, 'ann': None})
    for i in range(n_p):
        ps.append({'name': 'q%d' % i, 'kind': 'pos', 'default': None, 'ann': None})
    for j in range(n_pos_total - n_def, n_pos_total):
        ps[j]['default'] = rng.choice(dk)
    if has_va:
        ps.append({'name': 'va', 'kind': 'varpos', 'default': None, 'ann': None})
    for i in range(n_ko):
        ps.append({'name': 'k%d' % i, 'kind': 'kwonly', 'default': rng.choice([None] + dk), 'ann': None})
    if has_vk:
        ps.append({'name': 'vk', 'kind': 'varkw', 'default': None, 'ann': None})
    return ps


def gen_case(rng, idx, force=None):
    """Draw one case. `force` may pin some fields (used to guarantee coverage of every shape)."""
    force = dict(force or {})
    kind = force.pop('kind', None) or rng.choice(KINDS)
    is_lambda = kind in ('lambda', 'looplambda', 'linelambdas')
    has_closure = kind not in ('toplevel', 'reloaded')
    c = {'id': idx, 'kind': kind}
    c['params'] = gen_signature(rng, has_closure, is_lambda)
    nfree = rng.choice([0, 1, 1, 2, 3, 4]) if has_closure else 0
    c['free'] = ['a%d' % i for i in range(nfree)]
    c['free_nested'] = ['n%d' % i for i in range(rng.choice([0, 0, 1, 2]))] if has_closure else []
    c['free_write'] = ['w%d' % i for i in range(rng.choice([0, 0, 1]))] if has_closure and not is_lambda else []
    c['unused'] = ['u%d' % i for i in range(rng.choice([0, 1, 2]))] if has_closure else []
    cand = c['free'] + c['free_nested']
    c['empty'] = sorted(rng.sample(cand, rng.choice([0, 0, 1, min(2, len(cand))]))) if cand and kind in ('nested', 'lambda', 'method') else []
    c['globals'] = rng.choice([[], ['g0'], ['g0', 'g1']])
    c['body'] = 'ret' if is_lambda else rng.choice(BODIES)
    c['super'] = rng.choice([None, 'super', 'class', 'both']) if kind in ('method', 'classmethod') else None
    c['bind'] = rng.choice(['bound', 'bound', 'unbound']) if kind == 'method' else 'bound'
    # receiver of the bound method is falsy (defines __len__ -> 0 / __bool__ -> False)
    c['falsy_self'] = rng.choice([None, None, 'len', 'bool']) if kind == 'method' else None
    # closure-free function re-created over the SAME code object in further namespaces (different __globals__)
    c['namespaces'] = rng.choice([1, 2, 3]) if kind == 'toplevel' else 1
    c['global_write'] = kind == 'toplevel' and rng.random() < 0.5
    # closed-over variables that are only REBOUND inside if / while / for bodies (never read by the function), in a
    # function that may also declare (and write, at its top level) a module global
    c['cf_write'] = ['x%d' % i for i in range(rng.choice([0, 0, 1, 2, 3]))] if has_closure and not is_lambda else []
    c['decl_global'] = has_closure and not is_lambda and rng.random() < 0.5
    # the function under test carries __wrapped__ (it is the WRAPPER): functools.wraps decorator, update_wrapper by hand,
    # __wrapped__ set manually to an unrelated function, or the outer of two stacked wraps-wrappers
    # several lambdas on ONE source line (different signatures; same or different free variables), converted in sequence
    c['params_more'] = []
    c['lam_free'] = []
    if kind == 'linelambdas':
        n = rng.choice([2, 2, 3])
        c['params_more'] = [gen_signature(rng, has_closure, True) for _ in range(n - 1)]
        c['lam_free'] = [list(c['free'])] + [
            list(c['free']) if rng.random() < 0.5 else sorted(rng.sample(c['free'], rng.randrange(len(c['free']) + 1)))
            for _ in range(n - 1)]
    # the same module file edited and executed again: another function at the same (file, line, name)
    c['params2'] = gen_signature(rng, False, False) if kind == 'reloaded' else []
    # further namespaces of a module-level function: types.FunctionType over the same code object, or the module source
    # executed again (equal code objects at the same site)
    c['ns_mode'] = rng.choice(['functiontype', 'reexec'])
    c['wrap'] = None
    if kind in ('nested', 'toplevel', 'loop', 'factory_loop', 'method') and rng.random() < 0.3:
        c['wrap'] = rng.choice(['wraps', 'wraps', 'update_wrapper', 'manual', 'stacked'])
    c['wrap_sig'] = rng.choice(['star', 'own', 'own'])      # wrapper takes (*va, **vk) or has its own parameters
    c['wrap_calls'] = rng.random() < 0.7                     # the wrapper calls (closes over) what it wraps
    c['decorated'] = (rng.random() < 0.4) and not is_lambda and kind not in ('method', 'classmethod')
    c['doc'] = (rng.random() < 0.3) and not is_lambda
    c['future_annotations'] = rng.random() < 0.15
    c['directive'] = None
    if not is_lambda and rng.random() < 0.25:
        c['directive'] = rng.choice(['global', 'closure_used', 'closure_only', 'arg_closure_only'] if has_closure else ['global'])
        if c['directive'] != 'arg_closure_only':
            c['body'] = rng.choice(['while', 'for'])
    c['clear'] = rng.choice(['defaults', 'kwdefaults', 'both']) if rng.random() < 0.08 and kind in ('nested', 'toplevel') else None
    c['api'] = 'convert' if rng.random() < 0.2 else 'to_graph'
    c['recursive'] = rng.random() < 0.6
    c['ninst'] = rng.choice([2, 3]) if kind in ('loop', 'factory_loop', 'looplambda') else 1
    c['sibling_conv'] = has_closure and kind == 'nested' and bool(c['free']) and rng.random() < 0.35
    # annotations (never on lambdas)
    c['ret_ann'] = None
    if not is_lambda and rng.random() < 0.35:
        anns = ['global', 'str']
        if has_closure and kind == 'nested':
            anns += ['encl']
            if [x for x in c['free'] if x not in c['empty']]:
                anns += ['free']
        for p in c['params']:
            if rng.random() < 0.5:
                p['ann'] = rng.choice(anns)
        if rng.random() < 0.4:
            c['ret_ann'] = rng.choice(anns)
    c.update(force)
    return normalise(c)


def normalise(c):
    """Make the forced combination consistent (so every dict renders to a valid module)."""
    kind = c['kind']
    is_lambda = kind in ('lambda', 'looplambda', 'linelambdas')
    if kind == 'toplevel':
        c['free'] = []; c['free_nested'] = []; c['free_write'] = []; c['unused'] = []; c['empty'] = []
        c['sibling_conv'] = False
        for p in c['params']:
            if p['default'] == 'closure':
                p['default'] = 'list'
        if c['directive'] not in (None, 'global'):
            c['directive'] = 'global'
    if is_lambda:
        c['free_write'] = []; c['decorated'] = False; c['doc'] = False; c['directive'] = None; c['body'] = 'ret'
        c['ret_ann'] = None
        for p in c['params']:
            p['ann'] = None
            # positional-only parameters of lambdas defeat malt's lambda source matching (parser._node_matches_argspec
            # ignores posonlyargs): that is property C15's finding, not a C09 shape
            if p['kind'] == 'posonly':
                p['kind'] = 'pos'
    if kind in ('method', 'classmethod'):
        c['decorated'] = False
    else:
        c['super'] = None
    if c['directive'] in ('global', 'closure_used', 'closure_only') and c['body'] not in ('while', 'for'):
        c['body'] = 'while'
    if c['kind'] not in ('nested', 'lambda', 'method'):
        c['empty'] = []
    c['empty'] = [x for x in c['empty'] if x in c['free'] + c['free_nested']]
    nonempty_free = [x for x in c['free'] if x not in c['empty']]
    for p in c['params']:
        if p['ann'] == 'free' and not nonempty_free:
            p['ann'] = 'global'
        if p['ann'] == 'encl' and kind != 'nested':
            p['ann'] = 'global'
    if c.get('ret_ann') == 'free' and not nonempty_free:
        c['ret_ann'] = 'global'
    if c.get('ret_ann') == 'encl' and kind != 'nested':
        c['ret_ann'] = 'global'
    if c['clear'] and kind not in ('nested', 'toplevel'):
        c['clear'] = None
    if c['kind'] != 'nested' or not c['free']:
        c['sibling_conv'] = False
    c.setdefault('falsy_self', None); c.setdefault('namespaces', 1); c.setdefault('global_write', False)
    c.setdefault('bind', 'bound'); c.setdefault('cf_write', []); c.setdefault('decl_global', False)
    c.setdefault('wrap', None); c.setdefault('wrap_sig', 'own'); c.setdefault('wrap_calls', False)
    c.setdefault('params_more', []); c.setdefault('lam_free', []); c.setdefault('params2', []); c.setdefault('ns_mode', 'functiontype')
    if kind == 'linelambdas':
        c['free_nested'] = []; c['empty'] = []
        if not c['params_more']:
            c['params_more'] = [[{'name': 'q0', 'kind': 'pos', 'default': None, 'ann': None}]]
        allps = [c['params']] + c['params_more']
        for j, ps in enumerate(allps):
            if not ps:
                ps.append({'name': 'q9', 'kind': 'pos', 'default': None, 'ann': None})
            for p in ps:
                p['ann'] = None
                if p['kind'] == 'posonly':
                    p['kind'] = 'pos'
                # distinct parameter names per lambda: malt (and we) tell the lambdas of a line apart by their signatures
                suffix = 'bcd'[j - 1] if j else ''
                if j and not p['name'].endswith(suffix):
                    p['name'] = p['name'] + suffix
        lf = list(c['lam_free']) + [list(c['free'])] * len(allps)
        c['lam_free'] = [[x for x in l if x in c['free']] for l in lf[:len(allps)]]
        c['lam_free'][0] = list(c['free'])
        c['ninst'] = len(allps)
    else:
        c['params_more'] = []; c['lam_free'] = []
    if kind == 'reloaded':
        for k in ('free', 'free_nested', 'free_write', 'unused', 'empty', 'cf_write'):
            c[k] = []
        c['sibling_conv'] = False; c['decl_global'] = False; c['clear'] = None; c['namespaces'] = 1
        c['directive'] = None if c['directive'] != 'global' else 'global'
        for ps in (c['params'], c['params2']):
            for p in ps:
                if p['default'] == 'closure':
                    p['default'] = 'list'
                if p['ann'] in ('encl', 'free'):
                    p['ann'] = 'global'
        if c.get('ret_ann') in ('encl', 'free'):
            c['ret_ann'] = 'global'
        if [(p['name'], p['kind'], p['default']) for p in c['params2']] == [(p['name'], p['kind'], p['default']) for p in c['params']]:
            c['params2'] = c['params2'] + [{'name': 'kz', 'kind': 'kwonly', 'default': 'int', 'ann': None}] \
                if not any(p['kind'] == 'varkw' for p in c['params2']) else \
                [{'name': 'qz', 'kind': 'pos', 'default': None, 'ann': None}] + [dict(p, default=None) if p['kind'] in ('pos', 'posonly') else p for p in c['params2']]
    else:
        c['params2'] = []
    if c.get('ns_mode') == 'reexec' and c.get('namespaces', 1) > 1:
        c['clear'] = None
    if kind not in ('nested', 'toplevel', 'loop', 'factory_loop', 'method'):
        c['wrap'] = None
    if kind == 'method' and c['wrap']:
        c['wrap'] = 'wraps'
    if c['wrap']:
        # functools.wraps copies __annotations__ of the wrapped function over the wrapper's: keep both unannotated
        c['ret_ann'] = None
        for p in c['params']:
            p['ann'] = None
        if c['wrap_sig'] == 'star':
            c['params'] = [{'name': 'va', 'kind': 'varpos', 'default': None, 'ann': None},
                           {'name': 'vk', 'kind': 'varkw', 'default': None, 'ann': None}]
        c['clear'] = None
    else:
        c['wrap_calls'] = False
    if kind == 'toplevel' or is_lambda:
        c['cf_write'] = []; c['decl_global'] = False
    if kind != 'method':
        c['falsy_self'] = None
    if kind != 'toplevel':
        c['namespaces'] = 1; c['global_write'] = False
    if c['namespaces'] > 1:
        c['globals'] = ['g0', 'g1']          # every instance reads its own namespace's values
    return c


def shape_key(c):
    """Distinctness key of a case: everything that makes the shape different, not the instance number."""
    return (c['kind'], tuple((p['kind'], p['default'], p['ann']) for p in c['params']), len(c['free']),
            len(c['free_nested']), len(c['free_write']), len(c['unused']), tuple(c['empty']), tuple(c['globals']),
            c['body'], c['super'], c['decorated'], c['directive'], c['clear'], c['api'], c['recursive'],
            c['future_annotations'], c['ret_ann'], c['sibling_conv'], c['ninst'], c.get('bind'),
            c.get('falsy_self'), c.get('namespaces', 1), c.get('global_write', False),
            len(c.get('cf_write', [])), c.get('decl_global', False), c.get('wrap'),
            c.get('wrap_sig') if c.get('wrap') else None, c.get('wrap_calls', False),
            tuple(tuple((p['kind'], p['default']) for p in ps) for ps in c.get('params_more', [])),
            tuple(len(l) for l in c.get('lam_free', [])),
            tuple((p['kind'], p['default'], p['ann']) for p in c.get('params2', [])),
            c.get('ns_mode') if c.get('namespaces', 1) > 1 else None)


def nontrivial(c):
    return bool(c['free'] or c['free_nested'] or c['free_write'] or c['kind'] in ('method', 'classmethod')
                or any(p['default'] for p in c['params']) or c.get('namespaces', 1) > 1 or c.get('cf_write') or c.get('wrap')
                or c['kind'] in ('linelambdas', 'reloaded'))


# ------------------------------------------------------------------------------------------------ rendering

def _default_expr(p, c, it):
    d = p['default']
    if d is None:
        return None
    if d == 'int':
        return '_dflt(%d)' % (7 + len(p['name']))
    if d == 'list':
        return '_dflt([%s])' % ('it' if it else '3')
    if d == 'dict':
        return "_dflt({'z': 1})"
    if d == 'closure':
        return '_dflt(dshared)'
    raise ValueError(d)


def _ann_expr(a, c):
    if a is None:
        return None
    if a == 'global':
        return 'GAnn'
    if a == 'str':
        return "'fwd'"
    if a == 'encl':
        return 'TAnn'
    if a == 'free':
        return [x for x in c['free'] if x not in c['empty']][0]
    raise ValueError(a)


def render_params(c, first=None, it=False):
    ps = c['params']
    out = [first] if first else []
    seen_slash = False
    po = [p for p in ps if p['kind'] == 'posonly']
    star_needed = any(p['kind'] == 'kwonly' for p in ps) and not any(p['kind'] == 'varpos' for p in ps)
    star_done = False
    for i, p in enumerate(ps):
        s = p['name']
        if p['kind'] == 'varpos':
            s = '*' + s
        elif p['kind'] == 'varkw':
            s = '**' + s
        elif p['kind'] == 'kwonly' and star_needed and not star_done:
            out.append('*'); star_done = True
        a = _ann_expr(p['ann'], c)
        if a:
            s += ': ' + a
        d = _default_expr(p, c, it)
        if d:
            s += (' = ' if a else '=') + d
        out.append(s)
        if p['kind'] == 'posonly' and (i + 1 == len(ps) or ps[i + 1]['kind'] != 'posonly'):
            out.append('/')
    if first and po:
        # `self` must stay positional-only when there are positional-only parameters: put it before them
        pass
    return ', '.join(out)


def result_items(c):
    """Expressions the function returns (in order)."""
    items = []
    for p in c['params']:
        if p['kind'] == 'varkw':
            items.append('sorted(%s.items())' % p['name'])
        else:
            items.append(p['name'])
    items += c['free']
    items += c['globals'] and [g if g == 'g0' else g + '[0]' for g in c['globals']] or []
    return items


def render_function(c, name, indent, first=None, it=False, is_method=False):
    """Lines of the def statement of the function under test."""
    I = ' ' * indent
    L = []
    if c['decorated']:
        L.append(I + '@_deco')
    if is_method == 'classmethod':
        L.append(I + '@classmethod')
    if c.get('wrap') in ('wraps', 'stacked'):
        L.append(I + '@functools.wraps(%s)' % wrap_target(c))
    ret = (' -> ' + _ann_expr(c['ret_ann'], c)) if c.get('ret_ann') else ''
    L.append(I + 'def %s(%s)%s:' % (name, render_params(c, first, it), ret))
    B = I + '    '
    if c['doc']:
        L.append(B + '"""docstring of the function."""')
    if c['free_write'] or c.get('cf_write'):
        L.append(B + 'nonlocal ' + ', '.join(c['free_write'] + c.get('cf_write', [])))
    if c.get('global_write') or c.get('decl_global'):
        L.append(B + 'global gw')
    # a per-case constant: code objects of different cases never compare equal (malt's conversion cache is keyed by
    # code-object equality, which ignores the file name; sharing conversions across modules is C10's subject)
    L.append(B + 'uid = %r' % c.get('uid', 'u'))
    L.append(B + 'acc = 0')
    d = c['directive']
    loop_dir = None
    if d == 'global':
        loop_dir = '_malt_mod.experimental.set_loop_options(maximum_iterations=5)'
    elif d in ('closure_used', 'closure_only'):
        loop_dir = 'mdir.experimental.set_loop_options(maximum_iterations=5)'
    firstp = next((p['name'] for p in c['params'] if p['kind'] in ('posonly', 'pos')), None)
    src0 = c['free'][0] if c['free'] else (c['globals'][0] if c['globals'] == ['g0'] else '1')
    if src0 in c['globals'] and src0 != 'g0':
        src0 = '1'
    if c['body'] == 'if':
        L.append(B + 'if %s:' % (firstp or 'acc == 0'))
        L.append(B + '    acc = acc + %s' % src0)
        L.append(B + 'else:')
        L.append(B + '    acc = acc - 1')
    elif c['body'] == 'while':
        L.append(B + 'i = 0')
        L.append(B + 'while i < 3:')
        if loop_dir:
            L.append(B + '    ' + loop_dir)
        L.append(B + '    acc = acc + %s + i' % src0)
        L.append(B + '    i = i + 1')
    elif c['body'] == 'for':
        L.append(B + 'for i in range(3):')
        if loop_dir:
            L.append(B + '    ' + loop_dir)
        L.append(B + '    acc = acc + %s + i' % src0)
    if d == 'arg_closure_only':
        L.append(B + 'lst = []')
        L.append(B + '_dirs.set_element_type(lst, dtyp)')
    extra = []
    for j, n in enumerate(c['free_nested']):
        form = j % 3
        if form == 0:
            L.append(B + 'def inner%d(z):' % j)
            L.append(B + '    return z + %s' % n)
            extra.append('inner%d(1)' % j)
        elif form == 1:
            L.append(B + 'lam%d = lambda zl%d: zl%d + %s' % (j, j, j, n))
            extra.append('lam%d(2)' % j)
        else:
            L.append(B + 'comp%d = [z + %s for z in range(2)]' % (j, n))
            extra.append('comp%d' % j)
    for w in c['free_write']:
        L.append(B + '%s = (acc, %s)' % (w, firstp or '0'))
    if c.get('global_write') or c.get('decl_global'):
        L.append(B + 'gw = (acc, %s)' % (firstp or '0'))
    # write-only rebinding of closed-over variables inside control flow (never read here or afterwards)
    for j, x in enumerate(c.get('cf_write', [])):
        form = j % 3
        if form == 0:
            L.append(B + 'if %s:' % (firstp or 'acc == 0'))
            L.append(B + "    %s = ('if', acc)" % x)
            L.append(B + 'else:')
            L.append(B + "    %s = ('else', acc)" % x)
        elif form == 1:
            L.append(B + 'iw%d = 0' % j)
            L.append(B + 'while iw%d < 2:' % j)
            L.append(B + "    %s = ('while', iw%d, acc)" % (x, j))
            L.append(B + '    iw%d = iw%d + 1' % (j, j))
        else:
            L.append(B + 'for jf%d in range(2):' % j)
            L.append(B + "    %s = ('for', jf%d, acc)" % (x, j))
    items = result_items(c) + ['acc'] + extra
    if c.get('wrap') and c.get('wrap_calls'):
        items.append('%s(*va, **vk)' % wrap_target(c) if c.get('wrap_sig') == 'star' else '%s(acc)' % wrap_target(c))
    if d == 'closure_used':
        items.append('mdir.__name__')
    if c['super'] in ('super', 'both'):
        items.append('super().base_m(acc)')
    if c['super'] in ('class', 'both'):
        items.append('__class__.__name__')
    L.append(B + 'return (%s,)' % ', '.join(items))
    return L


def render_lambda(c, it=False):
    items = [repr(c.get('uid', 'u'))] + result_items(c)
    for j, n in enumerate(c['free_nested']):
        items.append('(lambda z%d: z%d + %s)(%d)' % (j, j, n, j + 1))
    return 'lambda %s: (%s,)' % (render_params(c, None, it), ', '.join(items))


def wrap_target(c):
    return 'mid' if c.get('wrap') == 'stacked' else 'wt'


def wrapped_defs(c, I):
    """The function(s) the function under test wraps: another signature, another body."""
    if not c.get('wrap'):
        return []
    u = c.get('uid', 'u')
    L = [I + 'def wt(x=0, factor=2, *rest, **more):',
         I + '    uid = %r' % (u + '-wt'),
         I + "    return ('wrapped', x, factor, len(rest), sorted(more))"]
    if c['wrap'] == 'stacked':
        L += [I + '@functools.wraps(wt)',
              I + 'def mid(*a, **k):',
              I + '    uid = %r' % (u + '-mid'),
              I + "    return ('mid', wt(*a, **k))"]
    return L


def wrap_lines(c, I, fname='f'):
    """Statements attaching __wrapped__ after the def (the decorator forms are on the def itself)."""
    if c.get('wrap') == 'update_wrapper':
        return [I + 'functools.update_wrapper(%s, wt)' % fname]
    if c.get('wrap') == 'manual':
        return [I + '%s.__wrapped__ = wt' % fname]
    return []


def free_names(c):
    """All variables of the enclosing function the function under test closes over."""
    out = list(c['free']) + list(c['free_nested']) + list(c['free_write']) + list(c.get('cf_write', []))
    if c['directive'] in ('closure_used', 'closure_only'):
        out.append('mdir')
    if c['directive'] == 'arg_closure_only':
        out.append('dtyp')
    if c.get('wrap') and c.get('wrap_calls') and c['kind'] != 'toplevel':
        out.append(wrap_target(c))
    return out


def base_value(name):
    return {'a': 10, 'n': 20, 'w': 30, 'u': 90, 'x': 40}.get(name[0], 0) + int(name[1:]) if name[0] in 'anwux' else None


def render(c):
    L = []
    if c['future_annotations']:
        L.append('from __future__ import annotations')
    L += ['import functools',
          'import malt as _malt_mod',
          'from malt.lang import directives as _dirs',
          "COUNTS = {'default': 0, 'deco': 0}",
          'def _dflt(v):',
          "    COUNTS['default'] += 1",
          '    return v',
          'def _deco(fn):',
          "    COUNTS['deco'] += 1",
          '    return fn',
          'class GAnn(object):',
          '    pass',
          'g0 = 1000',
          'g1 = [2000]',
          'gw = None',
          'def call_f(fn, *a, **k):',
          '    uid = %r' % (c.get('uid', 'u') + '-callf'),
          '    return fn(*a, **k)',
          'def call_m(o, *a, **k):',
          '    uid = %r' % (c.get('uid', 'u') + '-caller'),
          '    return o.m(*a, **k)',
          '']
    kind = c['kind']
    if kind == 'toplevel':
        L += wrapped_defs(c, '')
        L += render_function(c, 'f', 0)
        L += wrap_lines(c, '')
        L.append('')
        L.append('def build(convert):')
        L.append("    out = {'setters': {}, 'getters': {}, 'inst_setters': [], 'inst_getters': [], 'ns': [globals()]}")
        L += _clear_lines(c, '    ')
        L.append("    out['f'] = [f]")
        L.append('    import types as _types')
        L.append('    for it in range(1, %d):' % c.get('namespaces', 1))
        if c.get('ns_mode') == 'reexec':
            # the module source executed again: equal code objects at the same (file, line), another namespace
            L.append("        ns = {'__name__': __name__, '__file__': __file__}")
            L.append("        with open(__file__) as _fh:")
            L.append("            exec(compile(_fh.read(), __file__, 'exec'), ns)")
            L.append("        ns['g0'] = 1000 + 500 * it")
            L.append("        ns['g1'] = [2000 + 500 * it]")
            L.append("        fk = ns['f']")
        else:
            L.append('        ns = dict(globals())')
            L.append("        ns['g0'] = 1000 + 500 * it")
            L.append("        ns['g1'] = [2000 + 500 * it]")
            L.append("        fk = _types.FunctionType(f.__code__, ns, f.__name__, f.__defaults__, None)")
            L.append("        fk.__kwdefaults__ = f.__kwdefaults__")
            L.append("        fk.__annotations__ = dict(f.__annotations__)")
            L.append("        fk.__dict__.update(f.__dict__)")
        L.append("        out['f'].append(fk)")
        L.append("        out['ns'].append(ns)")
        L.append("    for ns in out['ns']:")
        L.append("        out['inst_setters'].append({'g0': (lambda v, ns=ns: ns.__setitem__('g0', v))})")
        L.append("        out['inst_getters'].append({'g0': (lambda ns=ns: ns['g0']), 'gw': (lambda ns=ns: ns['gw'])})")
        L.append("    out['tf'] = [convert(x) for x in out['f']]")
        L.append('    return out')
        return '\n'.join(L) + '\n'
    if kind == 'factory_loop':
        L.append('def mk(it, out):')
        L += _enclosing(c, '    ', it=True)
        L.append("    out['f'].append(f)")
        L.append('')
        L.append('def build(convert):')
        L.append("    out = {'setters': {}, 'getters': {}, 'f': [], 'inst_setters': [], 'inst_getters': []}")
        L.append('    for it in range(%d):' % c['ninst'])
        L.append('        mk(it, out)')
        L.append("    out['tf'] = [convert(x) for x in out['f']]")
        L.append('    return out')
        return '\n'.join(L) + '\n'
    L.append('def build(convert):')
    L.append("    out = {'setters': {}, 'getters': {}, 'f': [], 'inst_setters': [], 'inst_getters': []}")
    if kind == 'linelambdas':
        L += _enclosing_vars(c, '    ')
        L += _accessors(c, '    ', per_instance=False)
        lams = []
        for j, ps in enumerate([c['params']] + c['params_more']):
            sub = dict(c, params=ps, free=c['lam_free'][j], free_nested=[], uid=c.get('uid', 'u') + '-l%d' % j)
            lams.append(render_lambda(sub))
        L.append('    fs = (%s,)' % ', '.join(lams))          # all on ONE source line
        L.append("    out['f'] = list(fs)")
        L.append("    out['tf'] = [convert(x) for x in out['f']]")
        L.append('    return out')
        return '\n'.join(L) + '\n'
    if kind in ('loop', 'looplambda'):
        L += _enclosing_vars(c, '    ')
        L.append('    for it in range(%d):' % c['ninst'])
        if kind == 'loop':
            L += render_function(c, 'f', 8, it=True)
            L += wrap_lines(c, '        ')
        else:
            L.append('        f = ' + render_lambda(c, it=True))
        L.append("        out['f'].append(f)")
        L += _accessors(c, '    ', per_instance=False)
        L.append("    out['tf'] = [convert(x) for x in out['f']]")
        L.append('    return out')
        return '\n'.join(L) + '\n'
    # nested / lambda / method / classmethod: one instance, conversion inside the enclosing function
    L += _enclosing(c, '    ')
    L.append('    return out')
    return '\n'.join(L) + '\n'


def _clear_lines(c, I):
    L = []
    if c['clear'] in ('defaults', 'both'):
        L.append(I + 'f.__defaults__ = None')
    if c['clear'] in ('kwdefaults', 'both'):
        L.append(I + 'f.__kwdefaults__ = None')
    return L


def _enclosing_vars(c, I, it=False):
    L = []
    for n in free_names(c) + c['unused']:
        if n in c['empty']:
            continue
        if n == 'mdir':
            L.append(I + 'mdir = _malt_mod')
        elif n == 'dtyp':
            L.append(I + 'dtyp = int')
        elif n in ('wt', 'mid'):
            pass
        else:
            L.append(I + '%s = %d%s' % (n, base_value(n), ' + 100 * it' if it else ''))
    if any(p['default'] == 'closure' for ps in [c['params']] + c.get('params_more', []) for p in ps):
        L.append(I + 'dshared = [5]')
    if any(p['ann'] == 'encl' for p in c['params']) or c.get('ret_ann') == 'encl':
        L.append(I + 'TAnn = int')
    L += wrapped_defs(c, I)
    return L


def _accessors(c, I, per_instance):
    L = []
    names = [n for n in free_names(c) if n not in ('mdir', 'dtyp', 'wt', 'mid')]
    for n in names:
        L.append(I + 'def set_%s(v):' % n)
        L.append(I + '    nonlocal %s' % n)
        L.append(I + '    %s = v' % n)
        L.append(I + 'def get_%s():' % n)
        L.append(I + '    return %s' % n)
    gwg = ["'gw': (lambda: globals()['gw'])"] if c.get('decl_global') else []
    if per_instance:
        L.append(I + "out['inst_setters'].append({%s})" % ', '.join("'%s': set_%s" % (n, n) for n in names))
        L.append(I + "out['inst_getters'].append({%s})" % ', '.join(["'%s': get_%s" % (n, n) for n in names] + gwg))
    else:
        for n in names:
            L.append(I + "out['setters']['%s'] = set_%s" % (n, n))
            L.append(I + "out['getters']['%s'] = get_%s" % (n, n))
        if gwg:
            L.append(I + "out['getters']['gw'] = lambda: globals()['gw']")
    return L


def _enclosing(c, I, it=False):
    """Body of the enclosing function for one instance (nested/lambda/method/classmethod/factory_loop)."""
    kind = c['kind']
    L = _enclosing_vars(c, I, it)
    L += _accessors(c, I, per_instance=(kind == 'factory_loop'))
    ind = len(I)
    if kind in ('nested', 'factory_loop'):
        L += render_function(c, 'f', ind, it=it)
        L += wrap_lines(c, I)
        L += _clear_lines(c, I)
    elif kind == 'lambda':
        L.append(I + 'f = ' + render_lambda(c))
    elif kind in ('method', 'classmethod'):
        L.append(I + 'class Base(object):')
        L.append(I + '    def base_m(self, x):')
        L.append(I + "        return ('base', x)")
        if kind == 'classmethod':
            L.append(I + '    base_m = classmethod(base_m)')
        L.append(I + 'class Derived(Base):')
        if c.get('falsy_self') == 'len':
            L.append(I + '    def __len__(self):')
            L.append(I + '        return 0')
        elif c.get('falsy_self') == 'bool':
            L.append(I + '    def __bool__(self):')
            L.append(I + '        return False')
        L += render_function(c, 'm', ind + 4, first=('self' if kind == 'method' else 'cls'),
                             is_method=kind)
        L.append(I + 'obj = Derived()')
        if kind == 'method' and c.get('bind') == 'unbound':
            L.append(I + 'f = Derived.m')          # plain function taken from the class
        else:
            L.append(I + 'f = obj.m' if kind == 'method' else I + 'f = Derived.m')
        L.append(I + "out['self'] = obj" if kind == 'method' else I + "out['self'] = Derived")
    if kind == 'factory_loop':
        return L
    L.append(I + "out['f'] = [f]")
    if c['sibling_conv']:
        a = c['free'][0]
        L.append(I + 'def sib(x):')
        L.append(I + '    return (x, %s)' % a)
        L.append(I + "out['sib'] = sib")
        L.append(I + "out['tsib'] = convert(sib, sibling=True)")
    L.append(I + "out['tf'] = [convert(f)]")
    for n in c['empty']:
        L.append(I + '%s = %d' % (n, base_value(n)))
    return L
