"""Round-trip self-test of the AST serialisation pair on every function of /repo's sources."""
import ast, glob, os, subprocess, sys
HERE = os.path.dirname(os.path.abspath(__file__))
sys.path.insert(0, HERE)
import common, pyast

def main():
    files = glob.glob(os.path.join(common.REPO, 'malt', '**', '*.py'), recursive=True) + \
            glob.glob(os.path.join(common.REPO, 'tests', '**', '*.py'), recursive=True)
    lines, srcs = [], []
    kinds = {}
    for f in files:
        tree = ast.parse(open(f).read())
        for node in tree.body:
            if isinstance(node, (ast.FunctionDef, ast.ClassDef)):
                s = pyast.Ser(node)
                lines.append('ast.stmt ' + s.text()); srcs.append((f, node, s))
                for k, v in s.kinds.items():
                    kinds[k] = kinds.get(k, 0) + v
    drv = os.path.join(common.LEAN, '.lake', 'build', 'bin', 'drv_ast')
    p = subprocess.run([drv], input='\n'.join(lines) + '\n', text=True, stdout=subprocess.PIPE)
    out = p.stdout.split('\n')[:-1]
    assert len(out) == len(lines), (len(out), len(lines))
    bad = 0
    for l, o, (f, node, s) in zip(lines, out, srcs):
        if l[len('ast.stmt '):] != o:
            bad += 1
            if bad < 4:
                print('MISMATCH', f, node.name, '\n', l[:300], '\n', o[:300])
        # python-side inverse: to_stmt(sexp) unparse == original unparse
        back = pyast.to_stmt(common.parse_sexp(o)) if o not in ('bad-node',) else None
        if back is None or ast.unparse(ast.fix_missing_locations(back)) != ast.unparse(node):
            bad += 1
            if bad < 4:
                print('PY-INVERSE MISMATCH', f, node.name)
    print('functions/classes: %d, nodes: %d, mismatches: %d' % (len(lines), sum(kinds.values()), bad))
    print(sorted(kinds.items(), key=lambda kv: -kv[1])[:60])
    return 1 if bad else 0

if __name__ == '__main__':
    sys.exit(main())
