"""C13 — the call wrapper is transparent, obeys the conversion policy, falls back safely.

Tie: translator (CONVERSION_RULES, the ordered chain of `converted_call`, the tests of is_unsupported /
is_allowlisted, partial merge, fallback) -> Generated/Policy.lean, interpreted by the model;
correspondence of the model's decision/effect with the REAL `api.converted_call` on every callable kind
built from a recipe (c13_zoo.py) x wrapper chains x options x context status x argument shapes x injected faults;
direct oracle: wrapped call vs direct call (result, effects, invocation count, binding), documented policy,
fallback (warning, remembered, next call skips conversion, strict mode re-raises).
"""
import contextlib, functools, inspect, io, itertools, json, os, shutil, sys, tempfile, types
import common
from common import sexp, parse_sexp
import c13_zoo as zoo

MODEL_FILES = ['MaltModel/Rt/Policy.lean', 'MaltModel/Generated/Policy.lean', 'MaltModel/Proofs/C13.lean', 'MaltModel/Drv/C13.lean']
CLS_FOREIGN_SELF = 'foreign_self_attribute'
CLS_UNCACHEABLE = 'uncacheable_target'
CLS_SHARED_OWNER = 'shared_function_owner_dependent_allowlist'
CLS_NESTED_ASYNC = 'nested_async_def_converted'


class InjectedFault(Exception):
    pass


# ------------------------------------------------------------------------------------------------ instrumentation

class Instr(object):
    """Harness-side monkeypatches (restored on exit): conversion counter, warning capture, fresh caches."""

    def __enter__(self):
        from malt.impl import api, conversion
        from malt.utils import ag_logging
        from malt.pyct import cache
        self.api, self.conversion, self.ag_logging, self.cache = api, conversion, ag_logging, cache
        self.saved = [(api, '_convert_actual', api._convert_actual), (ag_logging, 'warning', ag_logging.warning),
                      (conversion, '_ALLOWLIST_CACHE', conversion._ALLOWLIST_CACHE),
                      (api._TRANSPILER, '_cache', api._TRANSPILER._cache)]
        self.allowlist_cache_cls = type(conversion._ALLOWLIST_CACHE)
        self.transpiler_cache_cls = type(api._TRANSPILER._cache)
        self.saved_env = os.environ.get('AUTOGRAPH_STRICT_CONVERSION')
        self.converted_entities = []
        self.warnings = []
        orig = api._convert_actual

        def counting(entity, program_ctx):
            self.converted_entities.append(entity)
            return orig(entity, program_ctx)
        api._convert_actual = counting

        def warning(msg, *args, **kwargs):
            try:
                self.warnings.append(msg % args if args else msg)
            except Exception:
                self.warnings.append(str(msg))
        ag_logging.warning = warning
        return self

    def __exit__(self, *a):
        for obj, name, val in self.saved:
            setattr(obj, name, val)
        if self.saved_env is None:
            os.environ.pop('AUTOGRAPH_STRICT_CONVERSION', None)
        else:
            os.environ['AUTOGRAPH_STRICT_CONVERSION'] = self.saved_env

    def reset(self, fresh_transpiler):
        del self.converted_entities[:]
        del self.warnings[:]
        # a fresh, empty cache OF THE CLASS THE CODE UNDER TEST USES (never a class chosen by the harness)
        self.conversion._ALLOWLIST_CACHE = self.allowlist_cache_cls()
        if fresh_transpiler:
            self.api._TRANSPILER._cache = self.transpiler_cache_cls()

    def mark(self):
        return len(self.converted_entities), len(self.warnings)


def fault_points():
    """(stage, point name, object, attribute, exception factory, model exception class)"""
    from malt.pyct import inspect_utils, parser, errors, cfg, qual_names, loader, transpiler
    from malt.pyct.static_analysis import activity, reaching_definitions
    from malt.core import unsupported_features_checker
    from malt.converters import (functions, directives, break_statements, continue_statements, return_statements,
                                 call_trees, control_flow, conditional_expressions, logical_expressions, variables)
    P = [
        ('sourceLookup', 'inspect_utils.getimmediatesource', inspect_utils, 'getimmediatesource', lambda: OSError('injected: no source'), 'inaccessibleSource'),
        ('sourceLookup', 'parser.parse_entity', parser, 'parse_entity', lambda: errors.InaccessibleSourceCodeError('injected'), 'inaccessibleSource'),
        ('parse', 'parser.parse', parser, 'parse', lambda: SyntaxError('injected'), 'other'),
        ('featureCheck', 'unsupported_features_checker.verify', unsupported_features_checker, 'verify',
         lambda: errors.UnsupportedLanguageElementError('injected'), 'unsupportedElement'),
        ('analysis', 'cfg.build', cfg, 'build', lambda: InjectedFault('cfg'), 'other'),
        ('analysis', 'qual_names.resolve', qual_names, 'resolve', lambda: InjectedFault('qual_names'), 'other'),
        ('analysis', 'activity.resolve', activity, 'resolve', lambda: InjectedFault('activity'), 'other'),
        ('analysis', 'reaching_definitions.resolve', reaching_definitions, 'resolve', lambda: InjectedFault('reaching_definitions'), 'other'),
    ]
    for m in (functions, directives, break_statements, continue_statements, return_statements, call_trees, control_flow,
              conditional_expressions, logical_expressions, variables):
        P.append(('converter', m.__name__.split('.')[-1] + '.transform', m, 'transform',
                  (lambda n: (lambda: InjectedFault(n)))(m.__name__), 'other'))
    P += [
        ('load', 'loader.load_ast', loader, 'load_ast', lambda: InjectedFault('load_ast'), 'other'),
        ('load', '_PythonFnFactory.instantiate', transpiler._PythonFnFactory, 'instantiate', lambda: ValueError('injected: closure mismatch'), 'other'),
        # other error classes at other stages (the class, not the stage, selects the warning)
        ('converter', 'control_flow.transform/unsupported', control_flow, 'transform',
         lambda: errors.UnsupportedLanguageElementError('injected in a converter'), 'unsupportedElement'),
        ('load', 'loader.load_ast/inaccessible', loader, 'load_ast', lambda: errors.InaccessibleSourceCodeError('injected at load'), 'inaccessibleSource'),
        ('analysis', 'activity.resolve/keyerror', activity, 'resolve', lambda: KeyError('injected'), 'other'),
    ]
    return P


@contextlib.contextmanager
def inject(point):
    if point is None:
        yield
        return
    stage, name, obj, attr, exc, cls = point
    orig = getattr(obj, attr)

    def boom(*a, **k):
        raise exc()
    setattr(obj, attr, boom)
    try:
        yield
    finally:
        setattr(obj, attr, orig)


# ------------------------------------------------------------------------------------------------ cases

STD_SHAPES = [
    ((), None),
    (('v1',), None),
    (('v1', 'v2', 'v3'), {}),
    (('v1',), {'k': 'vk', 'z': 'vz'}),
    ((), {'b': 'vb'}),
    (('v1',), {'a': 'dup'}),            # TypeError (multiple values) in the direct call too
    (('',), {'k': 'vk'}),               # falsy first argument: the other branch of the target
]

# (stored args, stored keywords, flavour).  flavour: plain | attr (instance attribute: not flattened by
# functools.partial) | subclass | artifact (carries autograph_info__) | cached (pre-seeded in the negative cache)
PARTIAL_CHAINS = [
    [],
    [(('p1',), {}, 'plain')],
    [((), {'k': 'pk', 'y': 'py'}, 'plain')],
    [(('p1',), {'k': 'pk', 'y': 'py'}, 'attr'), (('q1',), {'k': 'qk', 'x': 'qx'}, 'plain')],
    [((), {'z': 'pz'}, 'plain'), (('q1', 'q2'), {}, 'plain')],                     # flattened by functools
    [(('p1',), {'k': 'pk'}, 'subclass'), ((), {'y': 'qy', 'k': 'qk'}, 'attr'), (('r1',), {'k': 'rk', 'w': 'rw'}, 'plain')],
    [(('p1',), {'k': 'pk'}, 'artifact')],
    [(('p1',), {'k': 'pk'}, 'attr'), (('q1',), {'y': 'qy'}, 'artifact')],
    [(('p1',), {'k': 'pk'}, 'cached')],
    [(('p1',), {'k': 'pk'}, 'cached'), (('q1',), {'k': 'qk'}, 'plain')],
]


class MyPartial(functools.partial):
    pass


def wrap_partials(f, chain):
    """Build the chain innermost first; returns (callable, list of flavours actually present per real level)."""
    flav = {}
    if not callable(f):
        return f, flav          # functools.partial refuses a non-callable
    for args, kw, flavour in chain:
        cls = MyPartial if flavour == 'subclass' else functools.partial
        f = cls(f, *args, **kw)
        if flavour == 'attr':
            f.c13_tag = 1
        if flavour == 'artifact':
            f.autograph_info__ = None
        flav[id(f)] = flavour
    return f, flav


def real_levels(f):
    """The actual partial structure of the object (functools may have flattened): outermost first."""
    levels = []
    while isinstance(f, functools.partial):
        levels.append(f)
        f = f.func
    return levels, f


def canon(x, kind='plain', depth=0):
    """Address-free canonical form of a result."""
    if depth > 6:
        return '...'
    if kind == 'match':
        return None if x is None else ('match', x.group())
    if kind == 'ntclass':
        return ('ntclass', x.__name__, tuple(x._fields))
    if kind == 'bound_attr':
        return ('obj', type(x).__name__, canon(getattr(x, 'bound', None), 'plain', depth + 1))
    if isinstance(x, (str, int, float, bool, type(None), bytes)):
        return x
    if isinstance(x, tuple) and hasattr(x, '_fields'):
        return ('nt', type(x).__name__, tuple(canon(e, 'plain', depth + 1) for e in x))
    if isinstance(x, (tuple, list)):
        return (type(x).__name__,) + tuple(canon(e, 'plain', depth + 1) for e in x)
    if isinstance(x, dict):
        return ('dict',) + tuple((canon(k, 'plain', depth + 1), canon(v, 'plain', depth + 1)) for k, v in x.items())
    if isinstance(x, BaseException):
        return ('exc', type(x).__name__, str(x))
    if isinstance(x, range):
        return ('range', x.start, x.stop, x.step)
    if hasattr(x, '__next__'):
        return ('iter',) + tuple(canon(e, 'plain', depth + 1) for e in itertools.islice(x, 50))
    if isinstance(x, zoo.CountLen):
        return ('CountLen', tuple(x.items))
    if type(x).__module__.split('.')[0] in ('decimal', 'numpy', 'fractions'):
        return (type(x).__name__, repr(x))        # value types with an address-free repr
    return ('obj', type(x).__name__)


def canon_log(log):
    """effect log without the converted? flag of 'run' entries"""
    out = []
    for e in log:
        if e and e[0] == 'run':
            out.append(canon(('run',) + tuple(e[2:])))
        else:
            out.append(canon(tuple(e)))
    return out


def conv_flags(log):
    return [bool(e[1]) for e in log if e and e[0] == 'run']


CALL_TIMEOUT_S = 20


class CaseTimeout(BaseException):
    """raised by the interval timer inside a call that does not terminate (BaseException: not swallowed by `except Exception`)"""


def _on_alarm(signum, frame):
    raise CaseTimeout()


def invoke(thunk, result_kind):
    """(outcome, stdout, exception) with outcome = ('ok', canon result) | ('exc', type name, message) | ('timeout', seconds).
    Every call made by the harness runs under a timer: a call that does not terminate becomes an outcome, never a hang
    (main thread: interval timer; worker threads are joined with a timeout by their schedule)."""
    import signal, threading
    buf = io.StringIO()
    timed = threading.current_thread() is threading.main_thread()
    if timed:
        old = signal.signal(signal.SIGALRM, _on_alarm)
        signal.setitimer(signal.ITIMER_REAL, CALL_TIMEOUT_S)
    try:
        with contextlib.redirect_stdout(buf):
            try:
                r = thunk()
                out = ('ok', canon(r, result_kind))
            except CaseTimeout:
                return ('timeout', CALL_TIMEOUT_S), buf.getvalue(), None
            except Exception as e:  # noqa
                out = ('exc', type(e).__name__, str(e)[:200])
                return out, buf.getvalue(), e
        return out, buf.getvalue(), None
    finally:
        if timed:
            signal.setitimer(signal.ITIMER_REAL, 0)
            signal.signal(signal.SIGALRM, old)


def ref_binding(pos, kw):
    """Python's own binding of (pos, kw) to the zoo's standard signature."""
    def ref(a=0, b=2, *rest, k=3, **kw):
        return (a, b, rest, k, sorted(kw.items()))
    return ref(*pos, **dict(kw))


def observed_binding(entry, has_self):
    """('run', conv, marker, [tag], a, b, rest, k, kwitems) -> (tag|None, (a, b, rest, k, kwitems))"""
    rest = list(entry[3:])
    tag = rest.pop(0) if has_self else None
    return tag, tuple(rest)


class Case(object):
    """One wrapped call: recipe + wrapper chain + argument shape + options + environment + fault."""

    def __init__(self, base, chain_ix, shape_ix, ur, icu, rec, status, strict, fault_ix=None, precache_base=False,
                 via_callopts=False):
        self.base, self.chain_ix, self.shape_ix = base, chain_ix, shape_ix
        self.ur, self.icu, self.rec, self.status, self.strict = ur, icu, rec, status, strict
        self.fault_ix, self.precache_base, self.via_callopts = fault_ix, precache_base, via_callopts

    def key(self):
        return (self.base, self.chain_ix, self.shape_ix, self.ur, self.icu, self.rec, self.status, self.strict,
                self.fault_ix, self.precache_base, self.via_callopts)

    def to_json(self):
        return dict(base=self.base, chain_ix=self.chain_ix, shape_ix=self.shape_ix, user_requested=self.ur,
                    internal_convert_user_code=self.icu, recursive=self.rec, status=self.status, strict=self.strict,
                    fault_ix=self.fault_ix, precache_base=self.precache_base, via_callopts=self.via_callopts)

    @staticmethod
    def from_json(d):
        return Case(d['base'], d['chain_ix'], d['shape_ix'], d['user_requested'], d['internal_convert_user_code'],
                    d['recursive'], d['status'], d['strict'], d.get('fault_ix'), d.get('precache_base', False),
                    d.get('via_callopts', False))


class Runner(object):
    def __init__(self, run, ins, env):
        from malt.impl import api, conversion
        from malt.core import converter, ag_ctx
        self.run, self.ins, self.env = run, ins, env
        self.api, self.conversion, self.converter, self.ag_ctx = api, conversion, converter, ag_ctx
        self.faults = fault_points()
        self.partial_call_has_code = hasattr(functools.partial.__call__, '__code__')

    # ---------------------------------------------------------------------------------- options
    def options(self, c):
        Opt = self.converter.ConversionOptions
        if c.via_callopts:
            # what generated code passes: FunctionScope.callopts = options.call_options()
            o = Opt(recursive=c.rec, user_requested=True, optional_features=None).call_options()
            return o
        return Opt(recursive=c.rec, user_requested=c.ur, internal_convert_user_code=c.icu, optional_features=None)

    # ---------------------------------------------------------------------------------- build
    def shapes(self, built):
        return STD_SHAPES if built.sig == 'std' else built.sig

    def chain_for(self, c, b, args, kw):
        """The wrapper chain of the case.  Callables with a foreign signature (builtins, classes, stdlib functions) get a
        chain derived from the argument shape itself: the first positional argument and the keywords are stored in one
        partial (flavour of the outermost level of the indexed chain), the rest is passed at the call site."""
        chain = PARTIAL_CHAINS[c.chain_ix]
        if not callable(b.f):
            return [], args, kw
        if b.sig != 'std' and chain:
            chain = [(tuple(args[:1]), dict(kw or {}), chain[-1][2])]
            args = tuple(args[1:])
        return chain, args, kw

    def build(self, c, log):
        b = zoo.build(c.base, self.env, log)
        if b.log is not None:
            del b.log[:]
        shapes = self.shapes(b)
        args, kw = shapes[c.shape_ix % len(shapes)]
        chain, args, kw = self.chain_for(c, b, tuple(args), kw)
        f, flav = wrap_partials(b.f, chain)
        if b.needs_self is not None:
            args = (b.needs_self,) + tuple(args)
        return b, f, flav, tuple(args), (None if kw is None else dict(kw))

    def the_log(self, b, log):
        return b.log if b.log is not None else log

    # ---------------------------------------------------------------------------------- one case
    def execute(self, c):
        """Run the case on the real code. Returns an observation dict (JSON-able) + the model request."""
        ins, api, conversion = self.ins, self.api, self.conversion
        opts = self.options(c)
        fault = self.faults[c.fault_ix] if c.fault_ix is not None else None
        ins.reset(fresh_transpiler=fault is not None)
        status = {'unspecified': self.ag_ctx.Status.UNSPECIFIED, 'enabled': self.ag_ctx.Status.ENABLED,
                  'disabled': self.ag_ctx.Status.DISABLED}[c.status]

        # ---- direct call on a fresh instance
        log_d = []
        b_d, f_d, _, args_d, kw_d = self.build(c, log_d)
        if kw_d is None:
            direct_out, direct_stdout, _ = invoke(lambda: f_d(*args_d), b_d.result_kind)
        else:
            direct_out, direct_stdout, _ = invoke(lambda: f_d(*args_d, **kw_d), b_d.result_kind)
        direct_log = canon_log(self.the_log(b_d, log_d))
        direct_runs = len(conv_flags(self.the_log(b_d, log_d)))
        direct_extra = canon(getattr(b_d, 'extra', {}).get('effect_obj'))

        # ---- wrapped call on another fresh instance
        log_w = []
        b, f, flav, args, kw = self.build(c, log_w)
        levels, base_f = real_levels(f)
        for lv in levels:
            if flav.get(id(lv)) == 'cached':
                conversion.cache_allowlisted(lv, opts)
        if c.precache_base:
            conversion.cache_allowlisted(base_f, opts)
        b2 = zoo.build(c.base, self.env, log_w)      # only for fresh argument objects of the next call
        if b2.log is not None:
            del b2.log[:]
        n0 = ins.mark()
        if c.strict:
            os.environ['AUTOGRAPH_STRICT_CONVERSION'] = '1'
        else:
            os.environ.pop('AUTOGRAPH_STRICT_CONVERSION', None)
        try:
            with self.ag_ctx.ControlStatusCtx(status), inject(fault):
                wrapped_out, wrapped_stdout, wexc = invoke(lambda: api.converted_call(f, args, kw, options=opts), b.result_kind)
                n1 = ins.mark()
                wlog = list(self.the_log(b, log_w))
                if b.log is not None:
                    del b.log[:]
                else:
                    del log_w[:]
                cache_after = [bool(conversion.is_in_allowlist_cache(lv, opts)) for lv in levels] + \
                              [bool(conversion.is_in_allowlist_cache(base_f, opts))]
                # ---- the next call on the same objects, same environment (fault still armed)
                sh2 = self.shapes(b2)
                args2, kw2 = sh2[c.shape_ix % len(sh2)]
                _, args2, kw2 = self.chain_for(c, b2, tuple(args2), kw2)
                if b.needs_self is not None:
                    args2 = (b.needs_self,) + tuple(args2)
                if b.log is not None:
                    del b.log[:]
                again_out, again_stdout, _ = invoke(lambda: api.converted_call(f, tuple(args2), None if kw2 is None else dict(kw2), options=opts), b.result_kind)
                n2 = ins.mark()
                alog = list(self.the_log(b, log_w))
        finally:
            os.environ.pop('AUTOGRAPH_STRICT_CONVERSION', None)

        def attempts(lo, hi):
            ents = ins.converted_entities[lo:hi]
            return sum(1 for e in ents if any(e is t or getattr(e, '__func__', None) is t or e is getattr(t, '__func__', None)
                                              for t in b.target_ents))
        obs = {
            'direct': direct_out, 'direct_log': direct_log, 'direct_runs': direct_runs, 'direct_stdout': direct_stdout,
            'wrapped': wrapped_out, 'wrapped_log': canon_log(wlog), 'wrapped_stdout': wrapped_stdout,
            'runs': len(conv_flags(wlog)), 'conv': conv_flags(wlog),
            'attempts': attempts(n0[0], n1[0]), 'warnings': n1[1] - n0[1],
            'warning_text': (ins.warnings[n0[1]:n1[1]] or [''])[0][:160],
            'cache_after': cache_after,
            'injected_reraised': wexc is not None and self.is_injected(wexc, fault),
            'again': again_out, 'again_log': canon_log(alog), 'again_runs': len(conv_flags(alog)), 'again_conv': conv_flags(alog),
            'again_attempts': attempts(n1[0], n2[0]), 'again_warnings': n2[1] - n1[1],
            'direct_extra': direct_extra, 'wrapped_extra': None,
            'first_run_entry': next((list(e) for e in wlog if e and e[0] == 'run'), None),
        }
        if hasattr(b, 'extra') and b.extra.get('effect_obj') is not None:
            obs['wrapped_extra'] = None  # the effect object was hit twice (call + next call); compared through results
        # ---- model request
        req = self.model_request(c, b, levels, flav, args, kw, fault)
        return obs, req, b, levels

    def is_injected(self, exc, fault):
        if fault is None:
            return False
        proto = fault[4]()
        return type(exc) is type(proto) or (fault[5] == 'inaccessibleSource' and type(exc).__name__ == 'InaccessibleSourceCodeError')

    # ---------------------------------------------------------------------------------- model side
    def model_request(self, c, b, levels, flav, args, kw, fault):
        facts = b.facts
        fail = facts['fail']
        if fault is not None and fail is None:
            fail = (fault[0], fault[5])
        base_desc = zoo.desc_sexp(facts, in_cache=c.precache_base and facts['cacheable'], fail_override=fail)
        callable_sx = ['base', base_desc, 'none' if b.self_val is None else ['some', b.self_val], bool(b.binds)]
        for lv in reversed(levels):
            fl = flav.get(id(lv), 'plain')
            pf = dict(zoo.PARTIAL_FACTS)
            pf['artifact'] = (fl == 'artifact')
            pf['has_code'] = self.partial_call_has_code
            d = zoo.desc_sexp(pf, in_cache=(fl == 'cached'))
            callable_sx = ['partial', d, [self.val(a) for a in lv.args], [[k, self.val(v)] for k, v in lv.keywords.items()], callable_sx]
        margs = [self.val(a) for a in args]
        if b.needs_self is not None and margs:
            margs[0] = 'SELFARG'
        mkw = 'none' if kw is None else [[k, self.val(v)] for k, v in kw.items()]
        opts = self.options(c)
        env = [c.status, bool(c.strict), True]
        o = [bool(opts.user_requested), bool(opts.internal_convert_user_code)]
        return 'c13.call %s %s %s %s %s' % (sexp(env), sexp(o), sexp(callable_sx), sexp(margs), sexp(mkw))

    @staticmethod
    def val(v):
        return v if isinstance(v, str) and v != '' else ('<%s>' % (type(v).__name__ if not isinstance(v, str) else 'empty'))

    # ---------------------------------------------------------------------------------- documented policy (oracle)
    def rule_action(self, name):
        """first matching rule of the live table: documented semantics ("evaluated in order, stops at the first rule that tests True")"""
        from malt.core import config
        for r in config.CONVERSION_RULES:
            p = r._prefix
            if name == p or name.startswith(p + '.'):
                return type(r).__name__
        return None

    def ent_allowlisted(self, e, check_call=True, nt_sub=False):
        if e == 'opaque':
            return False
        _, mod, gen, is_class, has_call, call_differs, is_method, owner_known, testcase, nt, nt_base, call, definer = e
        if mod != 'none':
            a = self.rule_action('.'.join(mod))
            if a == 'Convert':
                return False
            if a == 'DoNotConvert':
                return True
        if gen:
            return True
        if check_call and not is_class and has_call and call_differs and self.ent_allowlisted(call):
            return True
        if is_method and owner_known:
            if testcase:
                return True
            if self.ent_allowlisted(definer, check_call=False, nt_sub=True):
                return True
        if nt:
            if nt_sub:
                if not nt_base:
                    return True
            else:
                return True
        return False

    def exclusions(self, c, b, levels, flav):
        """The documented reasons for NOT converting that apply to this case (unordered)."""
        opts = self.options(c)
        f = b.facts
        R = []
        if c.status == 'disabled':
            R.append('disabled context')
        for lv in levels:
            fl = flav.get(id(lv), 'plain')
            if fl == 'cached':
                R.append('remembered (partial)')
            if fl == 'artifact':
                R.append('artifact (partial)')
        if c.precache_base and f['cacheable']:
            R.append('remembered')
        if f['artifact']:
            R.append('already converted / do_not_convert')
        if f['builtin'] != 'notBuiltin':
            R.append('builtin')
        if f['wrapt'] or f['lru']:
            R.append('wrapt / lru_cache wrapper')
        if f['ctor']:
            R.append('constructor')
        if f['known']:
            R.append('member of a known stdlib module')
        if f['tf']:
            R.append('plugin')
        if not opts.user_requested and self.ent_allowlisted(f['ent']):
            R.append('allow-listed')
        if not opts.internal_convert_user_code:
            R.append('non-recursive mode')
        if not f['has_code']:
            R.append('native')
        if f['string_file']:
            R.append('source-less (exec)')
        return R


# ------------------------------------------------------------------------------------------------ comparison

def parse_model(ans):
    """driver answer -> dict"""
    if not ans.startswith('('):
        return None
    sx = parse_sexp(ans)
    out = {}
    for part in sx:
        out[part[0]] = part[1:]

    def eff(e):
        return {'invocations': int(e[1]), 'pos': e[2], 'kw': [tuple(x) for x in e[3]], 'converted': e[4] == 'True',
                'attempted': e[5] == 'True', 'warning': e[6] == 'True', 'raised': e[7] == 'True',
                'overload': e[8] == 'True', 'special': e[9] == 'True'}
    return {'effect': eff(['effect'] + out['effect']), 'state': [x == 'True' for x in out['state']],
            'path': out['path'], 'foreignSelf': out['class'][0] == 'True', 'uncacheable': out['class'][1] == 'True',
            'natural': out['class'][2] == 'True', 'again': eff(out['again'][0])}


def check(run):
    run.rule = ('every callable kind of the zoo (c13_zoo.BASES_STATIC + one function per rule-table probe module) x '
                'functools.partial chains (depth 0-3; plain/flattened, attribute-carrying, subclass, artifact, pre-cached levels; '
                'overlapping keywords) x argument shapes (no args, positional, star-args overflow, kwargs None/{}/non-empty, '
                'duplicate-argument error, falsy argument) x options (user_requested x internal_convert_user_code x recursive, and '
                'the call_options() a converted caller passes) x context status x strict mode x a fault injected at each pipeline '
                'stage; a case is one wrapped call + the direct call on a twin instance + the next wrapped call; non-trivial = '
                'target has control flow and the decision depends on at least one fact beyond the defaults')
    run.assumptions += [
        'the facts Python\'s inspect/type machinery yields for each recipe (module of an object, ismethod, code object, weakref/hash support) are '
        'declared by the recipe and cross-checked against the stdlib, not against malt',
        'frame-dependent builtins (dir, vars, exec, breakpoint, input, __import__) are outside the oracle: calling them through any wrapper changes the frame they see (C14 covers the overloads)',
        'Kind.other (the NotImplementedError branch) is unreachable in CPython: every object has type(f).__call__',
        'a conversion that SUCCEEDS preserves the behaviour of the target (that is C01); C13 models a conversion as succeeding or failing',
    ]
    run.translate(['Policy'])
    built = run.build_and_audit('MaltModel.Props.C13', model_files=MODEL_FILES)
    if not built:
        attribute_helper_failures(run)

    tmp = tempfile.mkdtemp(prefix='c13_')
    try:
        with Instr() as ins:
            _check(run, ins, tmp)
    finally:
        shutil.rmtree(tmp, ignore_errors=True)


def attribute_helper_failures(run, relpath='MaltModel/Props/C13.lean'):
    """A failing *private* helper lemma (they are the ones that depend on the extracted tables) is recorded by Lean with a
    placeholder proof, so the public theorems using it still elaborate and common.build_and_audit names none of them.  Attribute
    the failure to every public theorem that (transitively, textually) uses a failed declaration."""
    import re
    ok, log = run.lean_build(['MaltModel.Props.C13'])
    if ok:
        return
    failed = set(run._failed_theorems(relpath, log))
    with open(os.path.join(common.LEAN, relpath)) as f:
        text = common.strip_comments(f.read())
    decls = {}
    cur = None
    for line in text.split('\n'):
        m = re.match(r'^(?:private\s+)?(?:theorem|def|example)\s*(\S*)', line)
        if m:
            cur = m.group(1) or ('example@%d' % len(decls))
            decls[cur] = ''
        if cur is not None:
            decls[cur] += line + '\n'
    failed = set(n for n in failed if re.match(r"^[A-Za-z_][\w.']*$", n))
    bad = set(n for n in failed if n in decls)
    changed = True
    while changed:
        changed = False
        for n, body in decls.items():
            if n not in bad and any(re.search(r'(?<![\w.])' + re.escape(b) + r'(?![\w])', body) for b in bad if b):
                bad.add(n); changed = True
    errs = ' | '.join([l for l in log.split('\n') if 'error' in l][:6])
    hit = False
    for o in run.obligations:
        if o['kind'] == 'theorem' and o['name'].split('.')[-1] in bad and o['ok']:
            o['ok'] = False
            o['detail'] = 'depends on a declaration that no longer checks (%s): %s' % (sorted(failed), errs)
            hit = True
    if not hit and not any(o['kind'] == 'theorem' and not o['ok'] for o in run.obligations):
        run.oblige('build:MaltModel.Props.C13 (an example / non-vacuity instance no longer checks)', 'build', False, errs)


def _check(run, ins, tmp):
    from malt.core import config
    from malt.impl import api, conversion
    from malt.pyct import inspect_utils
    from malt.operators import py_builtins
    prefixes = [r._prefix for r in config.CONVERSION_RULES]
    env = zoo.ZooEnv(tmp, prefixes)
    try:
        R = Runner(run, ins, env)
        _tables_and_rules(run, R, prefixes)
        bases = list(zoo.BASES_STATIC)
        try:
            import numpy  # noqa
        except Exception:
            bases = [b for b in bases if b != 'numpy_fn' and not b.startswith('builtin:numpy.')]
        try:
            import wrapt  # noqa
        except Exception:
            bases.remove('wrapt_fn')
        # one plain function per rule-table probe module (only names that are not real loaded modules)
        probe_mods = [m for m in zoo.rule_test_modules(prefixes)]
        rule_bases = []
        for m in probe_mods:
            if m not in sys.modules or m in env.fake:
                rule_bases.append('fn_mod:' + m)
        _predicates(run, R, bases + rule_bases[:12])
        cases = gen_cases(run, R, bases, rule_bases)
        # corpus first
        cdir = os.path.join(common.VERIF, 'corpus', 'C13')
        corpus, hcorpus = [], []
        if os.path.isdir(cdir):
            for fn in sorted(os.listdir(cdir)):
                if fn.endswith('.json'):
                    with open(os.path.join(cdir, fn)) as f:
                        cj = json.load(f)['case']
                    if cj.get('history'):
                        hcorpus.append(History.from_json(cj))
                    else:
                        corpus.append(Case.from_json(cj))
        _run_cases(run, R, corpus + cases)
        _run_histories(run, R, hcorpus + gen_histories(run, bases + rule_bases))
        _run_threads(run, R)
        _specials(run, R)
    finally:
        env.close()
    run.cov['search'] = ('direct oracle (wrapped vs direct call on twin instances; documented policy; fallback/remembered/strict) on '
                         '%d wrapped calls over %d recipes; rule table on %d module names' % (run.cov.get('wrapped_calls', 0),
                                                                                              run.cov.get('recipes', 0),
                                                                                              run.cov.get('rule_names', 0)))


# ------------------------------------------------------------------------------------------------ tables / rules

def _tables_and_rules(run, R, prefixes):
    from malt.core import config
    live = [[{'Convert': 'convert', 'DoNotConvert': 'doNotConvert'}.get(type(r).__name__, 'unresolved'), r._prefix.split('.')]
            for r in config.CONVERSION_RULES]
    # names: for each prefix p: exact, child, grandchild, extension without dot, trailing dot, leading junk, case change, truncated
    names = set(['', '.', 'x', 'builtins', '__main__'])
    for p in prefixes:
        names |= {p, p + '.sub', p + '.sub.deep', p + 'x', p + '.', '.' + p, 'x' + p, p.upper(), p[:-1], p + '..x', p + '_x', p.split('.')[0]}
        comps = p.split('.')
        for i in range(1, len(comps) + 1):
            names.add('.'.join(comps[:i]))
            names.add('.'.join(comps[:i]) + '.zz')
    for _ in range(200 if run.tier == 'quick' else 2000):
        p = run.rng.choice(prefixes)
        k = run.rng.randrange(5)
        s = p
        if k == 0:
            s = p + '.' + ''.join(run.rng.choice('abc._') for _ in range(run.rng.randrange(1, 6)))
        elif k == 1:
            s = p[:run.rng.randrange(len(p) + 1)]
        elif k == 2:
            s = p + ''.join(run.rng.choice('abc._') for _ in range(run.rng.randrange(1, 4)))
        elif k == 3:
            q = run.rng.choice(prefixes)
            s = p + '.' + q
        else:
            s = ''.join(run.rng.choice('abct._') for _ in range(run.rng.randrange(0, 8)))
        names.add(s)
    names |= set(p + '.c13x' for p in prefixes)
    names = sorted(names)
    run.cov['rule_names'] = len(names)
    impl = {}
    hits = {}
    for n in names:
        m = types.SimpleNamespace(__name__=n)
        act = 'none'
        for i, rule in enumerate(config.CONVERSION_RULES):
            try:
                a = rule.get_action(m)
            except Exception as e:  # noqa
                act = 'raised ' + type(e).__name__
                break
            if a == config.Action.CONVERT:
                act = 'convert'; hits[i] = hits.get(i, 0) + 1; break
            if a == config.Action.DO_NOT_CONVERT:
                act = 'doNotConvert'; hits[i] = hits.get(i, 0) + 1; break
        impl[n] = act
        run.case(('rule', n), act != 'none')
        # direct oracle: documented first-match semantics
        doc = {None: 'none', 'Convert': 'convert', 'DoNotConvert': 'doNotConvert'}[R.rule_action(n)]
        if doc != act:
            run.fail('rule table: action of module %r is %s, documented first-match semantics gives %s' % (n, act, doc), {'module': n})
    run.cov['rules_hit'] = '%d/%d' % (len(hits), len(prefixes))
    # every rule decides its own package (a rule placed behind a broader rule with the opposite action is dead)
    for i, rule in enumerate(config.CONVERSION_RULES):
        own = {'Convert': 'convert', 'DoNotConvert': 'doNotConvert'}.get(type(rule).__name__)
        for n in (rule._prefix, rule._prefix + '.c13x'):
            run.case(('rule-effective', n), True)
            if impl.get(n, own) != own:
                run.fail('rule table: %s(%r) is shadowed by an earlier rule: module %r gets %s' % (type(rule).__name__, rule._prefix, n, impl[n]),
                         {'module': n, 'rule_index': i})
    if run.driver_ok:
        t = parse_sexp(run.drive(['c13.tables'])[0])
        tab = {x[0]: x[1:] for x in t}
        run.oblige('correspondence:c13.tables.CONVERSION_RULES', 'correspondence', tab['rules'] == live,
                   'extracted %s vs live %s' % (tab['rules'][:3], live[:3]))
        got = run.drive(['c13.rule ' + sexp(n.split('.')) for n in names])
        dis = [{'module': n, 'implementation': impl[n], 'model': g} for n, g in zip(names, got) if g != impl[n]]
        run.evaluations += len(names)
        run.oblige('correspondence:c13.rule', 'correspondence', not dis, json.dumps(dis[:4]))
        run.sample({'request': 'c13.rule ' + sexp('tensorflow.python.training.experimental.sub'.split('.')),
                    'implementation': impl.get('tensorflow.python.training.experimental.sub'), 'model': got[names.index('tensorflow.python.training.experimental.sub')]})
    else:
        run.oblige('correspondence:c13.rule', 'correspondence', False, 'driver unavailable')


# ------------------------------------------------------------------------------------------------ predicate helpers

def _predicates(run, R, bases):
    """malt's predicate helpers against the recipe facts, and is_unsupported / is_allowlisted against the model."""
    from malt.impl import api, conversion
    from malt.pyct import inspect_utils
    from malt.operators import py_builtins
    from malt.core import converter
    opts = converter.ConversionOptions(recursive=True, optional_features=None)
    lines, expect, what = [], [], []
    bad = {}

    def note(k, base, detail):
        bad.setdefault(k, []).append({'recipe': base, 'detail': detail})
    for base in bases:
        R.ins.reset(False)
        b = zoo.build(base, R.env, [])
        f, F = b.f, b.facts
        if b.prebuilt_partial:
            f = real_levels(f)[1]      # the facts describe the callable under the recipe's own partial
        # harness self-test against the stdlib (a wrong recipe is an infrastructure error, not a finding)
        kind = 'method' if inspect.ismethod(f) else ('function' if inspect.isfunction(f) else 'callableObject')
        if kind != F['kind'] and F['builtin'] == 'notBuiltin':
            raise common.InfraError('recipe %s declares kind %s, stdlib says %s' % (base, F['kind'], kind))
        tgt = f if kind != 'callableObject' else type(f).__call__
        if hasattr(tgt, '__code__') != F['has_code'] and F['builtin'] == 'notBuiltin':
            raise common.InfraError('recipe %s declares has_code=%s' % (base, F['has_code']))
        if zoo.cacheable_by_python(f) != F['cacheable']:
            raise common.InfraError('recipe %s declares cacheable=%s' % (base, F['cacheable']))
        run.case(('pred', base), True)
        try:     # an exception escaping a predicate of the implementation is an observation, not the end of the run
            if bool(inspect_utils.isbuiltin(f)) != (F['builtin'] != 'notBuiltin'):
                note('isbuiltin', base, 'isbuiltin=%s' % inspect_utils.isbuiltin(f))
            if F['builtin'] != 'notBuiltin':
                if (py_builtins.overload_of(f) is not f) != (F['builtin'] == 'overloaded'):
                    note('overload_of', base, 'overload_of gives %r' % (py_builtins.overload_of(f),))
            if bool(inspect_utils.isconstructor(f)) != bool(F['ctor']) and F['builtin'] == 'notBuiltin':
                note('isconstructor', base, 'isconstructor=%s' % inspect_utils.isconstructor(f))
            if bool(api.is_autograph_artifact(f)) != bool(F['artifact']):
                note('is_autograph_artifact', base, '')
            e = F['ent']
            if e != 'opaque':
                if bool(inspect_utils.isnamedtuple(f)) != bool(e[9]):
                    note('isnamedtuple', base, '')
                if e[6]:   # a method: owner resolution
                    owner = inspect_utils.getmethodclass(f)
                    if (owner is not None) != bool(e[7]):
                        note('getmethodclass', base, 'owner=%r' % (owner,))
                    elif owner is not None:
                        dc = inspect_utils.getdefiningclass(f, owner)
                        want_mod = e[12][1]
                        if dc.__module__.split('.') != want_mod:
                            note('getdefiningclass', base, 'defining class %r in %s, recipe says %s' % (dc, dc.__module__, want_mod))
            if F['builtin'] == 'notBuiltin':
                unsup = bool(conversion.is_unsupported(f))
                if unsup != bool(F['wrapt'] or F['lru'] or F['ctor'] or F['known'] or F['tf']):
                    note('is_unsupported', base, 'is_unsupported=%s' % unsup)
                lines.append('c13.unsup ' + sexp(zoo.desc_sexp(F))); expect.append(sexp(unsup)); what.append(('unsup', base))
                if e != 'opaque':
                    al = bool(conversion.is_allowlisted(f))
                    if al != R.ent_allowlisted(e):
                        note('is_allowlisted', base, 'is_allowlisted=%s, documented rules give %s' % (al, R.ent_allowlisted(e)))
                    lines.append('c13.allow %s True False' % sexp(e)); expect.append(sexp(al)); what.append(('allow', base))
            # negative cache takes effect exactly for hashable + weak-referenceable entities
            conversion.cache_allowlisted(f, opts)
            if bool(conversion.is_in_allowlist_cache(f, opts)) != bool(F['cacheable']):
                note('cache_allowlisted', base, 'remembered=%s' % conversion.is_in_allowlist_cache(f, opts))
        except Exception as e:  # noqa
            note('raised', base, '%s: %s' % (type(e).__name__, str(e)[:120]))
    for k in ('raised', 'isbuiltin', 'overload_of', 'isconstructor', 'is_autograph_artifact', 'isnamedtuple', 'getmethodclass',
              'getdefiningclass', 'is_unsupported', 'is_allowlisted', 'cache_allowlisted'):
        run.oblige('correspondence:predicate.' + k, 'correspondence', k not in bad, json.dumps(bad.get(k, [])[:4]))
    if run.driver_ok:
        got = run.drive(lines)
        dis = {}
        for l, e, g, w in zip(lines, expect, got, what):
            run.evaluations += 1
            if e != g:
                dis.setdefault(w[0], []).append({'recipe': w[1], 'implementation': e, 'model': g})
        run.oblige('correspondence:c13.unsup', 'correspondence', 'unsup' not in dis, json.dumps(dis.get('unsup', [])[:4]))
        run.oblige('correspondence:c13.allow', 'correspondence', 'allow' not in dis, json.dumps(dis.get('allow', [])[:4]))


# ------------------------------------------------------------------------------------------------ case generation

def gen_cases(run, R, bases, rule_bases):
    quick = run.tier == 'quick'
    rng = run.rng
    cases = []
    seen = set()

    def add(c):
        if c.key() not in seen:
            seen.add(c.key())
            cases.append(c)
    opt_grid = [(False, True), (True, True), (False, False), (True, False)]     # (user_requested, internal_convert_user_code)
    statuses = ['unspecified', 'enabled', 'disabled']
    nchains = len(PARTIAL_CHAINS)
    # --- policy sweep: every base x options x status, wrapper chain and shape rotating (deterministic + seed offset)
    off = run.seed
    n = 0
    for base in bases + rule_bases:
        for (ur, icu) in opt_grid:
            for st in statuses:
                n += 1
                chain_ix = 0 if (n + off) % 3 else (n // 3 + off) % nchains
                add(Case(base, chain_ix, (n + off) % 7, ur, icu, bool((n + off) % 2), st, False))
        add(Case(base, 0, 1, False, True, True, 'unspecified', False, via_callopts=True))
        add(Case(base, 0, 1, False, True, False, 'enabled', False, via_callopts=True))
        add(Case(base, 0, 1, False, True, True, 'unspecified', False, precache_base=True))
        add(Case(base, 1, 3, False, True, True, 'unspecified', True))
    # --- binding sweep: python targets x every chain x every shape
    loggable = [b for b in bases if zoo.build(b, R.env, []).loggable]
    for base in loggable:
        for chain_ix in range(nchains):
            for shape_ix in range(len(STD_SHAPES)):
                ur = bool((chain_ix + shape_ix) % 2)
                add(Case(base, chain_ix, shape_ix, ur, True, True, statuses[(chain_ix + shape_ix + off) % 2], False))
    # --- foreign signatures: every declared shape
    for base in bases:
        b = zoo.build(base, R.env, [])
        if b.sig != 'std':
            for shape_ix in range(len(b.sig)):
                add(Case(base, 0, shape_ix, False, True, True, 'unspecified', False))
                add(Case(base, 1 if b.sig[shape_ix][0] == () else 0, shape_ix, True, True, True, 'enabled', False))
    # --- fallback sweep: convertible targets x every fault point x strict
    convertible = ['fn', 'lambda', 'bound', 'classm', 'callobj', 'class_meta', 'decorated', 'nt_sub_method', 'callobj_unhash',
                   'callobj_slots', 'staticm', 'fn_mod:tensorflow.python.training.experimental.c13x']
    convertible = [b for b in convertible if b in bases or b in rule_bases]
    nf = len(R.faults)
    for bi, base in enumerate(convertible):
        for fi in range(nf):
            if base == 'lambda' and R.faults[fi][1] == 'inspect_utils.getimmediatesource':
                continue        # lambdas are located through linecache, not getimmediatesource
            full = (not quick) or base in ('fn', 'callobj') or (fi + bi + off) % 4 == 0
            if not full:
                continue
            for strict in (False, True):
                chain_ix = [0, 1, 3][(fi + bi) % 3] if not strict else 0
                add(Case(base, chain_ix, (fi + bi) % 5, bool(fi % 2), True, True, ['unspecified', 'enabled'][fi % 2], strict, fault_ix=fi))
    # --- natural failures x strict x options
    for base in ('forelse', 'nosource', 'genfn', 'callobj_forelse', 'callobj_unhash_fail', 'bound_gen', 'callobj_gen', 'nested_gen', 'mangled',
                 'bound_forelse', 'bound_mangled', 'bound_fixed_forelse', 'classm_forelse', 'classm_inst_forelse', 'classm_fixed_whileelse',
                 'staticm_whileelse', 'staticm_inst_whileelse', 'staticm_fixed_forelse'):
        for ur in (False, True):
            for strict in (False, True):
                for chain_ix in (0, 3):
                    add(Case(base, chain_ix, 1, ur, True, True, 'unspecified', strict))
    # --- thorough: random products
    if not quick:
        allb = bases + rule_bases
        for _ in range(3000):
            base = rng.choice(allb)
            fi = rng.randrange(nf) if rng.random() < 0.25 else None
            add(Case(base, rng.randrange(nchains), rng.randrange(7), rng.random() < 0.5, rng.random() < 0.8, rng.random() < 0.5,
                     rng.choice(statuses), rng.random() < 0.3, fault_ix=fi, precache_base=rng.random() < 0.1))
    return cases


# ------------------------------------------------------------------------------------------------ running + oracles

def _run_cases(run, R, cases):
    reqs, records = [], []
    cov_paths = {}
    for c in cases:
        b0 = zoo.build(c.base, R.env, [])
        fault = R.faults[c.fault_ix] if c.fault_ix is not None else None
        if b0.soft and (fault is not None or c.strict):
            continue    # undeclared (possible) failures: only the non-strict, fault-free contract is checked
        if fault is not None and (b0.facts['fail'] is not None or b0.facts['already_converted']):
            continue    # a natural failure would pre-empt the injected one; artifacts that convert internally are not the target
        try:
            obs, req, b, levels = R.execute(c)
        except common.InfraError:
            raise
        records.append((c, obs, b))
        reqs.append(req)
    run.cov['wrapped_calls'] = len(records)
    run.cov['recipes'] = len(set(c.base for c, _, _ in records))
    models = [None] * len(records)
    if run.driver_ok and reqs:
        answers = run.drive(reqs)
        models = [parse_model(a) for a in answers]
        badreq = [r for r, m in zip(reqs, models) if m is None]
        if badreq:
            raise common.InfraError('driver rejected a request: ' + badreq[0][:300])
    dis = {}
    stats = {'converted': 0, 'fallback': 0, 'strict_reraise': 0, 'skipped': 0, 'builtin': 0, 'typeerror_both': 0}
    for (c, obs, b), m, req in zip(records, models, reqs):
        fault = R.faults[c.fault_ix] if c.fault_ix is not None else None
        flav_levels = _levels_of(c)
        F = b.facts
        nontrivial = b.loggable or F['builtin'] != 'notBuiltin' or F['fail'] is not None
        run.case(c.key(), nontrivial)
        cj = c.to_json()
        cj['recipe_facts'] = {k: v for k, v in F.items() if k != 'ent'}
        cj['chain'] = [[[Runner.val(x) for x in a], {kk: Runner.val(v) for kk, v in k.items()}, fl] for a, k, fl in R.chain_for(c, b, *_shape_of(R, c, b))[0]]
        cj['fault'] = None if fault is None else {'stage': fault[0], 'point': fault[1], 'class': fault[5]}
        # ---------------- direct oracle (needs no Lean)
        excl = R.exclusions(c, b, *_real_levels_for(c, R))
        fail = F['fail'] if F['fail'] is not None else ((fault[0], fault[5]) if fault is not None else None)
        should_convert = not excl
        will_fail = should_convert and fail is not None
        cls_t = CLS_FOREIGN_SELF if (m and m['foreignSelf']) else None
        conv_seen = bool(obs['conv']) and all(obs['conv'])
        if b.soft and should_convert and not conv_seen and obs['runs'] >= 1 and obs['attempts']:
            fail = ('observed', 'other')     # the conversion was observed to fail: the fallback contract applies
            will_fail = True
        strict_raise = will_fail and c.strict
        if c.base == 'nested_async' and conv_seen:
            # the hypothesis "a conversion that succeeds preserves the target's behaviour" (C01) is what fails here
            cls_t = CLS_NESTED_ASYNC
        if obs['wrapped'][0] == 'timeout' or obs['again'][0] == 'timeout':
            if obs['direct'][0] != 'timeout':
                run.fail('wrapped call did not terminate within %d s (the direct call returns %s)' % (CALL_TIMEOUT_S, str(obs['direct'])[:80]),
                         dict(cj, observed=_brief(obs)), None)
            continue
        if strict_raise:
            stats['strict_reraise'] += 1
            if obs['wrapped'][0] != 'exc' or obs['runs'] != 0:
                run.fail('strict mode: the conversion error is not re-raised (outcome %s, target ran %d times)' % (obs['wrapped'][:2], obs['runs']),
                         dict(cj, observed=_brief(obs)), None)
        else:
            # transparency: same outcome, same effects, same number of invocations
            same = (obs['wrapped'] == obs['direct'] or (obs['wrapped'][0] == 'exc' and obs['direct'][0] == 'exc' and obs['wrapped'][1] == obs['direct'][1]))
            if not same:
                run.fail('wrapped call differs from the direct call: %s vs %s' % (str(obs['wrapped'])[:120], str(obs['direct'])[:120]),
                         dict(cj, observed=_brief(obs)), cls_t)
            elif obs['wrapped_log'] != obs['direct_log'] or obs['wrapped_stdout'] != obs['direct_stdout']:
                run.fail('wrapped call has different effects / binding / invocation count than the direct call: %s vs %s' %
                         (str(obs['wrapped_log'])[:150], str(obs['direct_log'])[:150]), dict(cj, observed=_brief(obs)), cls_t)
            if obs['direct'][0] == 'exc' and obs['wrapped'][0] == 'exc':
                stats['typeerror_both'] += 1
            # policy
            if b.loggable and obs['runs'] >= 1 and not F['already_converted']:
                want = should_convert and not will_fail
                if conv_seen != want:
                    run.fail('conversion policy: target %s converted but the documented policy says it %s be (exclusions: %s; failure: %s)' %
                             ('was' if conv_seen else 'was not', 'should' if want else 'should not', excl, fail),
                             dict(cj, observed=_brief(obs)), cls_t if conv_seen else None)
            if not should_convert and obs['attempts']:
                run.fail('conversion policy: a conversion was attempted although excluded (%s)' % excl, dict(cj, observed=_brief(obs)), None)
            # fallback
            if will_fail:
                stats['fallback'] += 1
                want_warn = True
                if obs['warnings'] < 1 and want_warn:
                    run.fail('fallback: conversion failed (%s) but no warning was emitted' % (fail,), dict(cj, observed=_brief(obs)), None)
                remembered = obs['cache_after'][-1]
                if not remembered or obs['again_attempts'] or obs['again_warnings']:
                    run.fail('fallback: the failure is not remembered (in negative cache: %s; next call: %d conversion attempts, %d warnings)' %
                             (remembered, obs['again_attempts'], obs['again_warnings']), dict(cj, observed=_brief(obs)),
                             # the finding is only about a fallback that is NOT REMEMBERED; a call that misbehaves otherwise is not absorbed
                             CLS_UNCACHEABLE if (m and m['uncacheable'] and same and obs['warnings'] >= 1) else None)
                if obs['again'][0] == 'ok' and obs['direct'][0] == 'ok' and obs['again'] != obs['direct'] and b.sig == 'std':
                    run.fail('fallback: the next call gives a different result', dict(cj, observed=_brief(obs)), None)
            elif should_convert:
                stats['converted'] += 1
            elif F['builtin'] != 'notBuiltin':
                stats['builtin'] += 1
            else:
                stats['skipped'] += 1
        # ---------------- correspondence
        if m is None or b.soft:
            continue
        e = m['effect']
        d = []
        # the wrapper itself raised a conversion error before the target ran (strict mode)
        o_raised = (obs['wrapped'][0] == 'exc' and obs['runs'] == 0 and obs['direct'][:2] != obs['wrapped'][:2] and
                    (obs['injected_reraised'] or obs['wrapped'][1] in ('UnsupportedLanguageElementError', 'InaccessibleSourceCodeError')))
        if e['raised'] != bool(o_raised):
            d.append('raised: model %s, observed %s' % (e['raised'], o_raised))
        if not e['raised']:
            if b.loggable:
                # invocations & binding through Python's own binding of the model's (pos, kw)
                pos = list(e['pos'])
                has_tag = (b.binds and b.self_val is not None and not F['already_converted']) or b.needs_self is not None
                tag, want, want_runs = None, None, 0
                try:
                    if has_tag:
                        if not pos:
                            raise TypeError('missing receiver')
                        tag = pos.pop(0)
                        if b.needs_self is not None:
                            if tag != 'SELFARG':
                                raise TypeError('receiver is not the instance')   # AttributeError on self.tag in both calls
                            tag = 'SELF'
                    want = ref_binding([_unval(x) for x in pos], [(k, _unval(v)) for k, v in e['kw']])
                    want_runs = 1
                except TypeError:
                    want, want_runs = None, 0
                if b.base_kind_logs_once():
                    if obs['runs'] != want_runs * e['invocations']:
                        d.append('invocations: model %d (binding ok: %s), observed %d' % (e['invocations'], want is not None, obs['runs']))
                    elif obs['runs'] == 1 and want is not None:
                        otag, ob = observed_binding(obs['first_run_entry'], has_tag)
                        if tuple(canon(ob)) != tuple(canon(want)) or (tag is not None and otag != tag and b.base_logs_tag()):
                            d.append('binding: model %s/%s, observed %s/%s' % (tag, want, otag, ob))
            if b.loggable and obs['runs'] >= 1 and not F['already_converted']:
                if conv_seen != e['converted']:
                    d.append('converted: model %s, observed %s' % (e['converted'], conv_seen))
            if bool(obs['attempts']) != e['attempted']:
                d.append('attempted: model %s, observed %d' % (e['attempted'], obs['attempts']))
            if bool(obs['warnings']) != e['warning']:
                d.append('warning: model %s, observed %d (%s)' % (e['warning'], obs['warnings'], obs['warning_text'][:60]))
            if m['state'] != obs['cache_after']:
                d.append('negative cache per level: model %s, observed %s' % (m['state'], obs['cache_after']))
            a = m['again']
            if not a['raised']:
                if bool(obs['again_attempts']) != a['attempted']:
                    d.append('next call attempted: model %s, observed %d' % (a['attempted'], obs['again_attempts']))
                if bool(obs['again_warnings']) != a['warning']:
                    d.append('next call warning: model %s, observed %d' % (a['warning'], obs['again_warnings']))
                if b.loggable and obs['again_runs'] >= 1 and not F['already_converted']:
                    ac = bool(obs['again_conv']) and all(obs['again_conv'])
                    if ac != a['converted']:
                        d.append('next call converted: model %s, observed %s' % (a['converted'], ac))
        else:
            if obs['runs'] != 0:
                d.append('model says the wrapper raises before the target runs; target ran %d times' % obs['runs'])
            if bool(obs['attempts']) != e['attempted']:
                d.append('attempted: model %s, observed %d' % (e['attempted'], obs['attempts']))
        pk = ' > '.join(p if isinstance(p, str) else p[0] + ':' + p[1] for p in m['path'])
        cov_paths[pk] = cov_paths.get(pk, 0) + 1
        if d:
            dis.setdefault('call', []).append({'case': cj, 'request': req[:1500], 'disagreements': d, 'observed': _brief(obs)})
        if len(run.samples) < 6 and b.loggable and c.chain_ix in (3, 5) and (len(run.samples) % 2 == 0) == (fault is None):
            run.sample({'case': {k: cj[k] for k in ('base', 'chain', 'shape_ix', 'user_requested', 'status', 'strict', 'fault')},
                        'implementation': _brief(obs), 'model': {'effect': e, 'path': pk}})
    run.cov['outcomes'] = stats
    run.cov['decision_paths_hit'] = cov_paths
    checks_hit = set()
    for pk in cov_paths:
        for seg in pk.split(' > '):
            checks_hit.add(seg.split(':')[-1])
    run.cov['chain_checks_hit'] = sorted(checks_hit)
    # which rows of the decision tables were exercised (facts of the recipes that ran)
    rows = {'unsupported': set(), 'allow': set(), 'builtin': set(), 'kinds': set(), 'fail': set(), 'descs': set()}
    for (c, obs, b), req in zip(records, reqs):
        F = b.facts
        for k in ('wrapt', 'lru', 'ctor', 'known', 'tf'):
            if F[k]:
                rows['unsupported'].add(k)
        rows['builtin'].add(F['builtin'])
        rows['kinds'].add(F['kind'])
        e = F['ent']
        if e != 'opaque':
            if e[1] != 'none' and R.rule_action('.'.join(e[1])):
                rows['allow'].add('moduleRules:' + R.rule_action('.'.join(e[1])))
            if e[2]:
                rows['allow'].add('generator')
            if e[11] != 'opaque' and R.ent_allowlisted(e[11]):
                rows['allow'].add('callOverride')
            if e[6] and e[8]:
                rows['allow'].add('methodOwner:TestCase')
            if e[6] and e[12] != 'opaque' and R.ent_allowlisted(e[12], False, True):
                rows['allow'].add('methodOwner:definingClass')
            if e[9]:
                rows['allow'].add('namedtuple' + (':subclass' if e[10] else ''))
        fault = R.faults[c.fault_ix] if c.fault_ix is not None else None
        if fault is not None:
            rows['fail'].add(fault[1])
        elif F['fail'] is not None:
            rows['fail'].add('natural:' + F['fail'][0])
        rows['descs'].add(req.split(' ', 1)[1])
    run.cov['decision_rows_exercised'] = {k: sorted(v) for k, v in rows.items() if k != 'descs'}
    run.cov['distinct_model_inputs'] = len(rows['descs'])
    run.cov['fault_points'] = len(R.faults)
    run.cov['exhaustive'] = False
    run.cov['grids_complete'] = {'recipes x (user_requested, internal_convert_user_code) x context status': True,
                                 'python targets x wrapper chains x argument shapes': True,
                                 'convertible targets x fault points x strict': run.tier == 'thorough'}
    run.cov['exhaustive_note'] = ('every recipe x every (user_requested, internal_convert_user_code) x every context status is run; '
                                  'every python target x every wrapper chain x every argument shape is run; fault points x convertible targets '
                                  'are complete on the thorough tier and stride-sampled (seed-dependent) on the quick tier')
    run.c13_disagreements = dis.get('call', [])
    if run.driver_ok:
        dd = dis.get('call', [])
        run.oblige('correspondence:c13.call', 'correspondence', not dd, json.dumps(dd[:3], default=str))
        if dd:
            # a disagreement is a broken obligation; the direct oracle above is the search for a failing input
            run.notes.append('%d model/implementation disagreements' % len(dd))
    else:
        run.oblige('correspondence:c13.call', 'correspondence', False, 'driver unavailable')


def _shape_of(R, c, b):
    sh = R.shapes(b)
    a, k = sh[c.shape_ix % len(sh)]
    return tuple(a), k


def _unval(x):
    if x == '<empty>':
        return ''
    return x


def _levels_of(c):
    return PARTIAL_CHAINS[c.chain_ix]


def _real_levels_for(c, R):
    """(levels, flav) of a throw-away build — only the structure/flavours are used."""
    b, f, flav, _, _ = R.build(c, [])
    levels, _ = real_levels(f)
    return levels, flav


def _brief(obs):
    return {k: obs[k] for k in ('direct', 'wrapped', 'runs', 'conv', 'attempts', 'warnings', 'warning_text', 'cache_after',
                                'again', 'again_runs', 'again_attempts', 'again_warnings', 'direct_log', 'wrapped_log')}


def _built_logs_once(self):
    return True


def _built_logs_tag(self):
    return True


zoo.Built.base_kind_logs_once = _built_logs_once
zoo.Built.base_logs_tag = _built_logs_tag


# ------------------------------------------------------------------------------------------------ histories

HIST_SINGLES = [('bound_forelse', 0), ('classm_fixed_whileelse', 0), ('bound_falsy_bool', 0), ('classm_falsy', 1), ('builtin:decimal.ctx.abs', 0), ('fn', 0), ('fn', 1), ('fn', 3), ('fn', 6), ('lambda', 0), ('bound', 0), ('bound', 3), ('classm', 0), ('callobj', 0),
                ('class_meta', 0), ('dnc', 0), ('fn_mod:malt.c13fake', 0), ('genfn', 0), ('forelse', 0), ('forelse', 1), ('nosource', 0),
                ('callobj_unhash_fail', 0), ('lru', 0), ('execfn', 0), ('builtin:len', 0), ('class_user', 0), ('bound_testcase', 0),
                ('wrapt_fn', 0), ('bound_sub_inherit:malt.c13fake', 0)]
# distinct callables sharing code / a cache key
HIST_PAIRS = [('twins', ('fn', 0), ('fn', 0)), ('instances', ('bound', 0), ('bound', 0)), ('unbound_bound', ('unbound', 0), ('bound', 0)),
              ('twin_lambdas', ('lambda', 0), ('lambda', 1)), ('mixin', ('mix_tc', 0), ('mix_plain', 0)),
              ('failing_instances', ('callobj_forelse', 0), ('callobj_forelse', 0)),
              # siblings: ONE code object, different function objects, DIFFERENT policy verdicts (exempt one listed first; both orders run)
              ('sib_wraps', ('traced_copy', 0), ('traced_user', 0)),
              ('sib_artifact', ('fn_artifact', 0), ('fn', 0)),
              ('sib_allowmod', ('fn_mod:malt.c13fake', 0), ('fn', 0)),
              ('sib_allowmod_partial', ('fn_mod:malt.c13fake', 1), ('fn', 3)),
              ('sib_plugin', ('tfplugin', 0), ('fn', 0)),
              ('sib_failing', ('forelse', 0), ('forelse', 0))]
HIST_OPTS = [(False, True, True), (True, True, True), (False, False, False), (False, True, False)]   # (user_requested, internal_convert, recursive)


class History(object):
    """slots: [(base, chain_ix)]; calls: [(slot, status, (ur, icu, rec), shape_ix)]"""

    def __init__(self, name, slots, calls):
        self.name, self.slots, self.calls = name, [tuple(x) for x in slots], [(c[0], c[1], tuple(c[2]), c[3]) for c in calls]

    def key(self):
        return ('hist', self.name, tuple(self.slots), tuple(self.calls))

    def to_json(self):
        return {'history': True, 'name': self.name, 'slots': [list(x) for x in self.slots],
                'calls': [[c[0], c[1], list(c[2]), c[3]] for c in self.calls]}

    @staticmethod
    def from_json(d):
        return History(d['name'], d['slots'], d['calls'])


def gen_histories(run, bases):
    quick = run.tier == 'quick'
    rng = run.rng
    statuses = ['unspecified', 'enabled', 'disabled']
    out = []
    singles = [x for x in HIST_SINGLES if x[0] in bases or x[0].startswith('fn_mod:')]
    patterns = [(HIST_OPTS[0], HIST_OPTS[0]), (HIST_OPTS[1], HIST_OPTS[0]), (HIST_OPTS[2], HIST_OPTS[0]), (HIST_OPTS[0], HIST_OPTS[1])]
    n = run.seed
    for s1 in statuses:
        for s2 in statuses:
            for pi, (o1, o2) in enumerate(patterns):
                for sub in singles:
                    n += 1
                    if pi >= 2 and quick and n % 2:
                        continue
                    out.append(History('single', [sub], [(0, s1, o1, n % 5), (0, s2, o2, (n + 1) % 5)]))
                for name, a, b in HIST_PAIRS:
                    n += 1
                    out.append(History(name, [a, b], [(0, s1, o1, n % 5), (1, s2, o2, (n + 2) % 5)]))
                    if pi < 2:
                        out.append(History(name, [a, b], [(1, s1, o1, n % 5), (0, s2, o2, (n + 2) % 5)]))
    # longer random histories (3-4 calls)
    for _ in range(150 if quick else 1500):
        if rng.random() < 0.6:
            slots = [rng.choice(singles)]
            name = 'single'
        else:
            name, a, b = rng.choice(HIST_PAIRS)
            slots = [a, b]
        calls = [(rng.randrange(len(slots)), rng.choice(statuses), rng.choice(HIST_OPTS), rng.randrange(5)) for _ in range(rng.choice((3, 4)))]
        out.append(History(name, slots, calls))
    return out


def _run_histories(run, R, hists):
    from malt.impl import api, conversion
    ins = R.ins
    reqs, recs = [], []
    for h in hists:
        ins.reset(False)
        os.environ.pop('AUTOGRAPH_STRICT_CONVERSION', None)
        slots = []
        keyidx = {}
        keep = []

        def kid(obj):
            keep.append(obj)
            return keyidx.setdefault(id(obj), len(keyidx))
        for (base, chain_ix) in h.slots:
            c0 = Case(base, chain_ix, 0, False, True, True, 'unspecified', False)
            log = []
            b, f, flav, _, _ = R.build(c0, log)
            levels, base_f = real_levels(f)
            code = getattr(base_f, '__code__', None) if (inspect.isfunction(base_f) or inspect.ismethod(base_f)) else None
            keys = [[kid(lv), kid(lv), 'none'] for lv in levels] + \
                   [[kid(base_f), kid(base_f.__func__ if inspect.ismethod(base_f) else base_f), 'none' if code is None else kid(code)]]
            tlog = []
            tb, tf, _, _, _ = R.build(c0, tlog)      # the twin receives the same history directly (callables may be stateful)
            slots.append({'b': b, 'f': f, 'flav': flav, 'levels': levels, 'base_f': base_f, 'log': log, 'keys': keys, 'chain_ix': chain_ix, 'base': base,
                          'tb': tb, 'tf': tf, 'tlog': tlog})
        okeys = {}
        calls_sx, obs_list = [], []
        for (si, status, (ur, icu, rec), shape_ix) in h.calls:
            sl = slots[si]
            c = Case(sl['base'], sl['chain_ix'], shape_ix, ur, icu, rec, status, False)
            opts = R.options(c)
            okey = okeys.setdefault((rec, ur, icu), len(okeys))
            # direct call on the slot's twin
            tb, f_d = sl['tb'], sl['tf']
            if tb.log is not None:
                del tb.log[:]
            del sl['tlog'][:]
            bt2, _, _, args_d, kw_d = R.build(c, sl['tlog'])
            if tb.needs_self is not None:
                args_d = (tb.needs_self,) + tuple(args_d[1:])
            if bt2.log is not None:
                del bt2.log[:]
            direct_out, direct_stdout, _ = invoke((lambda: f_d(*args_d)) if kw_d is None else (lambda: f_d(*args_d, **kw_d)), tb.result_kind)
            direct_log = canon_log(R.the_log(tb, sl['tlog']))
            # wrapped call on the persistent callable (fresh argument objects logging into the slot's log)
            b = sl['b']
            if b.log is not None:
                del b.log[:]
            del sl['log'][:]
            b2, _, _, args, kw = R.build(c, sl['log'])
            if b.needs_self is not None:
                args = (b.needs_self,) + tuple(args[1:])
            if b2.log is not None:
                del b2.log[:]
            n0 = ins.mark()
            st = {'unspecified': R.ag_ctx.Status.UNSPECIFIED, 'enabled': R.ag_ctx.Status.ENABLED, 'disabled': R.ag_ctx.Status.DISABLED}[status]
            with R.ag_ctx.ControlStatusCtx(st):
                out, stdout, _ = invoke(lambda: api.converted_call(sl['f'], args, kw, options=opts), b.result_kind)
            n1 = ins.mark()
            wlog = list(R.the_log(b, sl['log']))
            ents = ins.converted_entities[n0[0]:n1[0]]
            att = sum(1 for e in ents if any(e is t or getattr(e, '__func__', None) is t or e is getattr(t, '__func__', None) for t in b.target_ents))
            obs_list.append({'slot': si, 'status': status, 'opts': [ur, icu, rec], 'direct': direct_out, 'wrapped': out, 'direct_log': direct_log,
                             'wrapped_log': canon_log(wlog), 'direct_stdout': direct_stdout, 'wrapped_stdout': stdout,
                             'runs': len(conv_flags(wlog)), 'conv': conv_flags(wlog), 'attempts': att, 'warnings': n1[1] - n0[1], 'case': c})
            margs = [R.val(a) for a in args]
            if b.needs_self is not None:
                margs[0] = 'SELFARG'
            mkw = 'none' if kw is None else [[k, R.val(v)] for k, v in kw.items()]
            calls_sx.append([si, [status, False, True], okey, [bool(opts.user_requested), bool(opts.internal_convert_user_code)], margs, mkw])
        slots_sx = []
        for sl in slots:
            c0 = Case(sl['base'], sl['chain_ix'], 0, False, True, True, 'unspecified', False)
            req = R.model_request(c0, sl['b'], sl['levels'], sl['flav'], (), None, None)
            # the callable S-expression is the third argument of the c13.call request
            callable_sx = parse_sexp('(' + req.split(' ', 1)[1] + ')')[2]
            slots_sx.append(['slot', callable_sx] + sl['keys'])
        reqs.append('c13.history %s %s' % (sexp(slots_sx), sexp(calls_sx)))
        recs.append((h, slots, obs_list))
    models = [None] * len(recs)
    if run.driver_ok and reqs:
        answers = run.drive(reqs)
        for i, a in enumerate(answers):
            if not a.startswith('('):
                raise common.InfraError('driver rejected a history request: ' + reqs[i][:300])
            sx = parse_sexp(a)
            part = {x[0]: x[1:] for x in sx}
            effs = []
            for e in part['effects']:
                effs.append({'invocations': int(e[1]), 'converted': e[4] == 'True', 'attempted': e[5] == 'True', 'warning': e[6] == 'True', 'raised': e[7] == 'True'})
            models[i] = {'effects': effs, 'shared_disagree': part['class'][0] == 'True', 'foreign': part['class'][1] == 'True',
                         'uncacheable': part['class'][2] == 'True'}
    dis = []
    stats = {'histories': len(recs), 'calls': 0, 'converted_after_disabled': 0, 'remembered_failure_skips': 0, 'shared_key_histories': 0, 'shared_code_distinct_function_histories': 0}
    for (h, slots, obs_list), m, req in zip(recs, models, reqs):
        run.case(h.key(), True)
        hj = h.to_json()
        if len(set(sl['keys'][-1][1] for sl in slots)) < len(slots):
            stats['shared_key_histories'] += 1
        elif len(set(sl['keys'][-1][2] for sl in slots)) < len(slots):
            stats['shared_code_distinct_function_histories'] += 1
        failed_keys = set()      # (cache key of the base, options) of genuine conversion failures that were remembered
        prev_disabled = False
        for i, ob in enumerate(obs_list):
            stats['calls'] += 1
            sl = slots[ob['slot']]
            b, F, c = sl['b'], sl['b'].facts, ob['case']
            excl = R.exclusions(c, b, sl['levels'], sl['flav'])
            fkey = (sl['keys'][-1][1], tuple(ob['opts']))
            due = not excl
            fails = F['fail'] is not None
            remembered = fkey in failed_keys
            info = dict(hj, failing_call=i, observed=[{k: v for k, v in o.items() if k != 'case'} for o in obs_list[:i + 1]])
            cls_t = None
            if m:
                cls_t = CLS_FOREIGN_SELF if m['foreign'] else (CLS_SHARED_OWNER if m['shared_disagree'] else None)
            if ob['wrapped'][0] == 'timeout' and ob['direct'][0] != 'timeout':
                run.fail('history: call %d did not terminate within %d s' % (i, CALL_TIMEOUT_S), info, None)
                break
            same = ob['wrapped'] == ob['direct'] or (ob['wrapped'][0] == 'exc' and ob['direct'][0] == 'exc' and ob['wrapped'][1] == ob['direct'][1])
            if not same or ob['wrapped_log'] != ob['direct_log'] or ob['wrapped_stdout'] != ob['direct_stdout']:
                run.fail('history: call %d differs from the direct call: %s vs %s' % (i, str(ob['wrapped'])[:100], str(ob['direct'])[:100]), info,
                         CLS_FOREIGN_SELF if (m and m['foreign']) else None)
            conv_seen = bool(ob['conv']) and all(ob['conv'])
            if b.loggable and ob['runs'] >= 1 and not F['already_converted']:
                want = due and not fails
                if conv_seen != want:
                    run.fail('history: call %d (context %s, options %s) %s converted but the policy for ITS context says it %s be (exclusions %s; earlier calls: %s)' %
                             (i, ob['status'], ob['opts'], 'was' if conv_seen else 'was not', 'should' if want else 'should not', excl,
                              [(o['slot'], o['status'], o['opts']) for o in obs_list[:i]]), info, cls_t)
                if want and prev_disabled:
                    stats['converted_after_disabled'] += 1
            if not due and ob['attempts']:
                run.fail('history: call %d attempted a conversion although excluded (%s)' % (i, excl), info, None)
            if due and not fails and not ob['attempts'] and b.loggable:
                run.fail('history: call %d did not attempt the due conversion (earlier calls: %s)' % (i, [(o['slot'], o['status'], o['opts']) for o in obs_list[:i]]),
                         info, cls_t)
            if due and fails:
                if remembered:
                    stats['remembered_failure_skips'] += 1
                    if ob['attempts'] or ob['warnings']:
                        run.fail('history: call %d re-attempted a conversion whose failure was remembered' % i, info, None)
                else:
                    if not ob['attempts'] or not ob['warnings']:
                        run.fail('history: call %d: failing conversion not attempted / no warning although nothing was remembered for these options' % i, info, cls_t)
                    if F['cacheable']:
                        failed_keys.add(fkey)
            prev_disabled = prev_disabled or ob['status'] == 'disabled'
            if m:
                e = m['effects'][i]
                d = []
                if b.loggable and ob['runs'] >= 1 and not F['already_converted'] and conv_seen != e['converted']:
                    d.append('call %d converted: model %s, observed %s' % (i, e['converted'], conv_seen))
                if bool(ob['attempts']) != e['attempted']:
                    d.append('call %d attempted: model %s, observed %d' % (i, e['attempted'], ob['attempts']))
                if bool(ob['warnings']) != e['warning']:
                    d.append('call %d warning: model %s, observed %d' % (i, e['warning'], ob['warnings']))
                if d:
                    dis.append({'history': hj, 'request': req[:1200], 'disagreements': d})
    run.cov['histories'] = stats
    run.c13_hist_disagreements = dis
    if run.driver_ok:
        run.oblige('correspondence:c13.history', 'correspondence', not dis, json.dumps(dis[:3], default=str))
    else:
        run.oblige('correspondence:c13.history', 'correspondence', False, 'driver unavailable')
    if recs:
        h, slots, obs_list = recs[len(recs) // 3]
        run.sample({'history': h.to_json(), 'observed': [{k: o[k] for k in ('slot', 'status', 'opts', 'conv', 'attempts', 'warnings')} for o in obs_list]}, cap=8)


# ------------------------------------------------------------------------------------------------ two-thread schedules

def _run_threads(run, R):
    """Prescribed interleavings of two threads: A enters a region (a ControlStatusCtx, or a do_not_convert call) and blocks;
    B — a FRESH thread, so its context stack is created lazily — routes a target through converted_call in its own context;
    A resumes, makes its own wrapped call inside its region and leaves.  Each verdict must be the single-thread verdict for
    the calling thread's OWN context."""
    import threading
    from malt.impl import api
    ins = R.ins
    ST = {'unspecified': R.ag_ctx.Status.UNSPECIFIED, 'enabled': R.ag_ctx.Status.ENABLED, 'disabled': R.ag_ctx.Status.DISABLED}
    a_regions = ['ctx:disabled', 'ctx:enabled', 'ctx:unspecified', 'dnc']
    b_ctxs = ['default', 'unspecified', 'enabled', 'disabled']
    targets = ['fn', 'bound', 'lambda', 'callobj', 'fn_mod:malt.c13fake', 'forelse']
    reqs, recs = [], []
    n = run.seed
    for region in a_regions:
        for bctx in b_ctxs:
            for tb in targets:
                n += 1
                if run.tier == 'quick' and tb in ('lambda', 'callobj', 'forelse') and n % 2:
                    continue
                ins.reset(False)
                cB = Case(tb, 0, 1 + n % 3, False, True, True, 'unspecified' if bctx == 'default' else bctx, False)
                statusA = 'disabled' if region == 'dnc' else region.split(':')[1]
                cA = Case('fn', 0, 1, False, True, True, statusA, False)
                logB, logA = [], []
                bB, fB, flavB, argsB, kwB = R.build(cB, logB)
                bA, fA, flavA, argsA, kwA = R.build(cA, logA)
                optsB, optsA = R.options(cB), R.options(cA)
                entered, b_done = threading.Event(), threading.Event()
                out = {}

                def a_body():
                    entered.set()
                    if not b_done.wait(20):
                        out['timeout'] = True
                    m0 = ins.mark()
                    out['A'] = invoke(lambda: api.converted_call(fA, argsA, kwA, options=optsA), bA.result_kind)[0]
                    m1 = ins.mark()
                    out['A_attempts'] = m1[0] - m0[0]

                def thread_a():
                    try:
                        if region == 'dnc':
                            api.do_not_convert(a_body)()
                        else:
                            with R.ag_ctx.ControlStatusCtx(ST[statusA]):
                                a_body()
                    except Exception as e:  # noqa
                        out['A_exc'] = repr(e)
                        entered.set()

                def thread_b():
                    try:
                        if not entered.wait(20):
                            out['timeout'] = True
                        m0 = ins.mark()
                        if bctx == 'default':
                            out['B'] = invoke(lambda: api.converted_call(fB, argsB, kwB, options=optsB), bB.result_kind)[0]
                        else:
                            with R.ag_ctx.ControlStatusCtx(ST[bctx]):
                                out['B'] = invoke(lambda: api.converted_call(fB, argsB, kwB, options=optsB), bB.result_kind)[0]
                        m1 = ins.mark()
                        out['B_attempts'] = m1[0] - m0[0]
                        out['B_warnings'] = m1[1] - m0[1]
                    except Exception as e:  # noqa
                        out['B_exc'] = repr(e)
                    finally:
                        b_done.set()
                ta, tb_ = threading.Thread(target=thread_a, daemon=True), threading.Thread(target=thread_b, daemon=True)
                ta.start(); tb_.start(); ta.join(30); tb_.join(30)
                if out.get('timeout') or ta.is_alive() or tb_.is_alive():
                    b_done.set(); entered.set()
                    run.case(('threads', region, bctx, tb), True)
                    run.fail('threads: the schedule did not terminate within 30 s (A inside %s, B in context %s calling %s)' % (region, bctx, tb),
                             {'threads': True, 'A_region': region, 'B_context': bctx, 'B_target': tb}, None)
                    continue
                # direct twins
                ld = []
                bd, fd, _, ad, kd = R.build(cB, ld)
                directB = invoke((lambda: fd(*ad)) if kd is None else (lambda: fd(*ad, **kd)), bd.result_kind)[0]
                info = {'threads': True, 'A_region': region, 'B_context': bctx, 'B_target': tb, 'B_shape': cB.shape_ix,
                        'B_outcome': out.get('B'), 'B_direct': directB, 'B_conv': conv_flags(logB), 'A_conv': conv_flags(logA),
                        'errors': {k: v for k, v in out.items() if k.endswith('_exc')}}
                run.case(('threads', region, bctx, tb), True)
                if 'A_exc' in out or 'B_exc' in out:
                    run.fail('threads: a thread failed outside the wrapped call: %s' % info['errors'], info, None)
                    continue
                if out['B'] != directB and not (out['B'][0] == 'exc' and directB[0] == 'exc' and out['B'][1] == directB[1]):
                    run.fail('threads: B\'s wrapped call differs from the direct call: %s vs %s' % (str(out['B'])[:100], str(directB)[:100]), info, None)
                exclB = R.exclusions(cB, bB, *real_levels_flav(fB, flavB))
                wantB = (not exclB) and bB.facts['fail'] is None
                convB = bool(conv_flags(logB)) and all(conv_flags(logB))
                if bB.loggable and conv_flags(logB) and convB != wantB:
                    run.fail('threads: thread B (own context %s) %s converted while thread A is inside %s; the verdict for B\'s OWN context is %s (exclusions %s)' %
                             (bctx, 'was' if convB else 'was not', region, 'convert' if wantB else 'do not convert', exclB), info, None)
                if exclB and out.get('B_attempts'):
                    run.fail('threads: thread B attempted a conversion although its own context excludes it (%s)' % exclB, info, None)
                if not exclB and not out.get('B_attempts'):
                    run.fail('threads: thread B did not attempt the conversion due in its own context (A inside %s)' % region, info, None)
                exclA = R.exclusions(cA, bA, *real_levels_flav(fA, flavA))
                convA = bool(conv_flags(logA)) and all(conv_flags(logA))
                if conv_flags(logA) and convA != (not exclA):
                    run.fail('threads: thread A (inside %s) %s converted after thread B ran in context %s' % (region, 'was' if convA else 'was not', bctx), info, None)
                # model: the schedule as events
                def csx(c, b, f, flav):
                    levels, _ = real_levels(f)
                    req = R.model_request(c, b, levels, flav, (), None, None)
                    return parse_sexp('(' + req.split(' ', 1)[1] + ')')[2]
                mk = lambda args, kw: ([R.val(a) for a in args], 'none' if kw is None else [[k, R.val(v)] for k, v in kw.items()])  # noqa
                evs = [['enter', 1, statusA]]
                if bctx != 'default':
                    evs.append(['enter', 2, bctx])
                aB, kB = mk(argsB, kwB)
                evs.append(['call', 2, False, [bool(optsB.user_requested), bool(optsB.internal_convert_user_code)], csx(cB, bB, fB, flavB), aB, kB])
                if bctx != 'default':
                    evs.append(['leave', 2])
                aA, kA = mk(argsA, kwA)
                evs.append(['call', 1, False, [bool(optsA.user_requested), bool(optsA.internal_convert_user_code)], csx(cA, bA, fA, flavA), aA, kA])
                evs.append(['leave', 1])
                reqs.append('c13.threads ' + sexp(evs))
                recs.append((info, bB, convB, bool(out.get('B_attempts')), bool(out.get('B_warnings')), convA, bool(conv_flags(logB)), bool(conv_flags(logA))))
    run.cov['two_thread_schedules'] = len(recs)
    dis = []
    if run.driver_ok and reqs:
        for a, (info, bB, convB, attB, warnB, convA, ranB, ranA), req in zip(run.drive(reqs), recs, reqs):
            if not a.startswith('('):
                raise common.InfraError('driver rejected a threads request: ' + req[:300])
            effs = parse_sexp(a)[1:]
            eB, eA = effs[0], effs[1]
            d = []
            if bB.loggable and ranB and (eB[4] == 'True') != convB:
                d.append('B converted: model %s, observed %s' % (eB[4], convB))
            if (eB[5] == 'True') != attB:
                d.append('B attempted: model %s, observed %s' % (eB[5], attB))
            if (eB[6] == 'True') != warnB:
                d.append('B warning: model %s, observed %s' % (eB[6], warnB))
            if ranA and (eA[4] == 'True') != convA:
                d.append('A converted: model %s, observed %s' % (eA[4], convA))
            if d:
                dis.append({'schedule': info, 'disagreements': d})
        run.oblige('correspondence:c13.threads', 'correspondence', not dis, json.dumps(dis[:3], default=str))
    else:
        run.oblige('correspondence:c13.threads', 'correspondence', False, 'driver unavailable')


def real_levels_flav(f, flav):
    return real_levels(f)[0], flav


# ------------------------------------------------------------------------------------------------ special builtins

def _specials(run, R):
    """eval / globals / locals / super are evaluated in the frame of the converted caller (caller_fn_scope)."""
    from malt.impl import api
    from malt.core import converter
    from malt.operators import function_wrappers
    opts = converter.ConversionOptions(recursive=True, user_requested=False, optional_features=None)
    bad = []

    def caller(which):
        fscope = function_wrappers.FunctionScope('caller', 'fscope', opts)
        with fscope:
            c13_local = 41
            if which == 'eval':
                return api.converted_call(eval, ('c13_local + 1',), None, fscope), eval('c13_local + 1')
            if which == 'locals':
                return sorted(k for k in api.converted_call(locals, (), None, fscope) if k.startswith('c13_')), ['c13_local']
            if which == 'globals':
                return api.converted_call(globals, (), None, fscope) is globals(), True
    for which in ('eval', 'locals', 'globals'):
        run.case(('special', which), True)
        try:
            got, want = caller(which)
        except Exception as e:  # noqa
            got, want = ('exc', type(e).__name__, str(e)[:100]), 'no exception'
        if got != want:
            run.fail('builtin %s through the wrapper is not evaluated in the caller\'s frame: %r vs %r' % (which, got, want),
                     {'builtin': which}, None)
    run.cov['special_builtins'] = ['eval', 'locals', 'globals']


def replay(run, path):
    with open(path) as f:
        rep = json.load(f)
    print(json.dumps({k: rep[k] for k in ('property', 'what', 'class') if k in rep}, indent=1))
    case = rep.get('case', {})
    if 'base' not in case and not case.get('history'):
        check(run)
        return run.finish()
    run.rule = 'replay of one recorded case'
    run.translate(['Policy'])
    run.build_and_audit('MaltModel.Props.C13', model_files=MODEL_FILES)
    tmp = tempfile.mkdtemp(prefix='c13_')
    try:
        with Instr() as ins:
            from malt.core import config
            env = zoo.ZooEnv(tmp, [r._prefix for r in config.CONVERSION_RULES])
            try:
                R = Runner(run, ins, env)
                for m in zoo.rule_test_modules(env.rule_prefixes):
                    if m not in sys.modules:
                        env.register_fake(m)
                if case.get('history'):
                    _run_histories(run, R, [History.from_json(case)])
                else:
                    _run_cases(run, R, [Case.from_json(case)])
            finally:
                env.close()
    finally:
        shutil.rmtree(tmp, ignore_errors=True)
    for f in run.failing:
        print('FAILS:', f['what'])
    return run.finish()
