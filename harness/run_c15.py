"""C15 — source recovery returns exactly the code of the function being converted.

Direct oracle (needs no Lean): ast.dump(parser.parse_entity(f, ())[0]) vs the node the interpreter compiled
(found in ast.parse(module source) by co_firstlineno for definitions, by co_positions / body tag for lambdas);
for lambdas additionally the converted lambda computes what the original computes, or the explicit
unsupported-element error is raised.
Correspondence: real `_unfold_continuations`, `dedent_block`, lambda candidate selection vs the Lean model
(MaltModel/Rt/Dedent.lean, MaltModel/Rt/Lambda.lean) on the same inputs, CPython's tokenizer being an input
oracle of the model.  Checkers: the text-level dedent specification and the theorem's predicted output
(`renderA (adjust p atoks)`) evaluated by the driver on the real token stream vs the real output.
"""
import ast, atexit, collections, dis, hashlib, importlib.util, inspect, json, linecache, os, random, shutil, sys
import tempfile, textwrap, tokenize, warnings, zipfile, importlib.abc
import common
from common import sexp, parse_sexp
import c15_gen as G

MODEL_FILES = ['MaltModel/Rt/Dedent.lean', 'MaltModel/Rt/Lambda.lean', 'MaltModel/Rt/Lex.lean',
               'MaltModel/Proofs/C15Dedent.lean', 'MaltModel/Proofs/C15Lex.lean',
               'MaltModel/Drv/C15.lean']

CLS_INSIDE = 'backslash_newline_inside_string_or_comment'
CLS_JOIN = 'backslash_newline_joins_adjacent_tokens'
CLS_INDENT = 'backslash_newline_in_indentation'
CLS_STRLINE = 'lambda_first_line_inside_multiline_string'


def _malt():
    import malt
    from malt.pyct import parser, inspect_utils, errors
    return malt, parser, inspect_utils, errors


def sha(s):
    return hashlib.sha1(s.encode('utf-8', 'surrogatepass')).hexdigest()[:12]


# --------------------------------------------------------------------------- scratch modules

class Scratch:
    def __init__(self):
        self.dir = tempfile.mkdtemp(prefix='verif_c15_')
        self.names = []
        self.k = 0
        # malt's loader writes every converted entity to a NamedTemporaryFile in the default temp directory and
        # removes it only at interpreter exit: keep those files inside the scratch directory too
        self.prev_tempdir = tempfile.tempdir
        tempfile.tempdir = self.dir
        atexit.register(self.close)

    def load(self, text, tag='m'):
        self.k += 1
        name = 'verif_c15_%s_%d_%d' % (tag, os.getpid(), self.k)
        path = os.path.join(self.dir, name + '.py')
        with open(path, 'w', encoding='utf-8', newline='') as fh:
            fh.write(text)
        spec = importlib.util.spec_from_file_location(name, path)
        mod = importlib.util.module_from_spec(spec)
        sys.modules[name] = mod
        self.names.append((name, path))
        spec.loader.exec_module(mod)
        return mod

    def fresh_name(self, tag):
        self.k += 1
        return 'verif_c15_%s_%d_%d' % (tag, os.getpid(), self.k)

    def load_as(self, kind, text, tag):
        """import `text` as a new module from a file ('disk'), from a zip archive built here ('zip', zipimport)
        or through a loader that offers the text only via get_source ('loader': no file exists at __file__)"""
        if kind == 'disk':
            return self.load(text, tag)
        name = self.fresh_name(tag)
        if kind == 'zip':
            zpath = os.path.join(self.dir, name + '.zip')
            with zipfile.ZipFile(zpath, 'w') as z:
                z.writestr(name + '.py', text)
            sys.path.insert(0, zpath)
            try:
                mod = importlib.import_module(name)
            finally:
                sys.path.remove(zpath)
                sys.path_importer_cache.pop(zpath, None)
            self.names.append((name, mod.__file__))
            return mod
        path = os.path.join(self.dir, 'no_such_dir', name + '.py')
        spec = importlib.util.spec_from_file_location(name, path, loader=SourceOnlyLoader(path, text))
        mod = importlib.util.module_from_spec(spec)
        sys.modules[name] = mod
        self.names.append((name, path))
        spec.loader.exec_module(mod)
        return mod

    def close(self):
        for name, path in self.names:
            sys.modules.pop(name, None)
            linecache.cache.pop(path, None)
        self.names = []
        if tempfile.tempdir == self.dir:
            tempfile.tempdir = self.prev_tempdir
        shutil.rmtree(self.dir, ignore_errors=True)


class SourceOnlyLoader(importlib.abc.Loader):
    """a loader whose module has no file on disk: the source is available through get_source only"""

    def __init__(self, path, text):
        self.path, self.text = path, text

    def create_module(self, spec):
        return None

    def exec_module(self, module):
        exec(compile(self.text, self.path, 'exec'), module.__dict__)

    def get_source(self, fullname):
        return self.text


# --------------------------------------------------------------------------- definitions: direct oracle

def def_index(tree):
    """first line (decorator-aware, = co_firstlineno) -> FunctionDef node"""
    idx = {}
    for n in ast.walk(tree):
        if isinstance(n, (ast.FunctionDef, ast.AsyncFunctionDef)):
            first = min([d.lineno for d in n.decorator_list] + [n.lineno])
            idx.setdefault(first, []).append(n)
    return idx


def recover(parser, errors, f, inspect_utils=None):
    """('same'|'diff'|'unsupported'|'exc:Name', dump-or-message, source); called the way
    transpiler.transform_function calls it (future features of the function's module)"""
    try:
        futures = inspect_utils.getfutureimports(f) if inspect_utils is not None else ()
        node, source = parser.parse_entity(f, future_features=futures)
    except errors.UnsupportedLanguageElementError as e:
        return 'unsupported', str(e)[:200], None
    except Exception as e:
        return 'exc:' + type(e).__name__, str(e)[:200], None
    return 'node', ast.dump(node), source


def unfold_explains(text, first_line, block, outcome, got_dump):
    """Is the observed failure exactly what replacing backslash-newline textually in the function's block does?
    Reference, independent of dedent_block: the unfolded block is parsed in place (an indented block is wrapped in
    `if 1:` instead of being dedented)."""
    unf = block.replace('\\\n', '')
    if unf == block:
        return False
    indented = block[:1] in (' ', '\t')
    is_error = outcome == 'unsupported' or (
        outcome.startswith('exc:') and outcome[4:] in ('SyntaxError', 'IndentationError', 'TabError', 'ValueError'))
    try:
        t2 = ast.parse(('if 1:\n' + unf) if indented else unf)
    except SyntaxError:
        # the unfolded text is no longer Python: any loud failure of the recovery is the same defect (which error
        # is hit first — the parser's, or the tab/space check of dedent_block on what used to be the inside of a
        # string — depends on the garbage)
        return is_error
    body = t2.body
    if indented:
        body = t2.body[0].body if len(t2.body) == 1 and isinstance(t2.body[0], ast.If) else None
    if body is None or len(body) != 1 or not isinstance(body[0], (ast.FunctionDef, ast.AsyncFunctionDef)):
        return is_error       # more than one statement after the corruption: parse() raises ValueError
    return outcome == 'diff' and ast.dump(body[0]) == got_dump


def py_classes(atoks):
    out = []
    if atoks is None:
        return out
    if G.py_cont_inside_token(atoks):
        out.append(CLS_INSIDE)
    if G.py_cont_joins(atoks):
        out.append(CLS_JOIN)
    if G.py_cont_in_indentation(atoks):
        out.append(CLS_INDENT)
    return out


def info_future(text):
    """parse_entity prepends the __future__ import lines to the returned source"""
    return text.startswith('from __future__ import')


class DefCase:
    """One function of a generated module: everything observed on the real code."""

    def __init__(self, text, f, info, malt_mods):
        malt, parser, inspect_utils, errors = malt_mods
        self.text, self.info = text, info
        self.first = f.__code__.co_firstlineno
        try:
            self.src = inspect_utils.getimmediatesource(f)
        except Exception as e:
            self.src = None
            self.src_err = type(e).__name__
        kind, payload, source = recover(parser, errors, f, inspect_utils)
        self.kind, self.payload, self.source = kind, payload, source

    def case(self):
        return {'kind': 'def', 'module': self.text, 'first_line': self.first, 'feats': self.info.get('feats'),
                'block': self.src}


# --------------------------------------------------------------------------- lambdas: direct oracle

def lambda_table(tree):
    """top-level statements with their lambda nodes in ast.walk order (what _parse_lambda enumerates)"""
    tops, nodes = [], []
    for st in tree.body:
        lams = []
        for n in ast.walk(st):
            if isinstance(n, ast.Lambda):
                n._c15_id = len(nodes)
                nodes.append(n)
                lams.append(n)
        tops.append((st.lineno, lams))
    return tops, nodes


def names_of(xs):
    return [a.arg for a in xs]


def sig_sexp(n):
    a = n.args
    opt = lambda x: ['none'] if x is None else ['some', x.arg]
    return [names_of(a.posonlyargs), names_of(a.args), opt(a.vararg), names_of(a.kwonlyargs), opt(a.kwarg)]


def tag_of_node(n):
    b = n.body
    if isinstance(b, ast.Tuple) and b.elts and isinstance(b.elts[0], ast.Constant) and isinstance(b.elts[0].value, int):
        return b.elts[0].value
    return None


def tag_of_fn(fn):
    for c in fn.__code__.co_consts:
        if isinstance(c, int) and not isinstance(c, bool) and c >= 1000:
            return c
    return None


def node_by_positions(fn, nodes):
    """the innermost Lambda node whose body span contains every instruction position of the code object"""
    pos = [p for p in fn.__code__.co_positions() if p[0] is not None and not (p[2] == 0 and p[3] == 0)]
    if not pos:
        return None
    lo = min((p[0], p[2]) for p in pos)
    hi = max((p[1], p[3]) for p in pos)
    best = None
    for n in nodes:
        b = n.body
        if (b.lineno, b.col_offset) <= lo and hi <= (b.end_lineno, b.end_col_offset):
            size = (b.end_lineno - b.lineno, b.end_col_offset - b.col_offset if b.end_lineno == b.lineno else 0,
                    -b.lineno, -b.col_offset)
            if best is None or size < best[0]:
                best = (size, n)
    return best[1] if best else None


def sample_call(fn, depth=0):
    """deterministic arguments from the signature; returns a comparable value (functions in the result are
    called in turn)"""
    sig = inspect.signature(fn)
    args, kw = [], {}
    vals = [5, 3, 2, 7, 4, 6]
    for p in sig.parameters.values():
        if p.kind in (p.POSITIONAL_ONLY, p.POSITIONAL_OR_KEYWORD):
            args.append(vals[len(args) % len(vals)])
        elif p.kind == p.VAR_POSITIONAL:
            args += [1, 2]
        elif p.kind == p.KEYWORD_ONLY:
            kw[p.name] = 11
        elif p.kind == p.VAR_KEYWORD:
            kw['zz'] = 1
    res = fn(*args, **kw)
    return freeze(res, depth)


def freeze(res, depth):
    if isinstance(res, tuple):
        return tuple(freeze(r, depth) for r in res)
    if callable(res) and depth < 2:
        return ('fn', sample_call(res, depth + 1))
    return res


# --------------------------------------------------------------------------- the check

class Checker:
    def __init__(self, run):
        self.run = run
        self.mods = _malt()
        self.scratch = Scratch()
        self.req = []          # (line, callback)
        self.hist = collections.Counter()
        self.feat_hist = collections.Counter()
        self.class_hist = collections.Counter()
        self.dis = collections.defaultdict(list)    # correspondence disagreements per op
        self.ncorr = collections.Counter()
        self.live_classes = set()
        self.gen_invalid = 0
        self.ndefsamples = 0
        self.why = collections.defaultdict(collections.Counter)   # population -> reason -> count

    # ---- driver requests are batched
    def ask(self, line, cb):
        self.req.append((line, cb))

    def flush(self):
        if not self.req or not self.run.driver_ok:
            self.req = []
            return
        lines = [l for l, _ in self.req]
        answers = self.run.drive(lines)
        reqs, self.req = self.req, []
        for (l, cb), a in zip(reqs, answers):
            cb(a)

    def disagree(self, op, detail):
        if len(self.dis[op]) < 5:
            self.dis[op].append(detail)
        else:
            self.dis[op].append(None)

    # ---- the Lean lexer against tokenize, on a whole source text
    def lex_correspondence(self, text, origin):
        if not self.run.driver_ok:
            return
        want = G.lean_view(text)
        if want is None:
            self.hist['lex:tokenize-rejects-the-text'] += 1
            return

        def cb(a, text=text, want=want):
            r = parse_sexp(a)
            self.ncorr['lex'] += 1
            if r[0] != want[0]:
                k = next((i for i in range(min(len(r[0]), len(want[0]))) if r[0][i] != want[0][i]), -1)
                self.disagree('lex', {'origin': origin, 'what': 'character classes', 'at': k, 'context': text[max(0, k - 60):k + 20],
                                      'lean': r[0][max(0, k - 8):k + 8], 'tokenize': want[0][max(0, k - 8):k + 8]})
            elif r[1] != want[1]:
                k = next((i for i in range(min(len(r[1]), len(want[1]))) if r[1][i] != want[1][i]), -1)
                self.disagree('lex', {'origin': origin, 'what': 'tokens', 'at': k, 'lean': r[1][max(0, k - 1):k + 2],
                                      'tokenize': want[1][max(0, k - 1):k + 2]})
        self.ask('c15.lex ' + sexp(text), cb)

    # ---- which theorem hypotheses does a block satisfy (Lean lexer only, no oracle)? and what do they predict?
    def why_block(self, block, population, real_out=None, outcome=None):
        if not self.run.driver_ok:
            return

        def cb(a, block=block):
            reasons = parse_sexp(a)
            self.ncorr['why'] += 1
            for r in reasons:
                self.why[population][r] += 1
            unfold_in = 'unfold:in-fragment(C15_unfold_lex)' in reasons
            dedent_in = any(r.startswith('dedent:in-fragment') or r.startswith('dedent:unindented') for r in reasons)
            self.why[population]['ALL-HYPOTHESES-HOLD' if (unfold_in and dedent_in) else 'some-hypothesis-fails'] += 1
            if unfold_in and 'relex:TOKENS-CHANGED' in reasons:
                self.disagree('relex', {'block': block, 'reasons': reasons})
            # theorem + classifier partition the inputs: inside the fragment the recovery must be right
            if unfold_in and dedent_in and outcome is not None and outcome != 'same':
                self.disagree('partition', {'block': block, 'outcome': outcome, 'reasons': reasons})
        self.ask('c15.why ' + sexp(block), cb)
        if real_out is not None:
            def cb2(a, block=block, real_out=real_out):
                r = parse_sexp(a)
                if r[0] == 'True':
                    self.ncorr['lexdedent'] += 1
                    if r[1] != real_out:
                        self.disagree('theorem-instance-lex', {'block': block, 'real_output': real_out, 'theorem_predicts': r[1]})
            self.ask('c15.lexdedent ' + sexp(block), cb2)

    # ---- every function of the library itself (text level: no import needed)
    def repo_sources(self):
        malt, parser, inspect_utils, errors = self.mods
        root = os.path.join(common.REPO, 'malt')
        nfiles = nfuncs = nlams = 0
        for dp, dn, fns in sorted(os.walk(root)):
            for fn in sorted(fns):
                if not fn.endswith('.py'):
                    continue
                path = os.path.join(dp, fn)
                try:
                    with open(path, encoding='utf-8') as fh:
                        text = fh.read()
                    tree = ast.parse(text)
                except Exception:
                    continue
                nfiles += 1
                self.lex_correspondence(text, 'repo:' + os.path.relpath(path, common.REPO))
                lines = text.splitlines(True)
                for n in ast.walk(tree):
                    if isinstance(n, (ast.FunctionDef, ast.AsyncFunctionDef)):
                        first = min([d.lineno for d in n.decorator_list] + [n.lineno])
                        try:
                            block = ''.join(inspect.getblock(lines[first - 1:]))
                        except Exception:
                            continue
                        nfuncs += 1
                        self.run.case(('repo-def', sha(block)), block[:1] in ' \t')
                        try:
                            out = parser.dedent_block(block)
                            same = ast.dump(parser.parse(out)) == ast.dump(n)
                        except Exception as e:
                            out, same = None, False
                        self.hist['repo-def:' + ('same' if same else 'DIFFERS')] += 1
                        self.why_block(block, 'repo', real_out=out, outcome='same' if same else 'diff')
                        self.dedent_correspondence(block, 'repo:block')
                # lambdas of the file: is each distinguishable from the others on its line?
                tops, nodes = lambda_table(tree)
                if nodes and self.run.driver_ok:
                    tops_sx = sexp([[ln] + [[x._c15_id, x.lineno, x.end_lineno, sig_sexp(x)] for x in lams] for ln, lams in tops])
                    opt = lambda x: ['none'] if x is None else ['some', x.arg]
                    for x in nodes:
                        nlams += 1
                        a_ = x.args
                        spec_sx = sexp([names_of(a_.posonlyargs) + names_of(a_.args), opt(a_.vararg), opt(a_.kwarg), names_of(a_.kwonlyargs)])

                        def cbl(a, x=x):
                            r = parse_sexp(a)
                            self.why['repo-lambdas'][r[1]] += 1
                            self.why['repo-lambdas']['selection:' + (r[0] if isinstance(r[0], str) else 'ok-right' if r[0] == ['ok', str(x._c15_id)] else 'ok-WRONG')] += 1
                            if isinstance(r[0], list) and r[0] != ['ok', str(x._c15_id)]:
                                self.disagree('theorem-instance-lambda', {'repo lambda': ast.unparse(x), 'model': r[0]})
                        self.ask('c15.select %s %d %s %d' % (tops_sx, x.lineno, spec_sx, x._c15_id), cbl)
            if len(self.req) > 3000:
                self.flush()
        self.flush()
        self.hist['repo:files'] = nfiles
        self.hist['repo:functions'] = nfuncs
        self.hist['repo:lambdas'] = nlams

    # ---- one code string through unfold / dedent_block, real vs model
    def dedent_correspondence(self, code, origin, want_spec=True):
        run = self.run
        malt, parser, inspect_utils, errors = self.mods
        unf_real = parser._unfold_continuations(code)
        try:
            out = parser.dedent_block(code)
            real = ('ok', out)
        except errors.UnsupportedLanguageElementError:
            real = ('err', 'mixed')
        except (ValueError, IndexError) as e:
            real = ('err', 'untok')
        except Exception as e:
            real = ('exc', type(e).__name__)
        toks, status = G.tokens_of(unf_real)
        self.hist['dedent_input:' + status] += 1
        self.hist['dedent_real:' + real[0] + (':' + real[1] if real[0] != 'ok' else '')] += 1
        if not run.driver_ok:
            return
        cs = sexp(code)

        def cb_unfold(a, code=code):
            self.ncorr['unfold'] += 1
            if a != sexp(unf_real):
                self.disagree('unfold', {'code': code, 'implementation': unf_real, 'model': a, 'origin': origin})
        self.ask('c15.unfold ' + cs, cb_unfold)
        if status not in ('ok', 'tokenerror'):
            # the tokenizer itself raised (IndentationError…): dedent_block propagates it; nothing to model
            if real[0] != 'exc':
                self.disagree('dedent', {'code': code, 'implementation': real, 'model': 'tokenizer raised ' + status})
            return
        tsx = sexp([G.tok_sexp(t) for t in toks])

        def cb_dedent(a, code=code, real=real):
            self.ncorr['dedent'] += 1
            want = sexp(['ok', real[1]]) if real[0] == 'ok' else sexp(['err', real[1]]) if real[0] == 'err' else None
            if a != want:
                self.disagree('dedent', {'code': code, 'implementation': real, 'model': a[:400], 'origin': origin})
        self.ask('c15.dedent %s %s' % (cs, tsx), cb_dedent)
        if real[0] != 'ok' or status != 'ok' or not want_spec:
            return

        def cb_spec(a, code=code, out=real[1]):
            self.ncorr['spec'] += 1
            if a != 'True':
                self.disagree('spec', {'code': code, 'real_output': out, 'origin': origin})
        self.ask('c15.spec %s %s %s' % (sexp(unf_real), tsx, sexp(real[1])), cb_spec)
        atoks = G.atoks_of(unf_real, toks)
        if atoks is None:
            self.hist['wf:positions-do-not-line-up'] += 1
            return

        def cb_wf(a, code=code, out=real[1]):
            r = parse_sexp(a)
            self.ncorr['wf'] += 1
            if r[0] != 'True':
                self.hist['wf:render-differs'] += 1
                return
            if r[1] == 'unindented':
                self.hist['wf:in-domain-of-C15_dedent_unindented'] += 1
                if r[3] != out:
                    self.disagree('theorem-instance', {'code': code, 'real_output': out, 'theorem_predicts': r[3], 'origin': origin})
                return
            if r[1] != 'True':
                self.hist['wf:outside-theorem-domain'] += 1
                self.hist['wf:outside:first-offending-token=' + (r[4] if len(r) > 4 else '?')] += 1
                return
            self.hist['wf:in-domain-of-C15_dedent_text'] += 1
            if r[2] == 'True':
                self.hist['wf:indent-discipline-holds'] += 1
            if r[3] != out:
                self.disagree('theorem-instance', {'code': code, 'real_output': out, 'theorem_predicts': r[3], 'origin': origin})
        self.ask('c15.wf %s %s' % (sexp(unf_real), sexp(atoks)), cb_wf)

    # ---- class predicates of a function block (tokens of the ORIGINAL text)
    def classes_of_block(self, block, then):
        toks, status = G.tokens_of(block)
        atoks = G.atoks_of(block, toks) if status == 'ok' else None
        pyc = py_classes(atoks)
        if atoks is None or not self.run.driver_ok:
            then(pyc, None)
            return

        def cb(a, block=block):
            r = parse_sexp(a)
            self.ncorr['ucls'] += 1
            lean = []
            if r[2] == 'True':
                lean.append(CLS_INSIDE)
            if r[3] == 'True':
                lean.append(CLS_JOIN)
            if r[4] == 'True':
                lean.append(CLS_INDENT)
            if r[0] != 'True' or lean != pyc:
                self.disagree('class-predicates', {'block': block, 'python': pyc, 'lean': lean, 'render_ok': r[0]})
            real_unf = self.mods[1]._unfold_continuations(block)
            safe = r[1] == 'True'
            if r[0] == 'True' and safe:
                self.hist['unfold:hypothesis-holds'] += 1
                # theorem instance: unfolding = deleting the continuations from the gaps
                if r[5] != real_unf:
                    self.disagree('theorem-instance-unfold', {'block': block, 'real': real_unf, 'theorem_predicts': r[5]})
                # what CPython adds: same tokens afterwards (when also no join / indentation continuation)
                if not lean:
                    t2, st2 = G.tokens_of(real_unf)
                    sig = lambda ts: [(t.type, t.string) for t in ts if t.type not in (tokenize.NL,)]
                    self.ncorr['tokens-preserved'] += 1
                    if st2 != 'ok' or sig(t2) != sig(toks):
                        self.disagree('tokens-preserved', {'block': block})
            else:
                self.hist['unfold:hypothesis-fails'] += 1
            then(lean, r)
        self.ask('c15.ucls %s %s' % (sexp(block), sexp(atoks)), cb)

    # ---- definitions
    def def_module(self, text, infos, origin, only_line=None):
        run = self.run
        malt, parser, inspect_utils, errors = self.mods
        try:
            tree = ast.parse(text)
            mod = self.scratch.load(text, 'd')
        except Exception as e:
            self.gen_invalid += 1
            return []
        idx = def_index(tree)
        reg = list(mod.REG)
        results = []
        self.lex_correspondence(text, origin)
        by_line = {i.get('line'): i for i in infos}
        for k, f in enumerate(reg):
            if only_line is not None and f.__code__.co_firstlineno != only_line:
                continue
            info = by_line.get(f.__code__.co_firstlineno) or ({'feats': ['wrapped']} if f.__name__ != f.__code__.co_name else {})
            dc = DefCase(text, f, info, self.mods)
            wants = idx.get(dc.first, [])
            if len(wants) != 1 or dc.src is None:
                self.hist['def:no-unique-reference-node'] += 1
                continue
            want = ast.dump(wants[0])
            outcome = 'same' if (dc.kind == 'node' and dc.payload == want) else 'diff' if dc.kind == 'node' else dc.kind
            dc.outcome = outcome
            feats = info.get('feats', [])
            nontriv = bool(set(feats) - {'wrapped'}) or dc.src[:1] in ' \t'
            run.case(('def', sha(dc.src)), nontriv)
            self.hist['def:' + outcome] += 1
            for ft in feats:
                self.feat_hist[ft] += 1
            if self.ndefsamples < 2 and 'tq_string' in feats and 'indented' in feats and outcome == 'same' \
                    and len(dc.src) < 900:
                self.ndefsamples += 1
                run.samples.insert(0, {'kind': 'def', 'block': dc.src, 'recovered_source': dc.source, 'outcome': outcome})
            if outcome != 'same':
                explained = unfold_explains(text, dc.first, dc.src, outcome, dc.payload)

                def then(classes, _r, dc=dc, outcome=outcome, explained=explained):
                    cls = None
                    if explained and classes:
                        cls = classes[0]
                        if cls not in self.live_classes and self.live_classes_known:
                            cls = None
                    self.class_hist[cls or 'UNCLASSIFIED'] += 1
                    what = ('recovered tree differs from the compiled definition' if outcome == 'diff'
                            else 'source recovery raised %s' % outcome)
                    run.fail(what, dict(dc.case(), outcome=outcome, detail=dc.payload[:300] if outcome != 'diff' else '',
                                        classes=classes, explained_by_unfolding=explained), cls)
                self.classes_of_block(dc.src, then)
            else:
                self.classes_of_block(dc.src, lambda c, r: None)
            self.dedent_correspondence(dc.src, origin + ':block')
            self.why_block(dc.src, 'generated', real_out=dc.source if (dc.kind == 'node' and not info_future(text)) else None,
                           outcome=outcome)
            results.append(dc)
        return results

    # ---- functions of modules that are not plain files, decorated across modules (functools.wraps)
    def loader_group(self, dtext, utemplate, dkind, ukind, origin, only=None):
        """D = decorator module, U = user module (its text needs D's module name).  Every registered object is
        recovered and compared with the definition compiled for it: the node at co_firstlineno in the text of
        the module whose code it runs (a functools.wraps wrapper runs D's code but carries U's __module__)."""
        run = self.run
        malt, parser, inspect_utils, errors = self.mods
        try:
            D = self.scratch.load_as(dkind, dtext, 'D' + dkind)
            utext = utemplate.replace('@@D@@', D.__name__)
            U = self.scratch.load_as(ukind, utext, 'U' + ukind)
        except Exception as e:
            self.gen_invalid += 1
            self.run.notes.append('loader group did not import: %s %s' % (type(e).__name__, str(e)[:200]))
            return
        texts = {D.__file__: dtext, U.__file__: utext}
        idxs = {k: def_index(ast.parse(v)) for k, v in texts.items()}
        for k, f in enumerate(list(U.REG)):
            if only is not None and k != only:
                continue
            fname = f.__code__.co_filename
            first = f.__code__.co_firstlineno
            wants = idxs.get(fname, {}).get(first, [])
            if len(wants) != 1:
                self.hist['loaders:no-unique-reference-node'] += 1
                continue
            is_wrapper = f.__module__ != (D.__name__ if fname == D.__file__ else U.__name__)
            role = ('wraps-wrapper' if is_wrapper else 'plain') + ':code-in-' + (dkind if fname == D.__file__ else ukind) + \
                   ':__module__-in-' + (ukind if f.__module__ == U.__name__ else dkind)
            try:
                block = inspect_utils.getimmediatesource(f)
            except Exception as e:
                block = None
            kind, payload, source = recover(parser, errors, f, inspect_utils)
            outcome = 'same' if (kind == 'node' and payload == ast.dump(wants[0])) else 'diff' if kind == 'node' else kind
            run.case(('loaders', dkind, ukind, sha(dtext + utext), k), is_wrapper or dkind != 'disk' or ukind != 'disk')
            self.hist['loaders:%s:%s' % (role, outcome)] += 1
            if outcome != 'same':
                self.class_hist['UNCLASSIFIED'] += 1
                what = ('recovered tree differs from the definition compiled for the object (a definition of another '
                        'module?)' if outcome == 'diff' else 'source recovery raised %s' % outcome)
                run.fail(what, {'kind': 'loaders', 'dmod': dtext, 'umod_template': utemplate, 'dkind': dkind, 'ukind': ukind,
                                'index': k, 'object': '%s (code %s:%d, __module__ in %s module)' % (
                                    f.__name__, 'D' if fname == D.__file__ else 'U', first, 'U' if f.__module__ == U.__name__ else 'D'),
                                'outcome': outcome, 'recovered_source': (source or payload)[:400],
                                'expected': ast.unparse(wants[0])[:400]}, None)
            elif block is not None:
                self.dedent_correspondence(block, origin + ':block')

    # ---- lambdas
    def lambda_module(self, text, origin, only_tag=None):
        run = self.run
        malt, parser, inspect_utils, errors = self.mods
        try:
            tree = ast.parse(text)
            mod = self.scratch.load(text, 'l')
        except Exception as e:
            self.gen_invalid += 1
            return
        tops, nodes = lambda_table(tree)
        self.lex_correspondence(text, origin)
        # physical lines that begin inside a multi-line token (class predicate of C15-lambda-line-inside-string)
        mtoks, mstatus = G.tokens_of(text)
        nlines = text.count('\n') + 1
        py_str_lines = set()
        for tk in mtoks:
            for r in range(tk.start[0] + 1, tk.end[0] + 1):
                py_str_lines.add(r)
        str_lines = {'lean': None}
        if run.driver_ok and mstatus == 'ok':
            def cb_cls(a):
                cl = parse_sexp(a)
                lean = set(i + 1 for i, c in enumerate(cl) if c == 'str')
                self.ncorr['classes'] += 1
                str_lines['lean'] = lean
                if lean != set(r for r in py_str_lines if r <= nlines):
                    self.disagree('class-predicates', {'module': text[:2000], 'python_str_lines': sorted(py_str_lines), 'lean': sorted(lean)})
            self.ask('c15.classes %s %d' % (sexp([G.tok_sexp(tk) for tk in mtoks]), nlines), cb_cls)
        by_tag = {}
        for n in nodes:
            by_tag.setdefault(tag_of_node(n), []).append(n)
        tops_sx = sexp([[ln] + [[n._c15_id, n.lineno, n.end_lineno, sig_sexp(n)] for n in lams] for ln, lams in tops])
        by_pos = {(n.lineno, n.col_offset): n for n in nodes}
        seen = set()
        for fn in list(mod.REG):
            if not inspect_utils.islambda(fn) or fn.__code__ in seen:
                continue
            seen.add(fn.__code__)
            t = tag_of_fn(fn)
            if only_tag is not None and t != only_tag:
                continue
            tn = by_tag.get(t, [])
            true_node = tn[0] if len(tn) == 1 and t is not None else None
            pn = node_by_positions(fn, nodes)
            if true_node is None:
                true_node = pn
            elif pn is not None and pn is not true_node:
                self.hist['lambda:co_positions-vs-tag-disagree'] += 1
                continue
            else:
                self.hist['lambda:identified-by-co_positions' if pn is not None else 'lambda:identified-by-tag-only'] += 1
            if true_node is None:
                self.hist['lambda:unidentified'] += 1
                continue
            def_line = fn.__code__.co_firstlineno
            # real selection, observed through the call to _without_context
            picked = []
            orig_wc = parser._without_context

            def spy(node, lines, minl, maxl):
                picked.append((node.lineno, node.col_offset))
                return orig_wc(node, lines, minl, maxl)
            parser._without_context = spy
            try:
                try:
                    node, source = parser.parse_entity(fn, ())
                    if picked:
                        sel = by_pos.get(picked[-1])
                    else:   # fall back to structure
                        same = [n for n in nodes if ast.dump(n) == ast.dump(node) and n.col_offset == getattr(node, 'col_offset', None)]
                        sel = same[0] if len(same) == 1 else None
                    real = ('ok', sel._c15_id if sel is not None else -1)
                    real_dump = ast.dump(node)
                    # observation only (not part of the property's statement about the TREE): is the returned
                    # source text the text of the returned expression?  (_without_context slices str lines with
                    # the AST's utf-8 byte offsets and rstrips every line)
                    try:
                        back = ast.parse('(' + source + '\n)', mode='eval').body
                        text_ok = ast.dump(back) == real_dump
                    except SyntaxError:
                        text_ok = False
                    self.hist['lambda-source-text:' + ('is-the-expression' if text_ok else 'IS-NOT-the-expression')] += 1
                    if not text_ok and not self.run.cov.get('lambda_source_text_example'):
                        self.run.cov['lambda_source_text_example'] = {'line': text.split('\n')[def_line - 1][:200], 'returned_source': source[:200]}
                except errors.UnsupportedLanguageElementError as e:
                    m = str(e)
                    real = ('nomatch',) if 'no matching AST found' in m else ('ambiguous',) if 'multiple definitions' in m else ('unsupported-other',)
                    real_dump = None
                except Exception as e:
                    real = ('exc', type(e).__name__, str(e)[:200])
                    real_dump = None
            finally:
                parser._without_context = orig_wc
            spanning = [n for n in nodes if n.lineno <= def_line <= n.end_lineno]
            nontriv = len(spanning) > 1 or true_node.end_lineno > true_node.lineno or any(
                isinstance(x, ast.Lambda) for x in ast.walk(true_node.body))
            run.case(('lambda', sha(text), true_node._c15_id), nontriv)
            self.hist['lambda:' + real[0] + (':right' if real == ('ok', true_node._c15_id) else ':WRONG' if real[0] == 'ok' else '')] += 1
            self.hist['lambda:spanning=%s' % (len(spanning) if len(spanning) < 4 else '4+')] += 1
            case = {'kind': 'lambda', 'module': text, 'tag': t, 'def_line': def_line, 'true_id': true_node._c15_id,
                    'true_node': [true_node.lineno, true_node.col_offset], 'lambda': ast.unparse(true_node)}
            failures = []
            if real[0] == 'ok':
                if real[1] != true_node._c15_id or real_dump != ast.dump(true_node):
                    other = nodes[real[1]] if 0 <= real[1] < len(nodes) else None
                    failures.append(('a different lambda is returned: %s' % (ast.unparse(other) if other is not None else '?'),
                                     {'selected': ast.unparse(other) if other is not None else None}))
            elif real[0] not in ('nomatch', 'ambiguous'):
                failures.append(('lambda recovery raised %s' % (real[1:],), {}))
            # behaviour of the converted lambda
            try:
                want = sample_call(fn)
            except Exception as e:
                want = ('raises', type(e).__name__)
            try:
                conv = malt.to_graph(fn, experimental_optional_features=None)
                try:
                    got = sample_call(conv)
                except Exception as e:
                    got = ('raises', type(e).__name__)
                beh = 'same' if got == want else 'differs'
            except errors.UnsupportedLanguageElementError:
                beh = 'unsupported'
                got = None
            except Exception as e:
                beh = 'conversion-raised'
                got = ('raises', type(e).__name__, str(e)[:200])
            self.hist['lambda-behaviour:' + beh] += 1
            if beh in ('differs', 'conversion-raised'):
                failures.append(('converted lambda %s: original %r, converted %r' % (beh, want, got),
                                 {'want': repr(want), 'got': repr(got), 'beh': beh,
                                  'exc': got[1] if beh == 'conversion-raised' else None}))
            if len(run.samples) < 4 and len(spanning) > 1 and real[0] == 'ok' and not failures:
                run.sample({'kind': 'lambda', 'line': text.split('\n')[def_line - 1], 'recovered': ast.unparse(true_node), 'behaviour': beh})
            spec = inspect.getfullargspec(fn)
            # the CPython facts C15_lambda takes as hypotheses, checked on this case
            a_ = true_node.args
            facts = {
                'creating node starts at co_firstlineno': true_node.lineno == def_line,
                'getfullargspec = posonly ++ args, vararg, kwarg, kwonly of the creating node': (
                    list(spec.args) == names_of(a_.posonlyargs) + names_of(a_.args)
                    and spec.varargs == (a_.vararg.arg if a_.vararg else None)
                    and spec.varkw == (a_.kwarg.arg if a_.kwarg else None)
                    and list(spec.kwonlyargs) == names_of(a_.kwonlyargs)),
                'top-level statement line numbers are non-decreasing': all(
                    tops[i][0] <= tops[i + 1][0] for i in range(len(tops) - 1)),
            }
            for fk, fv in facts.items():
                if not fv:
                    self.disagree('cpython-facts', {'fact': fk, 'lambda': case['lambda'], 'def_line': def_line})
            self.ncorr['cpython-facts'] += 1
            in_search = any(true_node in lams for ln, lams in tops if ln <= def_line)
            self.hist['lambda:creating-node-%s-the-searched-statements' % ('in' if in_search else 'NOT-in')] += 1
            if in_search and all(facts.values()) and real[0] == 'ok' and real[1] != true_node._c15_id:
                self.disagree('theorem-instance-lambda', {'lambda': case['lambda'], 'real': list(real)})
            opt = lambda x: ['none'] if x is None else ['some', x]
            spec_sx = sexp([list(spec.args), opt(spec.varargs), opt(spec.varkw), list(spec.kwonlyargs)])

            def finish(failures=failures, case=case, real=real):
                for what, extra in failures:
                    cls = None          # a wrong lambda has no listed excuse (C15_lambda holds without hypothesis)
                    if extra.get('beh') == 'conversion-raised':
                        sl = str_lines['lean'] if str_lines['lean'] is not None else py_str_lines
                        cls = CLS_STRLINE if (case['def_line'] in sl and extra.get('exc') == 'TokenError'
                                              and real == ('ok', case['true_id'])) else None
                    if cls and self.live_classes_known and cls not in self.live_classes:
                        cls = None
                    self.class_hist[cls or 'UNCLASSIFIED'] += 1
                    run.fail(what, dict(case, real_selection=list(real), **extra), cls)
            if run.driver_ok:
                def cb(a, real=real, case=case, finish=finish):
                    r = parse_sexp(a)
                    self.ncorr['select'] += 1
                    want = ['ok', str(real[1])] if real[0] == 'ok' else real[0]
                    if r[0] != want:
                        self.disagree('select', {'case': {k: v for k, v in case.items() if k != 'module'}, 'implementation': list(real), 'model': r[0]})
                    self.why['generated-lambdas'][r[1]] += 1
                    # C15_lambda_partition on this case: distinguishable -> the right node, otherwise the explicit error
                    if r[1].startswith('distinguishable') and real != ('ok', case['true_id']):
                        self.disagree('theorem-instance-lambda', {'lambda': case['lambda'], 'class': r[1], 'real': list(real)})
                    if r[1].startswith('same-visible-signature') and real != ('ambiguous',):
                        self.disagree('theorem-instance-lambda', {'lambda': case['lambda'], 'class': r[1], 'real': list(real)})
                    finish()
                self.ask('c15.select %s %d %s %d' % (tops_sx, def_line, spec_sx, true_node._c15_id), cb)
            else:
                finish()


# --------------------------------------------------------------------------- synthetic dedent inputs

def variants(rng, block):
    """code strings derived from a real function block: inputs on which dedent_block takes its other paths"""
    out = []
    lines = block.split('\n')
    p = block[:len(block) - len(block.lstrip(' \t'))]
    out.append(('prefix_comment', '# lead\n\n' + block))
    out.append(('prefix_docstring', '"""d"""\n' + block))
    out.append(('extra_indent', '\n'.join(('  ' + l if l.strip() else l) for l in lines)))
    if p and set(p) == {' '}:
        out.append(('tabs_for_block', '\n'.join(('\t' + l[len(p):] if l.startswith(p) else l) for l in lines)))
        out.append(('mixed', '\n'.join(('\t' + l if l.startswith(p + ' ') else l) for l in lines)))
        out.append(('unindented', '\n'.join((l[len(p):] if l.startswith(p) else l) for l in lines)))
    if len(block) > 20:
        out.append(('truncated', block[:rng.randrange(10, len(block))]))
    out.append(('no_trailing_newline', block.rstrip('\n')))
    out.append(('indented_by_tab', '\n'.join(('\t' + l if l.strip() else l) for l in lines)))
    return out


# --------------------------------------------------------------------------- corpus / known findings

def load_json_dir(d):
    out = []
    if os.path.isdir(d):
        for fn in sorted(os.listdir(d)):
            if fn.endswith('.json'):
                with open(os.path.join(d, fn)) as f:
                    out.append((fn, json.load(f)))
    return out


def run_case(chk, case, origin, focus=False):
    """Re-run one recorded case (module text) through the same machinery; `focus` restricts it to the
    recorded function / lambda."""
    if case.get('kind') == 'loaders':
        chk.loader_group(case['dmod'], case['umod_template'], case['dkind'], case['ukind'], origin,
                         only=case.get('index') if focus else None)
    elif case.get('kind') == 'lambda':
        chk.lambda_module(case['module'], origin, only_tag=case.get('tag') if focus else None)
    else:
        infos = case.get('infos') or []
        chk.def_module(case['module'], infos, origin, only_line=case.get('first_line') if focus else None)


def check(run, only_case=None):
    warnings.simplefilter('ignore')
    run.rule = ('seeded generator of source layouts written to temporary module files and imported. A definition case is one '
                'function object (distinct by the text of its source block); non-trivial = the block is indented or uses a '
                'layout feature (continuation, multi-line/raw/byte/f-string, comment, decorator, multi-line signature, nesting). '
                'A loaders case is one function object of a decorator/user module pair imported from disk, a zip archive or a '
                'source-only loader (non-trivial unless both are plain files and the object is no functools.wraps wrapper). '
                'A lambda case is one lambda code object (distinct by module text + node); non-trivial = another lambda spans '
                'its first line, or it spans several lines, or it contains a lambda. Synthetic dedent inputs (re-indented, '
                'mixed tabs/spaces, truncated, prefixed) are derived from the same blocks for the correspondence only.')
    run.assumptions += [
        'CPython tokenizer (tokenize.generate_tokens) is an input oracle of the model: its token stream for the unfolded text is passed to the model, not re-derived',
        'same text modulo removal of the block prefix on logical-line starts (and whitespace inside brackets) parses to the same tree: a property of CPython\'s parser, sampled by the ast.dump oracle, not proved',
        'co_firstlineno / co_positions / inspect.getfullargspec describe the source node that created a function object (CPython facts used as hypotheses of C15_lambda)',
        'inspect.findsource / inspect.getblock (used by getimmediatesource) are CPython\'s; they are exercised by the oracle, not modelled',
    ]
    run.build_and_audit('MaltModel.Props.C15', model_files=MODEL_FILES)
    chk = Checker(run)
    malt, parser, inspect_utils, errors = chk.mods
    quick = run.tier == 'quick'

    # -------- known findings: is each listed witness still failing? (an attribution needs a live witness)
    listed = [k for k in common.load_known_findings() if k.get('property') == 'C15' and k.get('status', 'open') == 'open']
    chk.live_classes_known = False
    chk.live_classes = set(k['class'] for k in listed)
    before = len(run.failing)
    for k in listed:
        n0 = len(run.failing)
        run_case(chk, k['witness'], 'known:' + k['id'])
        chk.flush()
        hit = [f for f in run.failing[n0:] if f['cls'] == k['class']]
        run.oblige('known-finding-witness:' + k['id'], 'corpus', True, 'still failing' if hit else 'NO LONGER FAILING (finding is stale)')
        if not hit:
            chk.live_classes.discard(k['class'])
            run.notes.append('known finding %s: witness no longer fails; its class no longer excuses failures' % k['id'])
    chk.live_classes_known = True
    # -------- corpus (past failures / witnesses), replayed first
    for fn, case in load_json_dir(os.path.join(common.VERIF, 'corpus', 'C15')):
        n0 = len(run.failing)
        run_case(chk, case, 'corpus:' + fn, focus=bool(case.get('focus')))
        chk.flush()
        bad = run.failing[n0:]
        if case.get('expect') == 'pass':
            run.oblige('corpus:' + fn, 'corpus', not bad, bad[0]['what'] if bad else '')
        elif case.get('expect') == 'known':
            # a past failure attributed to a listed finding: it may fail, but only inside a listed class
            stray = [b for b in bad if b['cls'] is None]
            run.oblige('corpus:' + fn, 'corpus', not stray, stray[0]['what'] if stray else '')
    if only_case is not None:
        n0 = len(run.failing)
        run_case(chk, only_case, 'replay', focus=True)
        chk.flush()
        return run.failing[n0:]

    # -------- generated definitions
    nmods = 36 if quick else 520
    blocks = []
    for m in range(nmods):
        rng = random.Random(run.rng.getrandbits(64))
        exotic = m % 6 == 5
        g = G.DefGen(rng, tabs=(m % 4 == 3), exotic=exotic, defects=(m % 3 != 0), future=(m % 5 == 2))
        if m % 5 == 2:
            chk.hist['modules-with-__future__-imports'] += 1
        text = g.module(nfuncs=rng.randrange(6, 12), no_final_newline=(m % 5 == 4))
        res = chk.def_module(text, g.funcs, 'gen-def:%d' % m)
        blocks += [dc.src for dc in res]
        if len(chk.req) > 4000:
            chk.flush()
    chk.flush()
    # -------- synthetic inputs for dedent_block (correspondence on its other paths: early return, mixed
    # indentation error, TokenError, position-mode prefix)
    rng = random.Random(run.rng.getrandbits(64))
    nsyn = 200 if quick else 2500
    for block in rng.sample(blocks, min(nsyn, len(blocks))):
        for name, code in variants(rng, block):
            chk.hist['synthetic:' + name] += 1
            run.evaluations += 1
            chk.dedent_correspondence(code, 'synthetic:' + name, want_spec=False)
        if len(chk.req) > 4000:
            chk.flush()
    chk.flush()
    # -------- the library's own sources: lexer correspondence, hypotheses, dedent_block correspondence
    chk.repo_sources()
    # -------- modules imported from zip archives / through source-only loaders, decorated across modules
    ngroups = 6 if quick else 60
    kinds = ['disk', 'zip', 'loader']
    for m in range(ngroups):
        rng = random.Random(run.rng.getrandbits(64))
        g = G.LoaderGen(rng)
        dtext, utemplate = g.dmod(), g.umod('@@D@@')
        for dkind in kinds:
            for ukind in kinds:
                chk.loader_group(dtext, utemplate, dkind, ukind, 'gen-loaders:%d:%s:%s' % (m, dkind, ukind))
        chk.flush()
    # -------- generated lambdas
    nl = 45 if quick else 520
    for m in range(nl):
        rng = random.Random(run.rng.getrandbits(64))
        g = G.LamGen(rng, posonly=(m % 3 != 0))
        text = g.module(nstmts=rng.randrange(5, 11))
        chk.lambda_module(text, 'gen-lambda:%d' % m)
        if len(chk.req) > 1500:
            chk.flush()
    chk.flush()

    # -------- whitespace table of the model vs re's \s
    if run.driver_ok:
        import re
        model_ws = [int(x) for x in parse_sexp(run.drive(['c15.spaces'])[0])]
        real_ws = [i for i in range(0x110000) if re.match(r'\s', chr(i))]
        run.oblige('correspondence:whitespace-class', 'correspondence', model_ws == real_ws, 'model %s vs re %s' % (model_ws[:40], real_ws[:40]))

    # -------- obligations
    if run.driver_ok:
        for op, kind in (('unfold', 'correspondence'), ('dedent', 'correspondence'), ('select', 'correspondence'),
                         ('class-predicates', 'correspondence'), ('spec', 'checker'), ('theorem-instance', 'checker'),
                         ('theorem-instance-unfold', 'checker'), ('tokens-preserved', 'checker'),
                         ('cpython-facts', 'assumption'), ('theorem-instance-lambda', 'checker'),
                         ('lex', 'correspondence'), ('theorem-instance-lex', 'checker'), ('partition', 'checker'),
                         ('relex', 'checker')):
            d = chk.dis.get(op, [])
            shown = [x for x in d if x is not None]
            name = {'spec': 'checker:dedent-spec-on-real-output', 'theorem-instance': 'checker:C15_dedent_text-predicts-real-output',
                    'theorem-instance-unfold': 'checker:C15_unfold_partial-predicts-real-output',
                    'tokens-preserved': 'checker:tokens-preserved-by-unfolding-under-hypotheses',
                    'cpython-facts': 'assumption:cpython-facts-used-by-C15_lambda-hold-on-every-case',
                    'theorem-instance-lambda': 'checker:C15_lambda-hypotheses-imply-the-right-lambda',
                    'lex': 'correspondence:c15.lex-vs-tokenize-on-every-generated-and-repo-source',
                    'theorem-instance-lex': 'checker:C15_recover_partial-predicts-real-output',
                    'partition': 'checker:inside-the-fragment-the-recovery-is-right',
                    'relex': 'checker:on-the-fragment-the-lean-lexer-finds-the-same-tokens-after-unfolding',
                    }.get(op, 'correspondence:c15.' + op)
            run.oblige(name, kind, not d, ('%d disagreements; first: ' % len(d)) + json.dumps(shown[:2])[:1500] if d else '')
    else:
        run.oblige('correspondence:c15', 'correspondence', False, 'driver unavailable')
    run.oblige('generator:modules-valid', 'generator', chk.gen_invalid == 0, '%d generated modules did not import' % chk.gen_invalid)

    run.cov['outcomes'] = dict(sorted(chk.hist.items()))
    run.cov['layout_features'] = dict(chk.feat_hist.most_common())
    run.cov['failure_classes'] = dict(chk.class_hist)
    run.cov['hypothesis_coverage'] = {pop: dict(sorted(c.items())) for pop, c in sorted(chk.why.items())}
    run.cov['correspondence_evaluations'] = dict(chk.ncorr)
    run.evaluations += sum(chk.ncorr.values())
    run.cov['modules'] = {'definitions': nmods, 'lambdas': nl, 'decorator/user module pairs': ngroups * 9}
    run.cov['search'] = ('direct oracle (ast.dump vs compiled node; converted lambda vs original) on %d generated definition modules '
                         'and %d lambda modules, + corpus + known-finding witnesses' % (nmods, nl))


def replay(run, path):
    with open(path) as f:
        rep = json.load(f)
    case = rep.get('case', rep)
    if 'module' not in case and case.get('kind') != 'loaders':
        # an obligation-only replay file (no failing input was found): re-run the whole check
        print(json.dumps(rep, indent=1)[:3000])
        check(run)
        return run.finish()
    print(json.dumps({k: v for k, v in case.items() if k not in ('module', 'dmod', 'umod_template')}, indent=1)[:3000])
    bad = check(run, only_case=case)
    for b in bad:
        print('REPRODUCED:', b['what'], '| class:', b['cls'])
    if not bad:
        print('case no longer fails')
    run.failing = [b for b in bad]
    return run.finish()
