"""Program generators shared by the syntactic/semantic properties (DESIGN.md §2.5).

API (stable):
  repo_functions()                      -> iterator of RepoFn(path, qualname, node: ast.FunctionDef, source_module: str)
        every FunctionDef (incl. methods and nested defs) in /repo/malt and /repo/tests — a real-world corpus
        for *syntactic* correspondences (CFG, activity, dataflow annotations).  Not executable in isolation.
  skeleton_programs(max_stmts, max_depth, cap=None, rng=None) -> iterator of Program   (bounded-exhaustive)
  random_programs(rng, n, size=12, profile='c01')             -> iterator of Program   (typed random)
  Program: .source  module source text defining the function `f` (and helpers it needs; self-contained,
                    importable by exec; side effects only through the tracer `tr(tag, *vals)` and the
                    context manager `cm(tag)` defined by PRELUDE, which log into the list `LOG`)
           .fname   'f'
           .inputs  list of argument tuples (ints / small lists) on which `f` terminates
           .features  set of construct names used ('if','while','for','break','continue','return','try',
                      'finally','raise','with','nested_def','lambda','nonlocal','global','augassign', ...)
           .kind    'skeleton' | 'random'
           .key     short stable identifier (replays: regenerate from .source alone)
"""
import ast, glob, os, collections
import common

RepoFn = collections.namedtuple('RepoFn', 'path qualname node source_module')


def repo_functions(include_tests=True):
    pats = [os.path.join(common.REPO, 'malt', '**', '*.py')]
    if include_tests:
        pats.append(os.path.join(common.REPO, 'tests', '**', '*.py'))
    for pat in pats:
        for path in sorted(glob.glob(pat, recursive=True)):
            with open(path) as f:
                src = f.read()
            try:
                tree = ast.parse(src)
            except SyntaxError:
                continue
            stack = [(tree, '')]
            while stack:
                node, prefix = stack.pop()
                for child in ast.iter_child_nodes(node):
                    if isinstance(child, (ast.FunctionDef, ast.AsyncFunctionDef, ast.ClassDef)):
                        q = prefix + child.name
                        if isinstance(child, ast.FunctionDef):
                            yield RepoFn(os.path.relpath(path, common.REPO), q, child, src)
                        stack.append((child, q + '.'))
                    else:
                        stack.append((child, prefix))


# =================================================================================================
# Executable programs
# =================================================================================================
import hashlib, importlib.util, itertools, random, sys, tempfile, shutil

PRELUDE = '''\
LOG = []
DEC = []
def tr(tag, *vals):
    """external tracer: logs the call, returns its first value (or the tag)"""
    LOG.append(('tr', tag) + tuple(_freeze(v) for v in vals))
    return vals[0] if vals else tag
def _freeze(v):
    if isinstance(v, list):
        return ('list',) + tuple(_freeze(x) for x in v)
    if isinstance(v, tuple):
        return tuple(_freeze(x) for x in v)
    if isinstance(v, dict):
        return ('dict',) + tuple(sorted((k, _freeze(x)) for k, x in v.items()))
    if isinstance(v, (int, float, str, bool, type(None))):
        return v
    return type(v).__name__
def d():
    """external decision: pops the next decision (False when exhausted), logs it"""
    v = DEC.pop(0) if DEC else 0
    LOG.append(('d', v))
    return bool(v)
class _It(object):
    """one-shot iterator whose every fetch is an externally visible event"""
    def __init__(self, k):
        self.k = k
        self.i = 0
    def __iter__(self):
        return self
    def __next__(self):
        LOG.append(('next', self.i, self.k))
        if self.i >= self.k:
            raise StopIteration
        self.i += 1
        return self.i - 1
def n():
    """external trip count: pops the next decision; returns a logging one-shot iterator over range(v % 3)"""
    v = DEC.pop(0) if DEC else 0
    LOG.append(('n', v))
    return _It(int(v) % 3)
class cm(object):
    def __init__(self, tag):
        self.tag = tag
    def __enter__(self):
        LOG.append(('enter', self.tag))
        return self.tag
    def __exit__(self, *exc):
        LOG.append(('exit', self.tag, ('NameError' if issubclass(exc[0], NameError) else exc[0].__name__) if exc[0] else None))
        return False
class E1(Exception):
    pass
class E2(Exception):
    pass
G = 0
'''


class Program(object):
    def __init__(self, source, inputs, features, kind, decisions=None, meta=None):
        self.source = source
        self.fname = 'f'
        self.inputs = inputs
        self.decisions = decisions or [[]]     # decision vectors for d()/n()
        self.features = set(features)
        self.kind = kind
        self.meta = meta or {}
        self.key = kind[0] + hashlib.sha1(source.encode()).hexdigest()[:10]

    def to_json(self):
        return {'source': self.source, 'inputs': [list(i) for i in self.inputs], 'decisions': self.decisions,
                'features': sorted(self.features), 'kind': self.kind, 'key': self.key}

    @staticmethod
    def from_json(j):
        return Program(j['source'], [tuple(i) for i in j['inputs']], j.get('features', []), j.get('kind', 'replay'),
                       j.get('decisions'))

    def function_source(self):
        """source of `f` alone (without the prelude)"""
        return self.source[len(PRELUDE):]


class Workspace(object):
    """Temporary package directory: programs are written to real files so that inspect.getsource works."""

    def __init__(self):
        self.dir = tempfile.mkdtemp(prefix='maltverif_')
        self.n = 0

    def load(self, prog):
        self.n += 1
        name = 'mvp_%s_%d' % (prog.key, self.n)
        path = os.path.join(self.dir, name + '.py')
        with open(path, 'w') as f:
            f.write(prog.source)
        spec = importlib.util.spec_from_file_location(name, path)
        mod = importlib.util.module_from_spec(spec)
        sys.modules[name] = mod
        spec.loader.exec_module(mod)
        return mod

    def unload(self, mod):
        sys.modules.pop(mod.__name__, None)

    def close(self):
        shutil.rmtree(self.dir, ignore_errors=True)

    def __enter__(self):
        return self

    def __exit__(self, *a):
        self.close()


def run_program(mod, fn, args, decisions=()):
    """Run fn(*args) in module `mod` with a fresh log/decision list; returns (outcome, log, G).
    outcome = ('ret', frozen value) | ('exc', exception type name)."""
    mod.LOG[:] = []
    mod.DEC[:] = list(decisions)
    g0 = getattr(mod, 'G', None)
    mod.G = 0
    try:
        r = fn(*[list(a) if isinstance(a, list) else a for a in args])
        out = ('ret', mod._freeze(r))
    except RecursionError:
        raise
    except Exception as e:  # noqa
        out = ('exc', 'NameError' if isinstance(e, NameError) else type(e).__name__)
    log = list(mod.LOG)
    g = mod.G
    mod.G = g0
    return out, log, g


# -------------------------------------------------------------------------------------------------
# bounded-exhaustive control-flow skeletons
# -------------------------------------------------------------------------------------------------
_memo = {}


def _stmts(n, depth, inloop, infin, rich):
    """All statement skeletons of exactly n statement units. A skeleton is a nested tuple."""
    key = ('s', n, depth, inloop, infin, rich)
    if key in _memo:
        return _memo[key]
    out = []
    if n == 1:
        out.append(('s',))
    if n >= 2 and depth > 0:
        for n1 in range(1, n):
            n2 = n - 1 - n1
            for b in _blocks(n1, depth - 1, inloop, infin, rich):
                if n2 == 0:
                    out.append(('if', b, ()))
                else:
                    for e in _blocks(n2, depth - 1, inloop, infin, rich):
                        out.append(('if', b, e))
        for b in _blocks(n - 1, depth - 1, True, infin, rich):
            out.append(('while', b))
            out.append(('for', b))
        for b in _blocks(n - 1, depth - 1, inloop, infin, rich):
            out.append(('with', b))
        for b in _blocks(n - 1, depth - 1, False, False, rich):
            out.append(('def', b))
        # try: body + (handler | finally | both)
        for n1 in range(1, n - 1):
            rest = n - 1 - n1
            for b in _blocks(n1, depth - 1, inloop, infin, rich):
                for h in _blocks(rest, depth - 1, inloop, infin, rich):
                    out.append(('try', b, h, None))
                for fb in _blocks(rest, depth - 1, False, True, rich):
                    out.append(('try', b, None, fb))
                if rich:
                    for n2 in range(1, rest):
                        for h in _blocks(n2, depth - 1, inloop, infin, rich):
                            for fb in _blocks(rest - n2, depth - 1, False, True, rich):
                                out.append(('try', b, h, fb))
    _memo[key] = out
    return out


def _jumps(inloop, infin):
    js = [('raise1',), ('raise2',)]
    if not infin:
        js.append(('ret',))
        if inloop:
            js += [('brk',), ('cont',)]
    elif inloop:
        js += [('brk',), ('cont',)]
    return js


def _blocks(n, depth, inloop, infin, rich):
    """All blocks (tuples of statements) with exactly n units; a jump may only be the last statement."""
    key = ('b', n, depth, inloop, infin, rich)
    if key in _memo:
        return _memo[key]
    out = []
    if n == 0:
        _memo[key] = [()]
        return _memo[key]
    # last statement is a jump (1 unit) or a normal statement
    for k in range(1, n + 1):       # size of the first statement
        for first in _stmts(k, depth, inloop, infin, rich):
            if k == n:
                out.append((first,))
            else:
                for rest in _blocks(n - k, depth, inloop, infin, rich):
                    out.append((first,) + rest)
    for j in _jumps(inloop, infin):
        if n == 1:
            out.append((j,))
    # (jump as last statement after other statements is covered by the recursion: rest may be a 1-unit jump block)
    _memo[key] = out
    return out


class _Render(object):
    def __init__(self, rng, init=True):
        self.rng = rng
        self.init = init
        self.k = 0
        self.lines = []
        self.features = set()
        self.nfn = 0

    def slot(self):
        self.k += 1
        return self.k

    def simple(self, ind):
        k = self.slot()
        v, w = self.rng.choice(['x', 'y', 'z']), self.rng.choice(['x', 'y', 'z'])
        form = self.rng.randrange(5)
        if form == 0:
            s = '%s = tr(%d)' % (v, k)
        elif form == 1:
            s = '%s = tr(%d, %s)' % (v, k, w)
        elif form == 2:
            s = 'tr(%d, %s)' % (k, v)
        elif form == 3:
            s = '%s += tr(%d)' % (v, k); self.features.add('augassign')
        else:
            s = '%s = %s + tr(%d)' % (v, w, k)
        self.lines.append(ind + s)

    def block(self, b, ind):
        if not b:
            self.lines.append(ind + 'pass')
            return
        for s in b:
            self.stmt(s, ind)

    def stmt(self, s, ind):
        t = s[0]
        self.features.add(t)
        L = self.lines
        if t == 's':
            self.simple(ind)
        elif t == 'ret':
            L.append(ind + 'return tr(%d, %s)' % (self.slot(), self.rng.choice(['x', 'y', 'z'])))
        elif t == 'raise1':
            L.append(ind + 'raise E1(tr(%d))' % self.slot())
        elif t == 'raise2':
            L.append(ind + 'raise E2(tr(%d))' % self.slot())
        elif t == 'brk':
            L.append(ind + 'break')
        elif t == 'cont':
            L.append(ind + 'continue')
        elif t == 'if':
            L.append(ind + 'if d():')
            self.block(s[1], ind + '    ')
            if s[2]:
                L.append(ind + 'else:')
                self.block(s[2], ind + '    ')
        elif t == 'while':
            L.append(ind + 'while d():')
            self.block(s[1], ind + '    ')
        elif t == 'for':
            # mostly a loop-private target (never bound elsewhere, never read after the loop): re-using a variable as
            # for-target is the shape of a known pinned-tree defect and is kept to a minority stream
            if self.rng.random() < 0.8:
                self.nloop = getattr(self, 'nloop', 0) + 1
                tv = 'k%d' % self.nloop
            else:
                tv = self.rng.choice(['i', 'x', 'j'])
            L.append(ind + 'for %s in n():' % tv)
            if tv.startswith('k') and self.rng.random() < 0.5:
                L.append(ind + '    tr(%d, %s)' % (self.slot(), tv))
            self.block(s[1], ind + '    ')
        elif t == 'with':
            k = self.slot()
            if self.rng.random() < 0.4:
                L.append(ind + 'with cm(%d) as %s:' % (k, self.rng.choice(['x', 'y', 'w'])))
            else:
                L.append(ind + 'with cm(%d):' % k)
            self.block(s[1], ind + '    ')
        elif t == 'def':
            self.nfn += 1
            g = 'g%d' % self.nfn
            L.append(ind + 'def %s():' % g)
            mode = self.rng.choice([0, 1, 2, 2, 2, 2, 2, 2]) if self.init else self.rng.choice([0, 2, 2, 2])
            if mode == 0:
                L.append(ind + '    nonlocal x'); self.features.add('nonlocal')
            elif mode == 1:
                L.append(ind + '    nonlocal x, y'); self.features.add('nonlocal')
            self.block(s[1], ind + '    ')
            L.append(ind + '%s = %s()' % (self.rng.choice(['y', 'z', 'w']), g))
        elif t == 'try':
            L.append(ind + 'try:')
            self.block(s[1], ind + '    ')
            if s[2] is not None:
                L.append(ind + ('except E1:' if self.rng.random() < 0.7 else 'except E2:'))
                self.block(s[2], ind + '    ')
            if s[3] is not None:
                self.features.add('finally')
                L.append(ind + 'finally:')
                self.block(s[3], ind + '    ')
        else:
            raise ValueError(t)


def _ends_in_jump(b):
    return bool(b) and b[-1][0] in ('ret', 'raise1', 'raise2', 'brk', 'cont')


def render_skeleton(skel, rng, init=True):
    r = _Render(rng, init)
    r.lines.append('def f(a, b, c):')
    if init:
        r.lines.append('    x = a')
        r.lines.append('    y = b')
        r.lines.append('    z = c')
        r.lines.append('    w = 0')
        r.lines.append('    i = 0')
        r.lines.append('    j = 0')
    else:
        # deliberately possibly-unbound: only x is initialised
        r.lines.append('    x = a')
    r.block(skel, '    ')
    vs = r.rng.sample(['x', 'y', 'z', 'w', 'i'], r.rng.randrange(1, 4))
    r.lines.append('    return tr(0, %s)' % ', '.join(vs))
    return '\n'.join(r.lines) + '\n', r.features


def skeleton_space(max_stmts, max_depth, rich=False):
    """List of all skeleton blocks with 1..max_stmts units."""
    out = []
    for n in range(1, max_stmts + 1):
        out.extend(_blocks(n, max_depth, False, False, rich))
    return out


def decision_vectors(rng, count, length=8):
    vs = [[0] * length, [1] * length, [1, 0] * (length // 2), [2, 1, 1, 0, 1, 2, 0, 1][:length]]
    while len(vs) < count:
        vs.append([rng.randrange(3) for _ in range(length)])
    return vs[:count]


def skeleton_programs(max_stmts=4, max_depth=3, cap=None, rng=None, rich=False, unbound_fraction=0.15, info=None):
    """Bounded-exhaustive control-flow skeletons (every nesting of if/while/for/with/try-except-finally/
    nested def with break/continue/return/raise where legal), walked in a fixed canonical order.  When the
    space is larger than `cap` it is stride-sampled with a seed-derived offset.  `info` (dict) receives the
    size of the space, the cap and whether the walk was exhaustive."""
    rng = rng or random.Random(0)
    space = skeleton_space(max_stmts, max_depth, rich)
    n = len(space)
    if cap is None or n <= cap:
        idxs = range(n)
        exhaustive = True
    else:
        stride = n // cap
        off = rng.randrange(stride)
        idxs = range(off, n, stride)
        exhaustive = False
    if info is not None:
        info.update({'space': n, 'cap': cap, 'exhaustive': exhaustive, 'max_stmts': max_stmts, 'max_depth': max_depth})
    for ix in idxs:
        sk = space[ix]
        prng = random.Random((rng.getrandbits(32) << 20) ^ ix)
        init = prng.random() >= unbound_fraction
        src, feats = render_skeleton(sk, prng, init=init)
        if not init:
            feats.add('maybe_unbound')
        yield Program(PRELUDE + src, [(1, 2, 3), (0, -1, 5)], feats, 'skeleton',
                      decisions=decision_vectors(prng, 6), meta={'index': ix, 'skeleton': repr(sk)})


# -------------------------------------------------------------------------------------------------
# typed random programs of the C01 class
# -------------------------------------------------------------------------------------------------
RANDOM_PRELUDE = PRELUDE + '''\
import functools
def h(v):
    tr('h', v)
    if v > 3:
        return v - 1
    return v + 2
def h2(u, v=1):
    r = 0
    for q in range(v % 3):
        r += u
    return tr('h2', r)
class Obj(object):
    def __init__(self, v):
        self.v = v
    def m(self, k):
        tr('m', self.v, k)
        self.v += k
        return self.v
class Obj0(Obj):
    """same behaviour, but a falsy receiver"""
    def __bool__(self):
        return False
hp = functools.partial(h2, v=2)
class PB(object):
    def __init__(self, v):
        self.v = v
    def mm(self, k):
        tr('PB.mm', self.v, k)
        return self.v + k
class PC(PB):
    """zero-argument super() inside if / for / while bodies of a method (converted when reached recursively)"""
    def mm(self, k):
        r = 0
        if k > 0:
            r = super().mm(k) + 1
        for q in range(k % 2):
            r += super().mm(q)
        while r > 50:
            r = super().mm(-1)
        return r
class EqL(object):
    """equality with an observable effect and a non-bool result"""
    def __init__(self, t):
        self.t = t
    def __eq__(self, other):
        tr('eq', self.t)
        return 0
    def __ne__(self, other):
        tr('ne', self.t)
        return 'ne'
    __hash__ = None
NANV = float('nan')
EQ1 = EqL(1)
'''


class _Gen(object):
    """Generates one function `f(a, b, c, l)`: a, b, c ints, l a list of ints (mutable argument)."""

    def __init__(self, rng, size, profile):
        self.rng = rng
        self.budget = size
        self.profile = profile
        self.k = 0
        self.nw = 0
        self.nfn = 0
        self.features = set()
        self.ivars = ['x', 'y', 'z', 'w']
        self.lines = []
        self.uses_obj = False
        self.loopdepth = 0

    def slot(self):
        self.k += 1
        return self.k

    # ---- expressions
    def iexpr(self, depth=2):
        r = self.rng
        c = r.random()
        if depth <= 0 or c < 0.3:
            return r.choice(self.ivars + ['a', 'b', 'c', str(r.randrange(-2, 6))])
        if c < 0.5:
            if r.random() < 0.2:
                return '%s * %d' % (self.iexpr(depth - 1), r.randrange(-1, 4))
            return '%s %s %s' % (self.iexpr(depth - 1), r.choice(['+', '-']), self.iexpr(depth - 1))
        if c < 0.62:
            return 'tr(%d, %s)' % (self.slot(), self.iexpr(depth - 1))
        if c < 0.70:
            self.features.add('ifexp')
            return '(%s if %s else %s)' % (self.iexpr(depth - 1), self.bexpr(depth - 1), self.iexpr(depth - 1))
        if c < 0.78:
            self.features.add('builtin')
            return r.choice(['abs(%s)', 'int(%s)', 'max(%s, 1)', 'len(l) + %s']) % self.iexpr(depth - 1)
        if c < 0.86:
            self.features.add('usercall')
            if r.random() < 0.3:
                # starred / double-starred argument forms (the only positional argument starred, mixed, keyword splat),
                # with list, tuple and iterator operands, on plain, partial and bound-method callees
                self.features.add('star_args'); self.uses_obj = True
                e = self.iexpr(depth - 1)
                if r.random() < 0.15:
                    # the same keyword arriving twice at run time must raise TypeError (never 'last one wins')
                    self.features.add('duplicate_keyword')
                    return r.choice(["h2(u=%s, **{'u': 1})", "h2(%s, v=1, **{'v': 2})", "h2(**{'u': %s}, **{'u': 2})"]) % e
                if r.random() < 0.15:
                    self.features.add('super_in_block')
                    return 'PC(%s).mm(%s)' % (e, r.choice(['a', 'b', '1', '2', '0']))
                return r.choice(['h(*[%s])', 'hp(*[%s])', 'h2(*[%s, 2])', 'h2(*(%s,), v=2)', 'hp(*iter([%s]))', 'h2(%s, *[1])',
                                 "h2(%s, **{'v': 2})", 'o.m(*[%s])', 'max(*[%s, 1])', 'hp(*(%s,))']) % e
            return r.choice(['h(%s)', 'h2(%s)', 'h2(%s, v=2)', 'hp(%s)', 'hp(%s, v=1)']) % self.iexpr(depth - 1)
        if c < 0.90:
            self.features.add('method'); self.uses_obj = True
            return 'o.m(%s)' % self.iexpr(depth - 1)
        if c < 0.94:
            self.features.add('lambda')
            return '(lambda q: q + %s)(%s)' % (r.choice(self.ivars), self.iexpr(depth - 1))
        if c < 0.97:
            self.features.add('comprehension')
            form = r.randrange(6)
            if form == 0:
                return 'sum([tr(%d, q) for q in l if q > %s])' % (self.slot(), r.choice(['0', 'a', '1']))
            if form == 1:
                return 'sum([l + %s for l in l])' % r.choice(self.ivars)          # target shadows the iterable's name
            if form == 2:
                return 'len({q: %s for q in l})' % r.choice(self.ivars)
            if form == 3:
                return 'sum(q * %s for q in l if q != %s)' % (r.choice(self.ivars), r.choice(self.ivars))
            if form == 4:
                return 'len({%s + q for q in l})' % r.choice(self.ivars)
            return 'sum([p + q for p in l for q in [%s, 1] if p < q + %s])' % (r.choice(self.ivars), r.choice(self.ivars))
        return '(-%s)' % self.iexpr(depth - 1)

    def bexpr(self, depth=2):
        r = self.rng
        c = r.random()
        if depth <= 0 or c < 0.35:
            return '%s %s %s' % (self.iexpr(depth - 1), r.choice(['<', '>', '==', '!=', '<=']), self.iexpr(depth - 1))
        if c < 0.5:
            self.features.add('and')
            return '(%s and %s)' % (self.bexpr(depth - 1), self.bexpr(depth - 1))
        if c < 0.65:
            self.features.add('or')
            return '(%s or %s)' % (self.bexpr(depth - 1), self.bexpr(depth - 1))
        if c < 0.75:
            self.features.add('not')
            return '(not %s)' % self.bexpr(depth - 1)
        if c < 0.85:
            self.features.add('chained_compare')
            if r.random() < 0.4:
                # longer chains over atoms (no effectful middle operand): every link must be kept, in order
                self.features.add('long_compare_chain')
                k = r.randrange(3, 5)
                parts = [self.iexpr(0)]
                for _ in range(k):
                    parts += [r.choice(['<', '<=', '==', '!=', '>', '>=']), self.iexpr(0)]
                return ' '.join(parts)
            return '%s < %s <= %s' % (self.iexpr(0), self.iexpr(depth - 1), self.iexpr(0))
        if c < 0.91:
            return 'd()'
        if c < 0.95:
            # == / != on one and the same object whose equality is not trivially True (NaN; an __eq__ with an
            # observable effect and a non-bool result): no identity shortcut may be taken
            self.features.add('self_equality')
            if r.random() < 0.1:
                # known finding (under EQUALITY_OPERATORS `!=` is lowered to not_(eq(...)): __ne__ is never called)
                self.features.add('custom_ne')
                return "(EQ1 != EQ1) == 'ne'"
            return r.choice(['NANV == NANV', 'NANV != NANV', 'bool(EQ1 == EQ1)', '[NANV][0] == NANV'])
        return 'tr(%d, %s) > 0' % (self.slot(), self.iexpr(depth - 1))

    # ---- statements
    def emit(self, ind, s):
        self.lines.append(ind + s)

    def block(self, ind, depth, inloop, infin, minlen=1):
        nst = self.rng.randrange(minlen, 4)
        for _ in range(nst):
            if self.budget <= 0:
                break
            self.stmt(ind, depth, inloop, infin)
        if self.lines[-1].endswith(':'):
            self.emit(ind, 'pass')

    def stmt(self, ind, depth, inloop, infin):
        r = self.rng
        self.budget -= 1
        c = r.random()
        v = r.choice(self.ivars)
        F = self.features
        n0 = len(self.lines)
        if depth <= 0 or c < 0.28:
            form = r.randrange(8)
            if form == 0:
                self.emit(ind, '%s = %s' % (v, self.iexpr()))
            elif form == 1:
                F.add('augassign'); self.emit(ind, '%s %s= %s' % (v, r.choice(['+', '-', '+']), self.iexpr(1)))
            elif form == 2:
                F.add('tuple_assign'); self.emit(ind, '%s, %s = %s, %s' % (v, r.choice(self.ivars), self.iexpr(1), self.iexpr(1)))
            elif form == 3:
                self.emit(ind, 'tr(%d, %s)' % (self.slot(), self.iexpr(1)))
            elif form == 4:
                F.add('subscript_store'); self.emit(ind, 'l[0] = %s' % self.iexpr(1))
            elif form == 5 and self.loopdepth == 0 and r.random() < 0.4:
                # in-place augmented assignment through a plain name bound to a mutable object that is aliased elsewhere
                # (the caller's list argument; a second local name): `+=` must keep using __iadd__
                F.add('inplace_augassign')
                if r.random() < 0.5:
                    self.emit(ind, 'l += [%s]' % self.iexpr(1))
                else:
                    self.emit(ind, 'm9 = l')
                    self.emit(ind, 'm9 += [%s]' % self.iexpr(1))
                    self.emit(ind, 'tr(%d, len(l), m9 is l)' % self.slot())
            elif form == 5 and self.loopdepth == 0:
                F.add('method'); self.emit(ind, 'l.append(%s)' % self.iexpr(1))
            elif form == 5:
                self.emit(ind, '%s = %s' % (v, self.iexpr()))
            elif form == 6:
                F.add('attr_store'); self.uses_obj = True; self.emit(ind, 'o.v = %s' % self.iexpr(1))
            else:
                F.add('global'); self.uses_global = True
                if r.random() < 0.6:
                    self.emit(ind, 'G = G + %s' % self.iexpr(1))
                else:
                    F.add('global_write_only'); self.emit(ind, 'G = %s' % self.iexpr(1))
            return
        if c < 0.46:
            F.add('if')
            self.emit(ind, 'if %s:' % self.bexpr())
            self.block(ind + '    ', depth - 1, inloop, infin)
            m = r.random()
            if m < 0.3:
                F.add('elif')
                self.emit(ind, 'elif %s:' % self.bexpr(1))
                self.block(ind + '    ', depth - 1, inloop, infin)
            if m < 0.6:
                self.emit(ind, 'else:')
                self.block(ind + '    ', depth - 1, inloop, infin)
            return
        if c < 0.56:
            F.add('while')
            self.nw += 1
            wv = 'n%d' % self.nw
            self.emit(ind, '%s = 0' % wv)
            self.emit(ind, 'while %s < %d and %s:' % (wv, r.randrange(1, 4), self.bexpr(1)))
            self.emit(ind + '    ', '%s += 1' % wv)
            self.loopdepth += 1
            self.block(ind + '    ', depth - 1, True, infin)
            self.loopdepth -= 1
            return
        if c < 0.70:
            F.add('for')
            form = r.randrange(5)
            self.nloopv = getattr(self, 'nloopv', 0) + 1
            priv = 'k%d' % self.nloopv
            tgt = priv if r.random() < 0.8 else r.choice(['i', 'j', v])
            if form == 0:
                self.emit(ind, 'for %s in range(%s):' % (tgt, r.choice(['2', '3', 'a % 3', 'len(l)', '0'])))
            elif form == 1 and self.loopdepth == 0 and r.random() < 0.3:
                # worklist idiom: the body changes the length of the list being iterated (bounded growth / shrinking);
                # appended items must be visited, Python's list-iterator protocol followed
                F.add('for_over_mutated_list')
                tgt = 'kw%d' % self.slot()      # loop-private target (re-used targets fall into a known-finding class)
                self.emit(ind, 'for %s in l:' % tgt)
                self.emit(ind + '    ', 'tr(%d, %s, len(l))' % (self.slot(), tgt))
                if r.random() < 0.6:
                    self.emit(ind + '    ', 'if len(l) < 5:')
                    self.emit(ind + '        ', 'l.append(%s + 1)' % tgt)
                else:
                    self.emit(ind + '    ', 'if len(l) > 1 and %s %% 2 == 0:' % tgt)
                    self.emit(ind + '        ', 'l.pop()')
                return
            elif form == 1:
                self.emit(ind, 'for %s in l:' % tgt)
            elif form == 2:
                F.add('for_tuple_target')
                self.emit(ind, 'for i, %s in [(1, a), (2, b)]:' % v)
            elif form == 3:
                F.add('for_tuple_target'); F.add('builtin')
                self.emit(ind, 'for i, %s in enumerate(l):' % v)
            else:
                F.add('for_iterator')
                self.emit(ind, 'for %s in iter((a, b, c)):' % tgt)
            self.loopdepth += 1
            self.block(ind + '    ', depth - 1, True, infin)
            self.loopdepth -= 1
            return
        if c < 0.76 and inloop:
            F.add('break' if r.random() < 0.5 else 'continue')
            kw = 'break' if 'break' in F and r.random() < 0.5 else 'continue'
            F.add(kw)
            self.emit(ind, 'if %s:' % self.bexpr(1))
            self.emit(ind + '    ', kw)
            return
        if c < 0.82 and not infin:
            F.add('return')
            self.emit(ind, 'if %s:' % self.bexpr(1))
            self.emit(ind + '    ', 'return %s' % r.choice([self.iexpr(1), '(%s, %s)' % (v, self.iexpr(0)), '']))
            return
        if c < 0.90:
            F.add('try')
            self.emit(ind, 'try:')
            self.block(ind + '    ', depth - 1, inloop, infin)
            if r.random() < 0.6:
                F.add('raise')
                self.emit(ind + '    ', 'if %s:' % self.bexpr(1))
                self.emit(ind + '        ', 'raise %s(tr(%d))' % (r.choice(['E1', 'E1', 'E2']), self.slot()))
            m = r.random()
            if m < 0.75:
                hk = r.random()
                self.emit(ind, 'except E1:' if hk < 0.6 else 'except E2:')
                self.block(ind + '    ', depth - 1, inloop, infin)
                if hk >= 0.85:
                    self.emit(ind, 'except E1:')
                    self.block(ind + '    ', depth - 1, inloop, infin)
            if m >= 0.75 or r.random() < 0.35:
                F.add('finally')
                self.emit(ind, 'finally:')
                self.block(ind + '    ', depth - 1, False, True)
            return
        if c < 0.94:
            F.add('with')
            k = self.slot()
            self.emit(ind, r.choice(['with cm(%d):' % k, 'with cm(%d) as %s:' % (k, v)]))
            self.block(ind + '    ', depth - 1, inloop, infin)
            return
        if c < 0.985:
            F.add('nested_def')
            self.nfn += 1
            g = 'g%d' % self.nfn
            p = r.choice(['', 'p', 'p, q=1', 'p, q=1'])
            if p == 'p, q=1' and r.random() < 0.5:
                # default values are evaluated in the ENCLOSING function when the def runs: calls in them must be
                # lowered there (positional and keyword-only defaults)
                F.add('call_in_default')
                p = r.choice(['p, q=h(%s)', 'p, q=tr(%d, %%s)' % self.slot(), 'p, *, q=h2(%s)', 'p, q=hp(%s)']) % r.choice(self.ivars)
            self.emit(ind, 'def %s(%s):' % (g, p))
            nlr = r.random()
            if nlr < 0.2:
                F.add('nonlocal')
                self.emit(ind + '    ', 'nonlocal %s' % v)
                self.emit(ind + '    ', '%s = %s' % (v, self.iexpr(1)))
            elif nlr < 0.3:
                # declaration inside a block of the closure (legal as long as it precedes every use in the function)
                F.add('nonlocal'); F.add('nonlocal_in_block')
                self.emit(ind + '    ', 'if %s:' % r.choice(['True', 'd()', '1 < 2']))
                self.emit(ind + '        ', 'nonlocal %s' % v)
                self.emit(ind + '        ', 'tr(%d, %s)' % (self.slot(), v))
            self.block(ind + '    ', depth - 1, False, False)
            self.emit(ind + '    ', 'return %s' % self.iexpr(1))
            call = '%s(%s)' % (g, '' if not p else self.iexpr(1))
            if r.random() < 0.5:
                self.emit(ind, '%s = %s' % (r.choice(self.ivars), call))
            else:
                # call later, from another statement
                self.stmt(ind, 0, inloop, infin)
                self.emit(ind, '%s = %s' % (r.choice(self.ivars), call))
            return
        F.add('del')
        if r.random() < 0.5:
            self.emit(ind, 'del %s' % v)
            self.emit(ind, '%s = %s' % (v, self.iexpr(1)))
        else:
            # delete only on one path, no re-assignment: a later read must raise exactly when that path ran
            F.add('del_in_branch')
            self.emit(ind, 'if %s:' % self.bexpr(1))
            self.emit(ind + '    ', 'del %s' % v)


def random_program(rng, size=12, profile='c01'):
    g = _Gen(rng, size, profile)
    g.uses_global = False
    body_ind = '    '
    # definitely-assigned with probability 0.8
    da = rng.random() < 0.8
    g.emit(body_ind, 'x = a')
    if da:
        g.emit(body_ind, 'y = b')
        g.emit(body_ind, 'z = c')
        g.emit(body_ind, 'w = 0')
        g.emit(body_ind, 'i = 0')
        g.emit(body_ind, 'j = 0')
    else:
        g.features.add('maybe_unbound')
        g.emit(body_ind, 'y = b')
        for nm, init in rng.sample([('z', 'c'), ('w', '0'), ('i', '0'), ('j', '0')], 2):
            g.emit(body_ind, '%s = %s' % (nm, init))
    mark = len(g.lines)
    while g.budget > 0:
        g.stmt(body_ind, 3, False, False)
    g.emit(body_ind, 'return %s' % rng.choice(['x', '(x, y)', 'x + y', '(x, y, z, w)', 'tr(0, x, y, z)']))
    head = ['def f(a, b, c, l):']
    if g.uses_global:
        head.append('    global G')
    if g.uses_obj:
        g.lines.insert(0, '    o = Obj(a)' if rng.random() < 0.6 else '    o = Obj0(a)')
    src = '\n'.join(head + g.lines) + '\n'
    inputs = [(1, 2, 3, [1, 2]), (0, 0, 0, [0]), (-1, 5, 2, [3, -1, 4]), (4, 1, 0, [2]),
              (rng.randrange(-3, 6), rng.randrange(-3, 6), rng.randrange(-3, 6), [rng.randrange(-2, 5) for _ in range(rng.randrange(1, 4))])]
    return Program(RANDOM_PRELUDE + src, inputs, g.features, 'random',
                   decisions=decision_vectors(random.Random(rng.getrandbits(30)), 3))


def random_programs(rng, n, size=12, profile='c01'):
    """Typed random programs of the C01 class, mostly valid by construction (all loops bounded; variables
    definitely assigned with probability 0.8; side effects only through tr/cm/d, the mutable argument `l`,
    the module global `G` and the object `o`).  Programs that fail to compile are discarded (counted by caller)."""
    made = 0
    while made < n:
        p = random_program(rng, size=rng.randrange(max(3, size // 2), size + 1), profile=profile)
        try:
            compile(p.source, '<gen>', 'exec')
        except SyntaxError:
            continue
        made += 1
        yield p


# -------------------------------------------------------------------------------------------------
# jump-context family: every jump kind under every nesting path of syntactic contexts, with/without trailing
# statements at every level (the space the guard-placement logic of the jump passes is about)
# -------------------------------------------------------------------------------------------------
JUMP_CONTEXTS = ['if', 'else', 'try', 'handler', 'tryfin', 'with', 'loop']


def _jump_program(jump, loopkind, path, trailing, guarded, k0=0):
    """`path`: contexts from the loop body down to the jump; `trailing[i]`: a statement follows context i at its level;
    `guarded`: the jump itself sits under `if d():` (else it is unconditional, last in its block)."""
    lines = ['def f(a, b, c):', '    x = a', '    y = b', '    z = c']
    k = [k0]

    def slot():
        k[0] += 1
        return k[0]
    ind = '    '
    lines.append(ind + ('while d():' if loopkind == 'while' else 'for i in n():'))
    ind += '    '
    lines.append(ind + 'x = tr(%d, x)' % slot())
    closers = []     # (indent, lines to emit after the nested part at that level)
    for depth, ctx in enumerate(path):
        after = []
        if ctx == 'if':
            lines.append(ind + 'if d():')
        elif ctx == 'else':
            lines.append(ind + 'if d():')
            lines.append(ind + '    y = tr(%d, y)' % slot())
            lines.append(ind + 'else:')
        elif ctx == 'try':
            lines.append(ind + 'try:')
            after = [ind + 'except E1:', ind + '    z = tr(%d, z)' % slot()]
        elif ctx == 'handler':
            lines.append(ind + 'try:')
            lines.append(ind + '    if d():')
            lines.append(ind + '        raise E1(tr(%d))' % slot())
            lines.append(ind + 'except E1:')
        elif ctx == 'tryfin':
            lines.append(ind + 'try:')
            after = [ind + 'finally:', ind + '    z = tr(%d, z)' % slot()]
        elif ctx == 'with':
            lines.append(ind + 'with cm(%d):' % slot())
        elif ctx == 'loop':
            lines.append(ind + 'for j in n():')
        if trailing[depth]:
            after = after + [ind + 'y = tr(%d, x, y)' % slot()]
        closers.append(after)
        ind += '    '
    lines.append(ind + 'y = tr(%d, y)' % slot())
    js = {'break': 'break', 'continue': 'continue', 'return': 'return tr(%d, x, y)' % slot(), 'raise': 'raise E2(tr(%d))' % slot()}[jump]
    if guarded:
        lines.append(ind + 'if d():')
        lines.append(ind + '    ' + js)
        lines.append(ind + 'z = tr(%d, z)' % slot())
    else:
        lines.append(ind + js)
    for after in reversed(closers):
        lines.extend(after)
    lines.append('        x = tr(%d, x, z)' % slot())
    lines.append('    return tr(0, x, y, z)')
    return '\n'.join(lines) + '\n'


def jump_context_space(max_depth):
    out = []
    for jump in ('break', 'continue', 'return', 'raise'):
        for loopkind in ('while', 'for'):
            for depth in range(0, max_depth + 1):
                for path in itertools.product(JUMP_CONTEXTS, repeat=depth):
                    # a `loop` context captures break/continue: still interesting (inner-loop jump must not leak)
                    for trailing in itertools.product((False, True), repeat=depth):
                        for guarded in (True, False):
                            out.append((jump, loopkind, path, trailing, guarded))
    return out


def jump_context_programs(max_depth=2, cap=None, rng=None, info=None):
    """Bounded-exhaustive: every jump kind x loop kind x nesting path of contexts (if / else / try body / except handler /
    try-with-finally body / with / inner loop) up to `max_depth`, x trailing statements present/absent at each level x
    jump guarded by a condition or not.  Stride-sampled with a seed-derived offset when over `cap`."""
    rng = rng or random.Random(0)
    space = jump_context_space(max_depth)
    ntot = len(space)
    if cap is None or ntot <= cap:
        idxs = range(ntot); exhaustive = True
    else:
        stride = ntot // cap
        off = rng.randrange(stride)
        idxs = range(off, ntot, stride); exhaustive = False
    if info is not None:
        info.update({'jump_space': ntot, 'jump_cap': cap, 'jump_exhaustive': exhaustive, 'jump_max_depth': max_depth})
    for ix in idxs:
        jump, loopkind, path, trailing, guarded = space[ix]
        src = _jump_program(jump, loopkind, path, trailing, guarded)
        prng = random.Random(ix * 7919 + 13)
        yield Program(PRELUDE + src, [(1, 2, 3)], set(path) | {jump, loopkind, 'jumpctx'}, 'jumpctx',
                      decisions=decision_vectors(prng, 8, length=10), meta={'index': ix})


# -------------------------------------------------------------------------------------------------
# raise/handler family and binding-construct scenarios (small, exhaustive)
# -------------------------------------------------------------------------------------------------
def raise_handler_space():
    out = []
    for hi in ('E1', 'E2'):
        for ho in ('E1', 'E2', 'E1E2'):
            for r1 in ('E1', 'E2'):
                for r2 in (None, 'E1', 'E2'):
                    for r3 in (None, 'E1', 'E2'):
                        for fin in (False, True):
                            for loop in (False, True):
                                out.append((hi, ho, r1, r2, r3, fin, loop))
    # `kill` variants: every later write of x overwrites it WITHOUT reading it, so the value assigned right before a
    # raise is kept alive only by the raise -> handler edges (inner handler not matching: the outer one reads it)
    out += [t + (True,) for t in out if t[3] is None and t[0] != t[2]]
    return out


def _raise_handler_program(hi, ho, r1, r2, r3, fin, loop, kill=False):
    L = ['def f(a, b, c):', '    x = a', '    y = b']
    ind = '    '
    if loop:
        L.append(ind + 'for i in n():'); ind += '    '
    L += [ind + 'try:',
          ind + '    x = tr(1, x)',
          ind + '    try:',
          ind + '        x = tr(2, x)',
          ind + '        if d():',
          ind + ('            x = tr(13)' if kill else '            x = tr(13, x)'),   # written inside the branch right before the raise, read by a handler
          ind + '            raise %s(tr(3))' % r1,
          ind + ('        x = tr(4)' if kill else '        x = tr(4, x)'),
          ind + '    except %s:' % hi,
          ind + ('        x = tr(5)' if kill else '        x = tr(5, x)')]
    if r2:
        L += [ind + '        if d():', ind + '            raise %s(tr(6))' % r2]
    L += [ind + ('    x = tr(7)' if kill else '    x = tr(7, x)')]
    if r3:
        L += [ind + '    if d():', ind + '        raise %s(tr(8))' % r3]
    L += [ind + ('    x = tr(9)' if kill else '    x = tr(9, x)')]
    if ho == 'E1E2':
        L += [ind + 'except E1:', ind + '    y = tr(10, x)', ind + 'except E2:', ind + '    y = tr(11, x, y)']
    else:
        L += [ind + 'except %s:' % ho, ind + '    y = tr(10, x)']
    if fin:
        L += [ind + 'finally:', ind + '    y = tr(12, x, y)']
    L += ['    return tr(0, x, y)']
    return '\n'.join(L) + '\n'


def raise_handler_programs(info=None):
    """Exhaustive small family: nested try statements, inner/outer handler kinds, explicit raises of either kind in the
    inner body, the inner handler and the outer body, with/without finally, inside/outside a loop; the variable is
    written before each raise and read in every handler (432 programs)."""
    space = raise_handler_space()
    if info is not None:
        info['raise_handler_space'] = len(space)
    for ix, t in enumerate(space):
        prng = random.Random(ix * 31 + 5)
        yield Program(PRELUDE + _raise_handler_program(*t), [(1, 2, 3)], {'try', 'raise', 'nested_try', 'raisefam'}, 'raisefam',
                      decisions=[[0] * 8, [1] * 8, [1, 0, 0, 1, 0, 0, 1, 0], [2, 1, 0, 1, 1, 0, 0, 1], [0, 1, 1, 0, 0, 1, 1, 0],
                                 [prng.randrange(3) for _ in range(8)]], meta={'index': ix})


def return_try_space():
    out = []
    for ctx in ('plain', 'if', 'else', 'for', 'while'):
        for body_end in ('return', 'fall'):
            for h1 in ('return', 'fall', 'raise'):
                for h2 in ('return', 'fall', 'raise'):
                    for els in (None, 'return', 'fall'):
                        for fin in (False, True):
                            out.append((ctx, body_end, h1, h2, els, fin))
    return out


def _return_try_program(ctx, body_end, h1, h2, els, fin):
    """A try statement whose protected block, handlers and else clause each either return, fall through or raise, as the
    LAST statement of a branch / loop body (or at function level), followed by a tail that must run exactly when some
    path falls through."""
    L = ['def f(a, b, c):', '    x = a']
    ind = '    '
    if ctx == 'if':
        L.append(ind + 'if d():'); ind += '    '
    elif ctx == 'else':
        L += [ind + 'if d():', ind + '    x = tr(20, x)', ind + 'else:']; ind += '    '
    elif ctx == 'for':
        L.append(ind + 'for i in n():'); ind += '    '
    elif ctx == 'while':
        L.append(ind + 'while d():'); ind += '    '

    def end(kind, slot, exc='E2'):
        if kind == 'return':
            return 'return tr(%d, x)' % slot
        if kind == 'raise':
            return 'raise %s(tr(%d))' % (exc, slot)
        return 'x = tr(%d, x)' % slot
    L += [ind + 'try:',
          ind + '    x = tr(1, x)',
          ind + '    if d():',
          ind + '        raise E1(tr(2))',
          ind + '    if d():',
          ind + '        raise E2(tr(3))',
          ind + '    ' + end(body_end, 4),
          ind + 'except E1:',
          ind + '    ' + end(h1, 5, 'E2'),
          ind + 'except E2:',
          ind + '    ' + end(h2, 6, 'E1')]
    if els:
        L += [ind + 'else:', ind + '    ' + end(els, 7)]
    if fin:
        L += [ind + 'finally:', ind + '    tr(8, x)']
    L += ['    x = tr(9, x)', '    return tr(0, x)']
    return '\n'.join(L) + '\n'


def return_try_programs(info=None):
    space = return_try_space()
    if info is not None:
        info['return_try_space'] = len(space)
    for ix, t in enumerate(space):
        yield Program(PRELUDE + _return_try_program(*t), [(1, 2, 3)], {'try', 'raise', 'return', 'rettryfam'}, 'rettryfam',
                      decisions=[[0] * 8, [1] * 8, [1, 0, 0, 1, 0, 0, 1, 0], [1, 0, 1, 1, 0, 1, 0, 0], [0, 1, 0, 0, 0, 1, 0, 0],
                                 [1, 1, 0, 0, 1, 0, 0, 1], [2, 0, 1, 0, 2, 0, 1, 0], [2, 1, 0, 0, 1, 1, 0, 0]], meta={'index': ix})


BINDING_SCENARIOS = [
    # (name, statement(s) using v as BOTH an outer read and an inner binding; r receives a value)
    ('listcomp_target_shadows_iter', 'r = [v * 2 for v in v]'),
    ('setcomp_target_shadows_iter', 'r = sorted({v + 1 for v in v})'),
    ('dictcomp_target_shadows_iter', 'r = sorted({v: v for v in v}.items())'),
    ('genexp_target_shadows_iter', 'r = sum(v for v in v)'),
    ('nested_comp_inner_iter_reads_outer_target', 'r = [q for v in [v] for q in v]'),
    ('comp_condition_reads_target', 'r = [q for q in v if q > 0]'),
    ('comp_second_iter_reads_enclosing', 'r = [p + q for p in [1, 2] for q in v]'),
    ('lambda_param_shadows', 'r = (lambda v: v)(v)'),
    ('lambda_default_reads_enclosing', 'r = (lambda p=v: p)()'),
    ('nested_def_param_shadows', 'def g(v):\n    return v\nr = g(v)'),
    ('nested_def_default_reads_enclosing', 'def g(p=v):\n    return p\nr = g()'),
    ('nested_def_closure_read', 'def g():\n    return v\nr = g()'),
    ('walrus_in_comp_element', 'r = [(w := q) for q in v] + [w]'),
    ('for_iter_shadows_target', 'r = []\nfor v in v:\n    r.append(v)'),
    ('with_as_rebinds', 'with cm(1) as k:\n    r = (k, v)'),
    ('augassign_reads', 'v += [9]\nr = v'),
    ('tuple_target_swap', 'v, r = [0], v'),
    ('starred_target', 'r, *v = v'),
    ('subscript_store_reads_base', 'v[0] = 5\nr = v'),
    ('call_kwarg_reads', 'r = tr(2, x=v) if False else tr(2, v)'),
    ('fstring_reads', "r = f'{v}'"),
    ('conditional_expr_reads', 'r = v if d() else [0]'),
    ('boolop_reads', 'r = d() and v'),
    ('slice_reads', 'r = v[0:1]'),
    ('delete_then_rebind', 'r = v\ndel v\nv = [3]'),
    ('global_decl_elsewhere', 'r = v + [G]'),
    ('class_body_reads', 'class K(object):\n    z = v\nr = K.z'),
    ('del_in_branch_then_read', 'if d():\n    del v\nr = v'),
    ('del_in_loop_then_read', 'for k9 in n():\n    del v\n    break\nr = v'),
    ('closure_nonlocal_declared_in_block', 'def g():\n    if True:\n        nonlocal v\n        return v\nr = g()'),
    ('closure_global_and_nonlocal_rebound_in_block', 'def g():\n    global G\n    nonlocal v\n    if d():\n        v = [7]\n    for k8 in n():\n        v = [8]\ng()\nr = v'),
    ('closure_global_written_nonlocal_rebound', 'def g():\n    global G\n    nonlocal v\n    if d():\n        G = 3\n        v = [G]\ng()\nr = v + [G]'),
    ('closure_two_level_nonlocal_read', 'def g(p):\n    def gi():\n        nonlocal v\n        v = v + [p]\n        return v\n    return gi()\nr = g(3)'),
    ('closure_two_level_read', 'def g(p):\n    def gi():\n        return v + [p]\n    return gi()\nr = g(3)'),
    ('closure_global_declared_in_block', 'def g():\n    if True:\n        global G\n        return [G]\nr = g() + v'),
]


ESCAPE_SCENARIOS = [
    # (name, statements BEFORE the conditional re-assignment of v (define a closure over v and let it escape under
    #  another handle, never mentioning its name again), statements AFTER it (call through that handle))
    ('closure_escapes_in_dict', 'def g():\n    return v\ndct = {1: g}', 'r = dct[1]()'),
    ('closure_escapes_in_list', 'def g():\n    return v\nfs = [g]', 'r = fs[0]()'),
    ('closure_escapes_in_partial', 'def g(p):\n    return v + [p]\nhh = functools.partial(g, 3)', 'r = hh()'),
    ('closure_escapes_as_attribute', 'def g():\n    return v\no = Obj(0)\no.cb = g', 'r = o.cb()'),
    ('closure_escapes_via_alias_chain', 'def g():\n    return v\nh1 = g\nh3 = h1', 'r = h3()'),
    ('closure_escapes_as_default', 'def g():\n    return v\ndef call(k=g):\n    return k()', 'r = call()'),
]


def escape_scenario_programs():
    """A closure over `v` escapes under another handle; `v` is then re-assigned (write-only) inside a branch / a loop;
    the closure is finally called through the handle: the re-assignment must be seen."""
    for name, pre, post in ESCAPE_SCENARIOS:
        for wrap in ('if', 'for', 'while'):
            L = ['def f(a, b, c):', '    v = [a, b]'] + ['    ' + l for l in pre.split('\n')]
            if wrap == 'if':
                L += ['    if d():', '        v = [tr(1, c), 4]']
            elif wrap == 'for':
                L += ['    for i in n():', '        v = [tr(1, i), 5]']
            else:
                L += ['    while d():', '        v = [tr(1, c), 6]']
            L += ['    ' + l for l in post.split('\n')] + ['    return tr(0, r)']
            yield Program(RANDOM_PRELUDE + '\n'.join(L) + '\n', [(1, 2, 3), (0, -1, 2)], {'binding', 'escape', name, wrap}, 'binding',
                          decisions=[[0, 0, 0], [1, 0, 0], [2, 1, 0]], meta={'scenario': name})


def conditionally_bound_programs():
    """A variable bound only on some static paths before a loop (or branch) that conditionally rebinds it, read afterwards:
    on inputs where it IS bound at run time its value must survive (no placeholder may overwrite it); where it is not,
    both versions raise a NameError."""
    binders = [('if', ['if d():', '    v = [tr(1, a)]']),
               ('if_else_del', ['v = [a]', 'if d():', '    del v']),
               ('try', ['try:', '    if d():', '        raise E1(tr(1))', '    v = [tr(2, a)]', 'except E1:', '    pass']),
               ('for', ['for k in n():', '    v = [tr(1, k)]'])]
    users = [('for_cond', ['for i in n():', '    if d():', '        v = [tr(3, i)]']),
             ('while_cond', ['while d():', '    if d():', '        v = [tr(3, b)]']),
             ('for_rmw', ['for i in n():', '    v = v + [tr(3, i)]']),
             ('if_cond', ['if d():', '    if d():', '        v = [tr(3, c)]']),
             ('with_cond', ['with cm(4):', '    if d():', '        v = [tr(3, c)]'])]
    for bn, bl in binders:
        for un, ul in users:
            L = ['def f(a, b, c):'] + ['    ' + x for x in bl + ul] + ['    return tr(0, v)']
            yield Program(PRELUDE + '\n'.join(L) + '\n', [(1, 2, 3)], {'binding', 'conditionally_bound', bn, un}, 'binding',
                          decisions=[[1, 0, 0, 0], [1, 1, 1, 0], [0, 1, 1, 1], [1, 2, 1, 0, 1], [0, 0, 0, 0], [2, 1, 0, 1, 1]],
                          meta={'scenario': 'conditionally_bound:%s:%s' % (bn, un)})


def list_iteration_programs():
    """for loops directly over a list / tuple argument whose body changes the length of that list (worklist idiom,
    pruning), alone and with break / an early return / an enclosing branch: Python's list-iterator protocol must be
    followed (appended items are visited; a shrinking list ends the loop early)."""
    bodies = [('append_bounded', ['tr(1, q, len(l))', 'if len(l) < 5:', '    l.append(q + 1)']),
              ('pop_on_even', ['tr(1, q, len(l))', 'if len(l) > 1 and q % 2 == 0:', '    l.pop()']),
              ('insert_front_once', ['tr(1, q, len(l))', 'if len(l) < 4:', '    l.insert(0, q + 10)']),
              ('append_then_break', ['tr(1, q, len(l))', 'if len(l) < 4:', '    l.append(q + 1)', 'if d():', '    break']),
              ('append_then_return', ['tr(1, q, len(l))', 'if len(l) < 4:', '    l.append(q + 1)', 'if d():', '    return tr(2, q)']),
              ('del_slice', ['tr(1, q, len(l))', 'if len(l) > 2:', '    del l[-1]'])]
    for name, body in bodies:
        for ctx in ('plain', 'if', 'while'):
            L = ['def f(a, b, c, l):', '    x = a']
            ind = '    '
            if ctx == 'if':
                L.append(ind + 'if d():'); ind += '    '
            elif ctx == 'while':
                L.append(ind + 'while d():'); ind += '    '
            L.append(ind + 'for q in l:')
            L += [ind + '    ' + b for b in body]
            L += ['    return tr(0, x, len(l))']
            yield Program(PRELUDE + '\n'.join(L) + '\n', [(1, 2, 3, [1, 2]), (0, 0, 0, [2, 4, 6]), (1, 1, 1, [])],
                          {'binding', 'list_iteration', name, ctx}, 'binding',
                          decisions=[[1, 0, 0, 0], [1, 1, 0, 0], [0, 0, 0, 0], [1, 0, 1, 0]], meta={'scenario': 'list_iteration:' + name})


def binding_scenario_programs():
    """For every binding construct: the enclosing variable `v` is conditionally re-assigned inside a branch and in a loop
    just before a statement that reads it in an 'outer-evaluated' position while binding the same (or another) name in an
    inner scope, and is NOT read afterwards — so the statement is the only thing keeping `v` live / the only consumer of
    its reaching definitions."""
    for name, stmt in BINDING_SCENARIOS:
        for wrap in ('if', 'for', 'plain'):
            body = stmt.split('\n')
            L = ['def f(a, b, c):', '    v = [a, b]']
            if wrap == 'if':
                L += ['    if d():', '        v = [tr(1, c), 4]']
            elif wrap == 'for':
                L += ['    for i in n():', '        v = [tr(1, i), 5]']
            L += ['    ' + l for l in body]
            L += ['    return tr(0, r)']
            yield Program(PRELUDE + '\n'.join(L) + '\n', [(1, 2, 3), (0, -1, 2)], {'binding', name, wrap}, 'binding',
                          decisions=[[0, 0, 0], [1, 1, 1], [2, 0, 1]], meta={'scenario': name})
