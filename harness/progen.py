"""Program generators shared by the syntactic/semantic properties (DESIGN.md §2.5).

API (stable):
  repo_functions()                      -> iterator of RepoFn(path, qualname, node: ast.FunctionDef, source_module: str)
        every FunctionDef (incl. methods and nested defs) in /repo/malt and /repo/tests — a real-world corpus
        for *syntactic* correspondences (CFG, activity, dataflow annotations).  Not executable in isolation.
  skeleton_programs(max_stmts, max_depth, cap=None, rng=None) -> iterator of Program   (bounded-exhaustive)
  random_programs(rng, n, size=12, profile='c01')             -> iterator of Program   (typed random)
  Program: .source  module source text defining the function `f` (and helpers it needs; self-contained,
                    importable by exec; side effects only through the tracer `tr(tag, *vals)` and the
                    context manager `cm(tag)` defined by PRELUDE, which log into the list `LOG`)
           .fname   'f'
           .inputs  list of argument tuples (ints / small lists) on which `f` terminates
           .features  set of construct names used ('if','while','for','break','continue','return','try',
                      'finally','raise','with','nested_def','lambda','nonlocal','global','augassign', ...)
           .kind    'skeleton' | 'random'
           .key     short stable identifier (replays: regenerate from .source alone)
"""
import ast, glob, os, collections
import common

RepoFn = collections.namedtuple('RepoFn', 'path qualname node source_module')


def repo_functions(include_tests=True):
    pats = [os.path.join(common.REPO, 'malt', '**', '*.py')]
    if include_tests:
        pats.append(os.path.join(common.REPO, 'tests', '**', '*.py'))
    for pat in pats:
        for path in sorted(glob.glob(pat, recursive=True)):
            with open(path) as f:
                src = f.read()
            try:
                tree = ast.parse(src)
            except SyntaxError:
                continue
            stack = [(tree, '')]
            while stack:
                node, prefix = stack.pop()
                for child in ast.iter_child_nodes(node):
                    if isinstance(child, (ast.FunctionDef, ast.AsyncFunctionDef, ast.ClassDef)):
                        q = prefix + child.name
                        if isinstance(child, ast.FunctionDef):
                            yield RepoFn(os.path.relpath(path, common.REPO), q, child, src)
                        stack.append((child, q + '.'))
                    else:
                        stack.append((child, prefix))
