"""C12 — errors in converted code are reported at the original source location.

Tie: translator (KNOWN_STRING_CONSTRUCTOR_ERRORS, pass-through classes, fallback type, shape of the
create_exception chain, the `[1:]` slice) + correspondence of the hand-written model
(createSourceMap / stackInsideMappedCode / daisy chaining / get_message / createException) with the real
code on generated programs + direct oracle (original traceback vs translated stack, type rule,
message, every source-map entry against an independent reading of the case source).
"""
import ast, json, multiprocessing, os, random, shutil, signal, sys, tempfile, time, traceback
import common
from common import sexp, parse_sexp
import c12_gen

MODEL_FILES = ['MaltModel/Rt/Errors.lean', 'MaltModel/Generated/Errors.lean', 'MaltModel/Proofs/C12SrcMap.lean',
               'MaltModel/Proofs/C12Stack.lean', 'MaltModel/Proofs/C12Check.lean', 'MaltModel/Drv/C12.lean']
CORPUS = os.path.join(common.VERIF, 'corpus', 'C12')

STACK_CLASSES = ['reentered_conversion', 'foreign_key_hit', 'site_in_lambda', 'unwrapped_generated_code']   # order of c12.classes' answer


# ------------------------------------------------------------------------------------------------
# workers
# ------------------------------------------------------------------------------------------------
_W = {}


def _worker_init(repo, base=None):
    sys.path.insert(0, repo)
    d = tempfile.mkdtemp(prefix='c12w_', dir=base)   # inside the parent's scratch directory, which the parent removes
    tempfile.tempdir = d           # malt's loader writes its generated modules here
    _W['dir'] = d
    import c12_real
    c12_real.install()


class _CaseTimeout(BaseException):
    pass


def _on_alarm(signum, frame):
    raise _CaseTimeout()


def _worker_run(job):
    import c12_real
    idx, case, want_corr = job
    if 'dir' not in _W:
        _worker_init(common.REPO)
    try:
        if 'spec' in case and 'src' not in case:
            built = c12_gen.build(case['spec'], case['tag'])
        else:
            built = {'src': case['src'], 'entry': case['entry'], 'args': case['args'], 'fn_conv': case.get('fn_conv', {}), 'wraps': case.get('wraps', []),
                     'entry_file': case.get('entry_file'), 'helper_file': case.get('helper_file'), 'helper_src': case.get('helper_src'),
                     'helper_names': case.get('helper_names'),
                     'recursive': case.get('recursive', True)}
        signal.signal(signal.SIGALRM, _on_alarm)
        signal.alarm(120)            # a case that does not terminate is a semantic divergence (C01's domain), not a hang of the check
        try:
            res = c12_real.analyse_case(built, _W['dir'], case['tag'], want_corr)
        except _CaseTimeout:
            res = {'status': 'timeout', 'fails': [], 'corr': [], 'stats': {}}
        finally:
            signal.alarm(0)
        res['src'] = built['src']; res['entry'] = built['entry']; res['args'] = built['args']; res['fn_conv'] = built.get('fn_conv', {})
        res['recursive'] = built.get('recursive', True); res['wraps'] = built.get('wraps', [])
        for k in ('entry_file', 'helper_file', 'helper_src', 'helper_names'):
            res[k] = built.get(k)
        return idx, res
    except Exception:
        return idx, {'status': 'harness-error', 'error': traceback.format_exc()[-1500:], 'fails': [], 'corr': [], 'stats': {}}


def _pool_finalize():
    d = _W.get('dir')
    if d:
        shutil.rmtree(d, ignore_errors=True)


# ------------------------------------------------------------------------------------------------
# case lists
# ------------------------------------------------------------------------------------------------
def sweep_specs(rng):
    """Every context, form, failure kind and link at least once (depth 1-2), before the random stream."""
    out = []

    def leaf(kind=None, form=None, ctxs=()):
        if kind is None:
            kind = rng.choice(sorted(c12_gen.EXPR_KINDS))
        if kind in c12_gen.RAISE_KINDS:
            form = 'stmt'
        elif form is None:
            form = rng.choice(c12_gen.FORMS)
        return {'contexts': list(ctxs), 'fillers': rng.random() < 0.7, 'sub': rng.randrange(1 << 30), 'kind': kind, 'form': form}

    def caller(link, form=None, ctxs=()):
        return {'contexts': list(ctxs), 'fillers': rng.random() < 0.7, 'sub': rng.randrange(1 << 30), 'link': link,
                'form': form or rng.choice(c12_gen.FORMS)}
    for ctx in sorted(set(c12_gen.CONTEXTS)):
        out.append({'fns': [leaf(ctxs=[ctx])], 'x': 2})
        out.append({'fns': [caller('direct', ctxs=[ctx]), leaf()], 'x': 3})
    for form in c12_gen.FORMS:
        out.append({'fns': [leaf(kind='ZeroDivisionError', form=form)], 'x': 2})
        out.append({'fns': [caller('direct', form=form), leaf(kind='raise-U')], 'x': 2})
    for kind in sorted(c12_gen.RAISE_KINDS) + sorted(c12_gen.EXPR_KINDS):
        out.append({'fns': [leaf(kind=kind, form='assign')], 'x': 1})
        out.append({'fns': [caller('direct', form='assign'), leaf(kind=kind, form='return')], 'x': 1})
    for kind in sorted(c12_gen.BLOCK_KINDS):
        for ctxs in ([], ['for'], ['if', 'while-continue']):
            out.append({'fns': [{'contexts': ctxs, 'fillers': True, 'sub': rng.randrange(1 << 30), 'kind': kind, 'form': 'block'}], 'x': 2})
        out.append({'fns': [caller('direct', form='assign'),
                            {'contexts': [], 'fillers': False, 'sub': rng.randrange(1 << 30), 'kind': kind, 'form': 'block'}], 'x': 2})
    # separately converted callees (own malt.convert wrapper / to_graph output): at the leaf, in the middle, several,
    # mixed with plain and unconverted links, under a recursive and a non-recursive entry point
    patterns = [('wrapped',), ('direct', 'wrapped'), ('wrapped', 'direct'), ('wrapped', 'wrapped'), ('direct', 'wrapped', 'wrapped'),
                ('wrapped', 'direct', 'wrapped'), ('map', 'wrapped'), ('dnc', 'wrapped'), ('wrapped', 'map'), ('wrapped-nonrec', 'direct'),
                ('direct', 'wrapped-nonrec', 'direct'), ('wrapped', 'wrapped-nonrec'), ('method', 'wrapped'), ('lambda', 'wrapped'),
                ('tograph',), ('direct', 'tograph'), ('tograph', 'direct'), ('wrapped', 'tograph')]
    for pat in patterns:
        for rec in (True, False):
            for kind in ('raise-ValueError', 'raise-KeyError', 'raise-U2', 'raise-U', 'ZeroDivisionError'):
                fns = [caller(l, form=rng.choice(['assign', 'return', 'augassign', 'expr']),
                              ctxs=[rng.choice(sorted(set(c12_gen.CONTEXTS)))] if rng.random() < 0.5 else []) for l in pat]
                fns.append(leaf(kind=kind, form='assign'))
                out.append({'fns': fns, 'x': 2, 'recursive': rec})
    # exception translation: a link catches the failure of the chain below it and raises a different exception - at every
    # position of the chain, in every mode, over converted / separately wrapped / to_graph / unconverted links below
    below_links = ['direct', 'wrapped', 'wrapped-nonrec', 'tograph', 'dnc', 'map', 'method', 'partial']
    tk = c12_gen.TRANSLATE_KINDS
    n = 0
    for mode in sorted(set(c12_gen.TRANSLATE_MODES)):
        for below in below_links:
            for depth, pos in ((2, 0), (3, 0), (3, 1), (4, 1), (4, 2)):
                for rec in ((True, False) if below in ('direct', 'wrapped') else (True,)):
                    n += 1
                    fns = []
                    for i in range(depth - 1):
                        link = below if i == pos else rng.choice(['direct', 'direct', 'wrapped', 'method', 'lambda'])
                        fn = caller(link, form=rng.choice(['assign', 'return', 'augassign', 'expr', 'callarg']),
                                    ctxs=[rng.choice(sorted(set(c12_gen.CONTEXTS)))] if rng.random() < 0.4 else [])
                        if i == pos:
                            catch = 'Exception' if n % 3 else rng.choice(['KeyError', 'ValueError', 'Exception', '(KeyError, ValueError, U)'])
                            fn['translate'] = {'mode': mode, 'kind': tk[(n * 7) % len(tk)], 'catch': catch}
                        fns.append(fn)
                    fns.append(leaf(kind=rng.choice(['raise-KeyError', 'raise-ValueError', 'raise-U', 'KeyError', 'ZeroDivisionError', 'raise-U2']),
                                    form='assign'))
                    out.append({'fns': fns, 'x': 2, 'recursive': rec})
    # two translating links, one above the other
    for mode_a, mode_b in (('plain', 'plain'), ('from-none', 'plain'), ('plain', 'finally'), ('from-other', 'from-none')):
        fa = caller('direct', form='assign'); fa['translate'] = {'mode': mode_a, 'kind': 'raise-RuntimeError', 'catch': 'Exception'}
        fb = caller('wrapped', form='assign'); fb['translate'] = {'mode': mode_b, 'kind': 'raise-KeyError', 'catch': 'Exception'}
        out.append({'fns': [fa, fb, leaf(kind='raise-ValueError')], 'x': 2})
        out.append({'fns': [caller('direct', form='return'), fa, fb, leaf(kind='ZeroDivisionError', form='assign')], 'x': 2, 'recursive': True})
    # file names of the user modules: every name once as a single-file program, and as the helper module holding the
    # unconverted tail of a chain (non-recursive entry; do_not_convert callee; builtin calling back)
    for fname in c12_gen.FILE_NAMES:
        out.append({'fns': [caller('direct', form='assign'), leaf(kind='raise-ValueError')], 'x': 2, 'files': {'entry': fname}})
        other = c12_gen.FILE_NAMES[(c12_gen.FILE_NAMES.index(fname) + 7) % len(c12_gen.FILE_NAMES)]
        out.append({'fns': [caller('direct', form='assign', ctxs=['for']), leaf(kind='KeyError', form='assign')], 'x': 2, 'recursive': False,
                    'files': {'entry': other, 'helper': fname, 'split': 1}})
        out.append({'fns': [caller('direct', form='return'), caller('dnc', form='assign'), caller('direct', form='augassign'),
                            leaf(kind='raise-U')], 'x': 2, 'files': {'entry': 'main prog.py', 'helper': fname, 'split': rng.choice([2, 3])}})
        out.append({'fns': [caller('map', form='assign'), leaf(kind='ZeroDivisionError', form='return')], 'x': 2,
                    'files': {'entry': fname, 'helper': 'sub/' + fname, 'split': 1}})
    for link in sorted(set(c12_gen.LINKS)) + sorted(c12_gen.EXTRA_LINKS):
        out.append({'fns': [caller(link, form='assign'), leaf(kind='KeyError', form='assign')], 'x': 2})
        out.append({'fns': [caller('direct', form='expr'), caller(link, form='return'), leaf(kind='raise-ValueError')], 'x': 2})
    return out


def load_corpus():
    out = []
    if os.path.isdir(CORPUS):
        for fn in sorted(os.listdir(CORPUS)):
            if fn.endswith('.json'):
                with open(os.path.join(CORPUS, fn)) as f:
                    c = json.load(f)
                c['corpus'] = fn
                out.append(c)
    return out


# ------------------------------------------------------------------------------------------------
# create_exception table (every builtin exception class + a zoo of user classes)
# ------------------------------------------------------------------------------------------------
def exception_zoo():
    import builtins
    from malt.impl import api
    from malt.pyct import errors
    zoo = []
    for n in sorted(dir(builtins)):
        T = getattr(builtins, n)
        if isinstance(T, type) and issubclass(T, Exception) and T.__name__ == n:
            zoo.append(T)
    ns = {'__name__': 'c12zoo'}
    exec(c12_gen.PRELUDE.replace('@TAG@', 'zoo'), ns)
    zoo += [ns[k] for k in ('U', 'Usub', 'Udoc', 'U2', 'U3', 'U4', 'W', 'WK', 'Never')]
    zoo += [ns[k] for k in c12_gen.CTOR_CLASSES]
    exec('''
class M1(U, ValueError):
    pass
class M2(ValueError, U):
    pass
class M3(U2, TypeError):
    pass
class Z1(ZeroDivisionError):
    pass
class Z2(Z1):
    def __init__(self, *a):
        super().__init__(*a)
class Z3(Z2):
    pass
class N1(Exception):
    def __new__(cls, *a):
        return super().__new__(cls, *a)
class S1(Exception):
    def __str__(self):
        return 'custom str'
class E2(Exception):
    def __init__(self, msg='default'):
        super().__init__(msg)
''', ns)
    zoo += [ns[k] for k in ('M1', 'M2', 'M3', 'Z1', 'Z2', 'Z3', 'N1', 'S1', 'E2')]
    zoo += [errors.PyCTError, api.AutoGraphError, api.ConversionError, api.StagingError,
            errors.UnsupportedLanguageElementError, errors.InaccessibleSourceCodeError]
    return zoo


def instantiate(T):
    for args, kw in ((('msg',), {}), (('msg', 2), {}), (('utf-8', b'x', 0, 1, 'r'), {}), (('utf-8', 'x', 0, 1, 'r'), {}), ((), {}),
                     ((), {'detail': 'd'})):
        try:
            return T(*args, **kw)
        except Exception:
            continue
    return None


# ------------------------------------------------------------------------------------------------
def check(run):
    import c12_real
    quick = run.tier == 'quick'
    run.rule = ('a case is a module with ONE failing statement: call chain f1..fd (d<=4), each link one of %d kinds (converted: direct / '
                'partial / lambda / comprehension / nested def / method / lambda bound on its own line / self-recursion / callee separately '
                'converted by its own malt.convert wrapper (recursive or not) or as a to_graph output; unconverted: '
                'do_not_convert / map / sorted / max(key=)), the site statement in one of %d forms (assignment, augmented, expression, return, '
                'if/elif/while/for/with header, and/or/not/compare operand, conditional-expression arm, call argument, comprehension element, '
                'tuple and subscript targets) inside 0-3 of %d contexts (if/else/elif, while/for with continue/break/return around it, '
                'try/except/else/finally bodies, with, after loops, after an early-return guard, nested def), failing with one of %d kinds '
                '(explicit raise of builtin / user classes with and without custom constructors, failing builtins, '
                'Key/Index/ZeroDivision/Type/Attribute/Name/UnboundLocal/StopIteration/Overflow errors); sweep of every single dimension '
                'value + seeded random stream; non-trivial = both runs raise, the entry point was converted; distinct = '
                '(links, forms, contexts, kind) signature'
                % (len(set(c12_gen.LINKS)) + len(c12_gen.EXTRA_LINKS), len(c12_gen.FORMS), len(set(c12_gen.CONTEXTS)),
                   len(c12_gen.RAISE_KINDS) + len(c12_gen.EXPR_KINDS) + len(c12_gen.BLOCK_KINDS)))
    run.assumptions += [
        'the traceback CPython produces for generated code (frame order, one frame per activation, file/line/name of each frame) '
        'is an input of the model; its shape for converted call chains (ConvLevel: pre ++ site ++ post) is validated on every case '
        'through the chain correspondence, not proved',
        'origin inheritance through the 13 converter passes (C12_srcmap\'s hypothesis: every annotated node of a generated line carries '
        'the origin of the statement the line was generated from) is checked on the real transformed trees, not derived from a model of the passes',
        'CPython resolves T.__init__ along the MRO and every builtin exception type has its own __init__ slot wrapper (ExcType.wf, '
        'checked on every builtin exception class and the class zoo on each run)',
        'the recording wrappers around origin_info.create_source_map and error_utils._stack_trace_inside_mapped_code forward to the '
        'functions of the tree under test unchanged',
    ]
    run.translate(['Errors'])
    run.build_and_audit('MaltModel.Props.C12', model_files=MODEL_FILES)

    corpus = load_corpus()
    cases = []
    for c in corpus:
        cases.append(dict(c, tag='k%d' % len(cases)))
    sweep = sweep_specs(random.Random(run.seed * 1000003 + 17))
    for s in sweep:
        cases.append({'spec': s, 'tag': 'k%d' % len(cases)})
    n_random = 900 if quick else 6000
    for _ in range(n_random):
        cases.append({'spec': c12_gen.random_spec(run.rng), 'tag': 'k%d' % len(cases)})
    # a slice of the same cases run again with the temp directory behind a symbolic link
    link_src = [c for c in cases if 'corpus' in c and c['corpus'].startswith(('ctor_', 'multi_'))] + \
               [c for k, c in enumerate(cases[len(corpus):len(corpus) + len(sweep)]) if k % 9 == 0] + \
               cases[len(corpus) + len(sweep):][:(40 if quick else 300)]
    n_link = 0
    for c in link_src:
        c2 = {k: v for k, v in c.items() if k != 'corpus'}
        cases.append(dict(c2, tag='k%d' % len(cases), symlink=True))
        n_link += 1
    run.cov['symlinked_tempdir_cases'] = n_link
    corr_every = 1 if quick else 3        # correspondence requests for every case (quick) / every third (thorough)
    process(run, cases, corr_every, full=True)
    run.cov.update({'corpus_cases': len(corpus), 'sweep_cases': len(sweep), 'random_cases': n_random,
        'search': 'direct oracle on %d cases (corpus %d + single-dimension sweep %d + random %d): original traceback vs translated stack, '
                  'type rule, message, every source-map entry' % (len(cases), len(corpus), len(sweep), n_random)})


def process(run, cases, corr_every=1, full=True):
    """Run the cases on the real code, aggregate the direct oracle, run the correspondence and the
    verified checker through the driver, classify the failing inputs."""
    import c12_real
    jobs = [(i, c, (i % corr_every == 0) or ('corpus' in c)) for i, c in enumerate(cases)]

    nproc = min(12, os.cpu_count() or 2)
    ctx = multiprocessing.get_context('fork')
    t0 = time.time()
    base = tempfile.mkdtemp(prefix='c12_')
    try:
        results = [None] * len(jobs)
        plain = [j for j in jobs if not j[1].get('symlink')]
        linked = [j for j in jobs if j[1].get('symlink')]
        with ctx.Pool(nproc, initializer=_worker_init, initargs=(common.REPO, base)) as pool:
            for idx, res in pool.imap_unordered(_worker_run, plain, chunksize=8):
                results[idx] = res
        if linked:
            # the same oracle with the temp directory (user modules AND malt's generated modules) reached through a
            # symbolic link: file names in source maps and in tracebacks must still be the same spelling
            os.mkdir(os.path.join(base, 'real'))
            os.symlink('real', os.path.join(base, 'link'))
            with ctx.Pool(min(4, nproc), initializer=_worker_init, initargs=(common.REPO, os.path.join(base, 'link'))) as pool:
                for idx, res in pool.imap_unordered(_worker_run, linked, chunksize=4):
                    results[idx] = res
    finally:
        shutil.rmtree(base, ignore_errors=True)
    run.cov['case_wall_s'] = round(time.time() - t0, 1)

    # ---------------- aggregate the direct oracle ----------------
    status, type_map, oracle_fail = {}, {}, {}
    stats = {'maps': 0, 'entries': 0, 'multi_origin_lines': 0, 'orig_stmt_lines': 0, 'orig_stmt_lines_unmapped': 0}
    depth_hist, unit_hist = {}, {}
    dims = {'context': {}, 'form': {}, 'kind': {}, 'link': {}}
    corr_lines, pending = [], []
    harness_errors = []
    for (i, case, _), res in zip(jobs, results):
        status[res['status']] = status.get(res['status'], 0) + 1
        if res['status'] == 'harness-error':
            harness_errors.append(res['error'])
            continue
        spec = case.get('spec')
        sig = c12_gen.describe(spec) if spec else case.get('corpus', 'src')
        if case.get('symlink'):
            sig = 'symlinked-tmp: ' + sig
        nontriv = res['status'] == 'ok'
        run.case(sig, nontriv)
        if nontriv and spec:
            for fn in spec['fns']:
                for cx in fn['contexts'] or ['-']:
                    dims['context'][cx] = dims['context'].get(cx, 0) + 1
                dims['form'][fn['form']] = dims['form'].get(fn['form'], 0) + 1
                if 'kind' in fn:
                    dims['kind'][fn['kind']] = dims['kind'].get(fn['kind'], 0) + 1
                else:
                    dims['link'][fn['link']] = dims['link'].get(fn['link'], 0) + 1
        s = res['stats']
        for k in stats:
            stats[k] += s.get(k, 0)
        if 'type' in s:
            type_map[s['type']] = type_map.get(s['type'], 0) + 1
            depth_hist[s['depth']] = depth_hist.get(s['depth'], 0) + 1
            unit_hist['%d/%d' % (s['conv_units'], s['units'])] = unit_hist.get('%d/%d' % (s['conv_units'], s['units']), 0) + 1
        if len(run.samples) < 4 and nontriv and spec and len(spec['fns']) >= 2 and i % 7 == 0:
            run.sample({'case': sig, 'source_tail': res['src'].split('return fn(x)')[-1][-700:], 'outcome': s.get('type'), 'units': s.get('units')})
        for f in res['fails']:
            if case.get('symlink'):
                f = dict(f, what='[temp directory reached through a symbolic link] ' + f['what'])
            pending.append((i, case, res, f))
        for c in res['corr']:
            corr_lines.append((i, c))
    if harness_errors:
        raise common.InfraError('harness error in %d cases, first:\n%s' % (len(harness_errors), harness_errors[0]))

    # the generators must actually reach the code under test
    n_ok = status.get('ok', 0)
    if full:
        run.oblige('coverage:cases-reach-converted-code', 'coverage', n_ok >= 0.8 * len(jobs),
                   'only %d of %d cases raised in both runs with the expected functions converted: %s' % (n_ok, len(jobs), status))

    # ---------------- correspondence ----------------
    classes_by_case, checks_by_case = {}, {}
    if run.driver_ok:
        known = parse_sexp(run.drive(['c12.known'])[0])
        from malt.pyct import error_utils
        real_known = [T.__name__ for T in error_utils.KNOWN_STRING_CONSTRUCTOR_ERRORS]
        run.oblige('correspondence:KNOWN_STRING_CONSTRUCTOR_ERRORS', 'correspondence', known == real_known,
                   'translator %s vs runtime %s' % (known, real_known))
        tables = parse_sexp(run.drive(['c12.tables'])[0])
        run.oblige('translator:create_exception-chain-as-modelled', 'translator', tables[2] == 'True' and tables[3] == '1'
                   and tables[1] == 'StagingError', str(tables))
        # class predicates for every case that failed a stack oracle, and for the corpus
        creq = [(i, res['class_req']) for (i, case, _), res in zip(jobs, results) if res.get('class_req')]
        answers = run.drive([r for _, r in creq]) if creq else []
        dis = []
        for (i, _), ans in zip(creq, answers):
            got = [a == 'True' for a in parse_sexp(ans)] if ans.startswith('(') else None
            classes_by_case[i] = got
            run.evaluations += 1
            if got != results[i]['py_classes']:
                dis.append({'case': i, 'model': ans, 'harness': results[i]['py_classes']})
        run.oblige('correspondence:c12.classes', 'correspondence', not dis, json.dumps(dis[:3]))
        # verified checker: hypotheses and conclusion of C12_stack_partial on every recorded run
        chk = [(i, res['check_req']) for (i, case, _), res in zip(jobs, results) if res.get('check_req')]
        answers = run.drive([r for _, r in chk]) if chk else []
        tally = {'decomposed': 0, 'hypotheses_hold': 0, 'conclusion_holds': 0}
        bad_checker, disagree = [], []
        for (i, req), ans in zip(chk, answers):
            a = [x == 'True' for x in parse_sexp(ans)] if ans.startswith('(') else [False]
            run.evaluations += 1
            checks_by_case[i] = a
            if not a[0]:
                continue
            tally['decomposed'] += 1
            tally['hypotheses_hold'] += a[5]
            tally['conclusion_holds'] += a[6]
            if a[5] and not a[6]:
                bad_checker.append(i)
            if a[5] and a[6] != results[i]['stack_ok']:
                disagree.append({'case': cases[i].get('spec') or cases[i].get('corpus'), 'lean_conclusion': a[6], 'python_oracle': results[i]['stack_ok']})
        run.oblige('checker:C12_stack_partial-on-recorded-runs', 'checker', not bad_checker,
                   'recorded runs satisfying the hypotheses whose real translated stack fails the conclusion: %s'
                   % [cases[i].get('spec') or cases[i].get('corpus') for i in bad_checker[:3]])
        run.oblige('correspondence:stack-oracle-vs-lean-conclusion', 'correspondence', not disagree, json.dumps(disagree[:3]))
        run.cov['stack_checker'] = dict(tally, runs=len(chk))
        for i in bad_checker:
            if results[i]['stack_ok']:
                res = results[i]
                pending.append((i, cases[i], res, {'what': 'the real translated stack fails the conclusion of C12_stack_partial although its hypotheses hold',
                                                   'cls': None, 'oracle': 'stack-checker'}))
        # model vs real
        answers = run.drive([c[1] for _, c in corr_lines]) if corr_lines else []
        dis = {}
        counts = {}
        for (i, (op, req, exp)), ans in zip(corr_lines, answers):
            run.evaluations += 1
            counts[op] = counts.get(op, 0) + 1
            if op == 'create':
                a = parse_sexp(ans) if ans.startswith('(') else [ans]
                ok = a[0] == exp and len(a) == 4 and a[1] == 'True'
            elif op == 'rewrites':
                a = parse_sexp(ans) if ans.startswith('(') else [ans]
                ok = sexp(a[:2]) == exp
            else:
                ok = ans == exp
            if not ok:
                dis.setdefault(op, []).append({'case': cases[i].get('spec') or cases[i].get('corpus'), 'request': req[:600],
                                               'implementation': exp[:600], 'model': ans[:600]})
        for op in ('srcmap', 'foreignkey', 'stack', 'chain', 'message', 'create', 'rewrites', 'events'):
            run.oblige('correspondence:c12.' + op, 'correspondence', not dis.get(op), json.dumps(dis.get(op, [])[:2]))
        run.cov['correspondence_lines'] = counts
        if corr_lines:
            i, (op, req, exp) = corr_lines[len(corr_lines) // 2]
            run.sample({'request': req[:400], 'implementation': exp[:300], 'model': answers[len(corr_lines) // 2][:300]})
        # the two origin-propagation primitives (Base.visit inheritance, copy_origin) on random node trees
        if full:
            import c12_origin
            prim = c12_origin.requests(random.Random(run.seed * 7919 + 5), 400 if run.tier == 'quick' else 3000)
            got = run.drive([r for _, r, _ in prim])
            pdis = {}
            for (op, req, exp), ans in zip(prim, got):
                run.evaluations += 1
                if ans != exp:
                    pdis.setdefault(op, []).append({'request': req[:500], 'implementation': exp[:300], 'model': ans[:300]})
            for op in ('inherit', 'copyorigin'):
                run.oblige('correspondence:c12.' + op, 'correspondence', not pdis.get(op), json.dumps(pdis.get(op, [])[:2]))
            run.cov['origin_primitive_requests'] = len(prim)
        # exhaustive table of create_exception over a class zoo
        zoo = exception_zoo() if full else []
        from malt.impl import api
        lines, exp, names = [], [], []
        for T in zoo:
            e0 = instantiate(T)
            if e0 is None:
                continue
            md = api._ErrorMetadata([], None, 'T: msg', {}, api.__file__)
            try:
                e1 = md.create_exception(e0)
                kind = c12_real.created_kind(T, e1)
            except Exception as ex:      # noqa
                kind = 'raises:' + type(ex).__name__
            f = c12_real.type_facts(T)
            lines.append('c12.create ' + sexp(list(f))); exp.append(kind); names.append(T.__name__)
        got = run.drive(lines) if lines else []
        bad, notwf = [], []
        for n, l, e, g in zip(names, lines, exp, got):
            run.evaluations += 1
            a = parse_sexp(g) if g.startswith('(') else [g]
            if a[0] != e:
                bad.append({'type': n, 'facts': l, 'implementation': e, 'model': g})
            if len(a) == 4 and a[1] != 'True':
                notwf.append({'type': n, 'facts': l})
        run.oblige('correspondence:c12.create-table', 'correspondence', not bad, json.dumps(bad[:4]))
        run.oblige('facts:ExcType.wf-holds-of-every-class', 'correspondence', not notwf, json.dumps(notwf[:4]))
        run.cov['create_table_rows'] = len(lines)
    else:
        run.oblige('correspondence:c12', 'correspondence', False, 'driver unavailable')

    # ---------------- classify failing inputs ----------------
    seen = set()
    for i, case, res, f in pending:
        cls = f['cls']
        if cls == 'PENDING-STACK':
            a = checks_by_case.get(i)
            if a and a[0]:
                # the first hypothesis of C12_stack_partial that fails on this run (KeysInGen, BelowForeign, SiteResolved's name part)
                cls = ('foreign_key_hit' if not a[1] else 'reentered_conversion' if not a[2]
                       else 'site_in_lambda' if (a[3] and not a[4]) else None)
            else:
                flags = classes_by_case.get(i) or res.get('py_classes') or [False, False, False, False]
                cls = next((STACK_CLASSES[k] for k in [3, 1, 0, 2] if flags[k]), None)
        elif cls == 'PENDING-FOREIGN':
            cls = 'srcmap_key_outside_generated_file'
        run.cov.setdefault('failing_by_class', {})
        run.cov['failing_by_class'][str(cls)] = run.cov['failing_by_class'].get(str(cls), 0) + 1
        oracle_fail[f['oracle']] = oracle_fail.get(f['oracle'], 0) + 1
        key = (f['oracle'], cls) if cls is not None else (f['oracle'], f['what'][:80])
        if key in seen or len(seen) > 40:
            continue          # one recorded witness per (oracle, class); the rest is counted above
        seen.add(key)
        run.fail(f['what'], {'src': res['src'], 'entry': res['entry'], 'args': res['args'], 'fn_conv': res['fn_conv'], 'recursive': res.get('recursive', True), 'wraps': res.get('wraps', []), 'symlink': bool(case.get('symlink')),
                             'entry_file': res.get('entry_file'), 'helper_file': res.get('helper_file'), 'helper_src': res.get('helper_src'), 'helper_names': res.get('helper_names'),
                             'spec': case.get('spec'), 'oracle': f['oracle'], 'corpus': case.get('corpus')}, cls)

    # a listed finding whose class was not observed is reported in the evidence (a fix in /repo makes the listing stale;
    # that is not a violation of the property)
    listed = [k for k in common.load_known_findings() if k.get('property') == 'C12' and k.get('status', 'open') == 'open']
    hit = set(f.get('cls') for f in run.failing)
    stale = [k['id'] for k in (listed if full else []) if k['class'] not in hit]
    if stale:
        run.notes.append('listed known findings whose class was NOT observed in this run (fixed in the tree under test?): %s' % stale)
    run.cov['known_findings_not_reproduced'] = stale

    run.cov.update({
        'case_status': status, 'type_outcomes': type_map, 'traceback_depth_user_frames': depth_hist,
        'converted_units/units': unit_hist, 'source_maps_checked': stats['maps'], 'source_map_entries_checked': stats['entries'],
        'generated_lines_with_several_origin_lines': stats['multi_origin_lines'],
        'original_statement_lines': stats['orig_stmt_lines'], 'original_statement_lines_unmapped': stats['orig_stmt_lines_unmapped'],
        'dimension_coverage': {k: dict(sorted(v.items())) for k, v in dims.items()},
        'oracle_failures_by_kind': oracle_fail, 'exhaustive': False,
    })
    return results


def replay(run, path):
    """Re-run model and implementation on one recorded case (a replay file or a corpus file)."""
    with open(path) as f:
        rep = json.load(f)
    case = rep.get('case', rep)
    case = {k: v for k, v in case.items() if k in ('src', 'entry', 'args', 'fn_conv', 'spec', 'recursive', 'symlink', 'wraps', 'entry_file', 'helper_file', 'helper_src', 'helper_names') and v is not None}
    if 'src' not in case:
        case = {'spec': case['spec'], 'symlink': case.get('symlink', False)}
    run.translate(['Errors'])
    run.build_and_audit('MaltModel.Props.C12', model_files=MODEL_FILES)
    results = process(run, [dict(case, tag='replay')], 1, full=False)
    res = results[0]
    print(json.dumps({'status': res['status'], 'oracle': res['fails'], 'stats': res['stats'],
                      'source': res.get('src', '').split('return fn(x)')[-1][-1500:]}, indent=1, default=str))
    return run.finish()
