"""C04 dynamic count oracle: operator invocations of the converted function vs construct executions of the original.

ORIGINAL side — `instrument(source_of_f, builtins_on)` rewrites the function so that it behaves identically but counts,
at exactly the moment the corresponding operator would be entered:
  if      `if T:`            -> `if _c04_t('if', T):`                 (after the test was evaluated; `elif` = nested if)
  while   `while T:`         -> `_c04_c('while')` statement before it  (one per loop statement execution)
  for     `for x in I:`      -> `for x in _c04_t('for', I):`           (after the iterable was evaluated, once)
  and/or  `a and b and c`    -> `_c04_a() and a and _c04_a() and b and c`  (`_c04_a()` is True: one count per evaluated
                                non-last operand = one `and_` per link entered); `or` with `_c04_o()` (False)
  not     `not x`            -> `not _c04_t('not', x)`
  ifexp   `b if T else c`    -> `b if _c04_t('ifexp', T) else c`
  a<b<=c  n-1 implicit links -> `_c04_n('and', n-1) and (a < b <= c)`   (the converter joins the n comparisons by n-1 `and_`)
  call    `f(args)`          -> `_c04_cc(f)(args)`                     (counted when the call is made, after callee and
                                arguments were evaluated, like `converted_call`)
NOT counted, because the property exempts them / they are not user constructs of the converted entity:
  calls anywhere inside with-items; `print(...)` when BUILTIN_FUNCTIONS is off; `pdb.set_trace()`, `ipdb.set_trace()`,
  `breakpoint()`; directive statements `…set_loop_options(...)` (removed by the converter; calls in their ARGUMENTS are the
  subject of known finding C04-directive-arg-call and are not counted here); decorators of the converted function itself;
  comprehension `for`/`if` clauses (not statements); `==`/`!=`.

CONVERTED side — `Counter.patch(agmod)` wraps `if_stmt/while_stmt/for_stmt/and_/or_/not_/if_exp/converted_call` of the `ag__`
module object the converted function closes over (a fresh one per harness transpiler, so functions converted on the fly by
`converted_call` through the global transpiler are not counted — they are not instrumented on the original side either).

Compared (only on runs where original, instrumented original and converted function all finish with the same outcome, which
is a normal return or an explicit E1/E2):  for every kind  ops >= executions  (an unrouted construct shows as ops < executions);
`while` and `for` additionally  ops == executions  (no pass adds or duplicates loops).  The jump lowering adds guards
(`if not do_return`, `while not break_ and …`) and `visit_Compare` duplicates the middle operands of a comparison chain
(C01 finding `chained_comparison_effectful_middle_operand`) with everything in them, so the expression kinds and `if` may
legitimately exceed.
"""
import ast

KINDS = ['if', 'while', 'for', 'and', 'or', 'not', 'ifexp', 'call']
OPS = {'if_stmt': 'if', 'while_stmt': 'while', 'for_stmt': 'for', 'and_': 'and', 'or_': 'or', 'not_': 'not',
       'if_exp': 'ifexp', 'converted_call': 'call',
       # under Feature.LISTS `l.append(x)` / `l.pop()` / `l.stack()` are routed through these operators instead
       'list_append': 'call', 'list_pop': 'call', 'list_stack': 'call'}
EXACT = ('while', 'for')
DEBUGGERS = ('pdb.set_trace', 'ipdb.set_trace', 'breakpoint')


class Counter(object):
    def __init__(self):
        self.n = dict.fromkeys(KINDS, 0)

    def reset(self):
        for k in self.n:
            self.n[k] = 0

    def snapshot(self):
        return dict(self.n)

    # -------- original side helpers (installed into the program module's globals)
    def install(self, mod):
        n = self.n

        def c(kind):
            n[kind] += 1

        def t(kind, v):
            n[kind] += 1
            return v

        def a():
            n['and'] += 1
            return True

        def o():
            n['or'] += 1
            return False

        def nn(kind, k):
            n[kind] += k
            return True

        def cc(f):
            def call(*args, **kw):
                n['call'] += 1
                return f(*args, **kw)
            return call
        mod._c04_c, mod._c04_t, mod._c04_a, mod._c04_o, mod._c04_n, mod._c04_cc = c, t, a, o, nn, cc

    # -------- converted side
    def unpatch(self):
        for agmod, name, orig in getattr(self, '_saved', []):
            setattr(agmod, name, orig)
        self._saved = []

    def patch(self, agmod):
        n = self.n
        self._saved = getattr(self, '_saved', [])
        for name, kind in OPS.items():
            orig = getattr(agmod, name)
            self._saved.append((agmod, name, orig))

            def make(orig, kind):
                def w(*args, **kw):
                    n[kind] += 1
                    return orig(*args, **kw)
                return w
            setattr(agmod, name, make(orig, kind))


def _name(s):
    return ast.Name(id=s, ctx=ast.Load())


def _call(fn, *args):
    return ast.Call(func=_name(fn), args=list(args), keywords=[])


def _qn(e):
    if isinstance(e, ast.Name):
        return e.id
    if isinstance(e, ast.Attribute):
        b = _qn(e.value)
        return None if b is None else b + '.' + e.attr
    return None


class _Instr(ast.NodeTransformer):
    def __init__(self, builtins_on):
        self.builtins_on = builtins_on
        self.top = True

    def visit_FunctionDef(self, node):
        if self.top:
            self.top = False
            node.decorator_list = []          # dropped by the converter (applied by the caller, not converted)
        return self.generic_visit(node)

    def _block(self, stmts):
        out = []
        for s in stmts:
            r = self.visit(s)
            if isinstance(r, list):
                out.extend(r)
            elif r is not None:
                out.append(r)
        return out

    def visit_Expr(self, node):
        v = node.value
        if isinstance(v, ast.Call):
            q = _qn(v.func) or ''
            if q.endswith('set_loop_options') or q.endswith('set_element_type'):
                return node            # directive statement: untouched, uncounted
        return self.generic_visit(node)

    def visit_If(self, node):
        node = self.generic_visit(node)
        node.test = _call('_c04_t', ast.Constant('if'), node.test)
        return node

    def visit_While(self, node):
        node = self.generic_visit(node)
        return [ast.Expr(_call('_c04_c', ast.Constant('while'))), node]

    def visit_For(self, node):
        node = self.generic_visit(node)
        node.iter = _call('_c04_t', ast.Constant('for'), node.iter)
        return node

    def visit_With(self, node):
        # with-items are exempt for CALLS only; other constructs inside them are converted and counted
        keep = self._in_with if hasattr(self, '_in_with') else False
        self._in_with = True
        node.items = [self.visit(i) for i in node.items]
        self._in_with = keep
        node.body = self._block(node.body)
        return node

    def visit_BoolOp(self, node):
        node = self.generic_visit(node)
        helper = '_c04_a' if isinstance(node.op, ast.And) else '_c04_o'
        vals = []
        for v in node.values[:-1]:
            vals.append(_call(helper))
            vals.append(v)
        vals.append(node.values[-1])
        node.values = vals
        return node

    def visit_UnaryOp(self, node):
        node = self.generic_visit(node)
        if isinstance(node.op, ast.Not):
            node.operand = _call('_c04_t', ast.Constant('not'), node.operand)
        return node

    def visit_IfExp(self, node):
        node = self.generic_visit(node)
        node.test = _call('_c04_t', ast.Constant('ifexp'), node.test)
        return node

    def visit_Compare(self, node):
        node = self.generic_visit(node)
        if len(node.ops) > 1:
            return ast.BoolOp(op=ast.And(), values=[_call('_c04_n', ast.Constant('and'), ast.Constant(len(node.ops) - 1)), node])
        return node

    def visit_Call(self, node):
        q = _qn(node.func) or ''
        node = self.generic_visit(node)
        if getattr(self, '_in_with', False):
            return node
        if q in DEBUGGERS or (q == 'print' and not self.builtins_on) or q.startswith('_c04_') or q == 'super':
            return node
        node.func = _call('_c04_cc', node.func)
        return node

    def visit_Lambda(self, node):
        # a lambda body inside a with-item is still inside the with-item for the converter (items are not visited at all)
        return self.generic_visit(node)

    # statement lists in compound statements: While returns a list, so rebuild blocks explicitly
    def generic_visit(self, node):
        for field, old in ast.iter_fields(node):
            if isinstance(old, list):
                new = []
                for v in old:
                    if isinstance(v, ast.AST):
                        r = self.visit(v)
                        if r is None:
                            continue
                        if isinstance(r, list):
                            new.extend(r)
                            continue
                        v = r
                    new.append(v)
                old[:] = new
            elif isinstance(old, ast.AST):
                r = self.visit(old)
                if r is None:
                    delattr(node, field)
                else:
                    setattr(node, field, r)
        return node


def instrument(fsrc, builtins_on, new_name='_c04_f'):
    """Source of the instrumented copy of the LAST top-level statement (`def f` or `f = lambda …`) of `fsrc`."""
    tree = ast.parse(fsrc)
    target = tree.body[-1]
    ins = _Instr(builtins_on)
    if isinstance(target, ast.FunctionDef):
        new = ins.visit(target)
        new.name = new_name
    elif isinstance(target, ast.Assign) and isinstance(target.value, ast.Lambda):
        ins.top = False
        target.value = ins.visit(target.value)
        target.targets = [ast.Name(id=new_name, ctx=ast.Store())]
        new = target
    else:
        raise ValueError('cannot instrument %s' % type(target).__name__)
    m = ast.Module(body=[new], type_ignores=[])
    ast.fix_missing_locations(m)
    return ast.unparse(m)


def ag_module_of(converted):
    """The `ag__` module object the converted function closes over."""
    code = getattr(converted, '__code__', None)
    if code is None or not converted.__closure__:
        return None
    for name, cell in zip(code.co_freevars, converted.__closure__):
        if name == 'ag__':
            return cell.cell_contents
    return None
