"""C02 — functional (tracing) operator backends see complete state.

(i)   theorems: lean/MaltModel/Props/C02.lean (imports Props/C01Func.lean: control_flow_correct) — built and audited;
(ii)  direct oracle: a REAL tracing backend (c02_backend.py, injected through PyToPy.get_extra_locals) converts
      generated pure / total / definitely-assigned programs (c02_gen.py); the result is compared with the original
      on every input;
(iii) correspondence: on the programs of the shared fragment, the tree ControlFlowTransformer receives (with its real
      LIVE_VARS_IN/OUT, DEFINED_VARS_IN) and the real generated code (nonlocal lists, state tuples, nouts, Undefined
      pre-assignments, parsed out of the final tree) are sent to the Lean driver: `funcB` vs the real output,
      `Malt.Sem.exec` vs CPython on the original, `execN` vs the real default operators, `execF` vs the real tracing
      backend, the `_get_block_vars` mirror vs the real state tuples;
(iv)  the verified checkers of control_flow_correct's hypotheses (LiveConsistent, DeclB, DefB, HypFB) run on the REAL
      annotations; violations are reported as data.
Failing inputs are attributed to known findings only through class predicates computed from the program.
"""
import ast, json, os, sys, time

import common
import passes
import progen
import c02_backend as B
import c02_gen
from common import sexp, parse_sexp

MODEL_FILES = ['MaltModel/Func/Target.lean', 'MaltModel/Func/Functionalise.lean', 'MaltModel/Props/C01Func.lean',
               'MaltModel/Proofs/FuncBasic.lean', 'MaltModel/Proofs/FuncRestrict.lean', 'MaltModel/Proofs/FuncSim.lean', 'MaltModel/Proofs/FuncCheck.lean',
               'MaltModel/Proofs/FuncFBasic.lean', 'MaltModel/Proofs/FuncFSim.lean', 'MaltModel/Proofs/FuncBlockVars.lean',
               'MaltModel/Func/Wrapper.lean', 'MaltModel/Proofs/FuncWrapper.lean', 'MaltModel/Proofs/FuncWrapperF.lean',
               'MaltModel/Drv/C02.lean']
FUEL = 400
CLASSES = ['for_target_live_across_zero_trip',
           'nested_function_parameter_shadows_global', 'state_var_unbound_local_of_enclosing_body',
           'nonlocal_state_var_marked_input_only', 'nonlocal_in_closure_nested_two_levels',
           'stored_lambda_reads_reassigned_variable']


# ------------------------------------------------------------------------------------------------
# class predicates (computed from the program, never from the failure)
# ------------------------------------------------------------------------------------------------
def cls_param_shadows_global(fn_node, module_names):
    """A parameter of a nested def/lambda has the name of a module global that the enclosing function reads."""
    params = set()
    for n in ast.walk(fn_node):
        if isinstance(n, (ast.FunctionDef, ast.Lambda)) and n is not fn_node:
            a = n.args
            for x in a.posonlyargs + a.args + a.kwonlyargs + ([a.vararg] if a.vararg else []) + ([a.kwarg] if a.kwarg else []):
                params.add(x.arg)
    if not params:
        return False
    own_params = set(x.arg for x in fn_node.args.args)
    assigned = set()
    for n in ast.walk(fn_node):
        if isinstance(n, ast.Name) and isinstance(n.ctx, ast.Store):
            assigned.add(n.id)
    for n in ast.walk(fn_node):
        if isinstance(n, ast.Name) and isinstance(n.ctx, ast.Load) and n.id in params and n.id in module_names \
                and n.id not in assigned and n.id not in own_params:
            return True
    return False


def cls_nonlocal_input_only(source_fn):
    """Syntactic (the annotations vary with PYTHONHASHSEED since ccf3d44): a nested def declares `v` nonlocal/global and
    contains an `if` that assigns `v` in a branch and reads `v` in its test or branches (so `v` is live into the
    conditional; liveness inside that function does not know that `v` escapes, so it need not be live after it)."""
    def own_stmts(fn):
        stack = list(fn.body)
        while stack:
            s = stack.pop()
            yield s
            if isinstance(s, (ast.FunctionDef, ast.ClassDef)):
                continue
            for sub in ('body', 'orelse', 'finalbody'):
                b = getattr(s, sub, None)
                if isinstance(b, list):
                    stack.extend(x for x in b if isinstance(x, ast.stmt))
            if isinstance(s, ast.Try):
                for h in s.handlers:
                    stack.extend(h.body)
    for fn in ast.walk(source_fn):
        if not isinstance(fn, ast.FunctionDef) or fn is source_fn:
            continue
        decl = set()
        for s in own_stmts(fn):
            if isinstance(s, (ast.Nonlocal, ast.Global)):
                decl |= set(s.names)
        if not decl:
            continue
        for s in own_stmts(fn):
            if isinstance(s, ast.If):
                stores, loads = set(), set()
                for m in ast.walk(s):
                    if isinstance(m, ast.Name):
                        (stores if isinstance(m.ctx, ast.Store) else loads).add(m.id)
                    elif isinstance(m, ast.AugAssign) and isinstance(m.target, ast.Name):
                        loads.add(m.target.id)
                if decl & stores & loads:
                    return True
    return False


def _arg_names(args):
    out = [x.arg for x in list(getattr(args, 'posonlyargs', [])) + list(args.args) + list(args.kwonlyargs)]
    for x in (args.vararg, args.kwarg):
        if x is not None:
            out.append(x.arg)
    return set(out)


def _is_artifact_lambda(v):
    """`lambda ...` or `ag__.autograph_artifact(lambda ...)` (what the functions pass makes of a lambda inside a function)."""
    if isinstance(v, ast.Lambda):
        return v
    if isinstance(v, ast.Call) and B._is_ag(v.func, 'autograph_artifact') and len(v.args) == 1 and isinstance(v.args[0], ast.Lambda):
        return v.args[0]
    return None


class ScopeFacts(object):
    """Own-level facts of one function / lambda: loads, stores, nonlocal/global declarations, nested functions and lambdas,
    lambdas sitting in the default values of nested defs (those are evaluated — and their variables captured — in THIS
    scope)."""

    def __init__(self, fn):
        self.fn = fn
        self.params = _arg_names(fn.args)
        self.loads, self.stores, self.decl = set(), set(), set()
        self.nested = []            # FunctionDef / Lambda whose body is another scope
        self.default_lambdas = {}   # name of a nested def -> lambdas in its default values
        self.immediate = set()      # id() of lambdas that are called where they stand
        for s in (fn.body if isinstance(fn.body, list) else [fn.body]):
            self.visit(s)

    def visit(self, n):
        if isinstance(n, (ast.FunctionDef, ast.AsyncFunctionDef)):
            self.stores.add(n.name)
            self.nested.append(n)
            for d in list(n.args.defaults) + [x for x in n.args.kw_defaults if x is not None] + list(n.decorator_list):
                for m in ast.walk(d):
                    if isinstance(m, ast.Lambda):
                        self.default_lambdas.setdefault(n.name, []).append(m)
                self.visit(d)
            return
        if isinstance(n, ast.Lambda):
            self.nested.append(n)
            for d in list(n.args.defaults) + [x for x in n.args.kw_defaults if x is not None]:
                self.visit(d)
            return
        if isinstance(n, ast.ClassDef):
            self.stores.add(n.name)
            return
        if isinstance(n, (ast.Nonlocal, ast.Global)):
            self.decl |= set(n.names)
            return
        if isinstance(n, ast.Call) and isinstance(n.func, ast.Lambda):
            self.immediate.add(id(n.func))
        if isinstance(n, ast.Name):
            (self.stores if isinstance(n.ctx, (ast.Store, ast.Del)) else self.loads).add(n.id)
        if isinstance(n, ast.AugAssign) and isinstance(n.target, ast.Name):
            self.loads.add(n.target.id)
        for c in ast.iter_child_nodes(n):
            self.visit(c)

    @property
    def bound(self):
        return (self.params | self.stores) - self.decl


def free_reads(fn, skip=()):
    """Variables of enclosing scopes that running `fn` may read, through any depth of nested functions / lambdas:
    name -> depth of the shallowest `nonlocal` declaration that names it (0 = in `fn` itself) or None.
    `skip`: ids of lambdas that contribute nothing (used to single out what is read through stored lambdas only)."""
    f = ScopeFacts(fn)
    out = {}
    for v in f.loads - f.bound:
        out[v] = None
    for v in f.decl:
        out[v] = 0
    for g in f.nested:
        if id(g) in skip:
            continue
        for v, dp in free_reads(g, skip).items():
            if v in f.bound:
                continue
            dp = None if dp is None else dp + 1
            if v not in out or (out[v] is None and dp is not None):
                out[v] = dp
    return out


def closure_reads_live(cf_node, annos_of):
    """LiveConsistent-style check on the REAL annotations for what the Lean fragment does not contain: a statement that
    calls a local function `g` (directly or through an alias) reads the enclosing function's variables that ANY function
    reachable from `g` reads — `g` itself, the functions and lambdas nested in it at any depth, the sibling local
    functions it calls, lambdas in its default values — so they must be in the statement's LIVE_VARS_IN (also when the
    same statement rebinds them).  Returns [(kind, variable, statement)]:
    'closure-call:lambda' = the variable is read only through a lambda stored in the enclosing function's own scope
    (finding class stored_lambda_reads_reassigned_variable); 'closure-call:nonlocal-deep' = it is declared nonlocal only in
    a function nested deeper than the called one (class nonlocal_in_closure_nested_two_levels);
    'closure-call:nonlocal' = declared nonlocal in the called function (the finding fixed by ccf3d44);
    'closure-call:reads' = anything else.  The last two are in no known class."""
    out = []
    if cf_node is None:
        return out
    for fn in ast.walk(cf_node):
        if not isinstance(fn, ast.FunctionDef):
            continue
        facts = ScopeFacts(fn)
        owned = facts.params | facts.stores
        own = B.own_statements(fn)
        # callables of fn's own scope: name -> [def / lambda nodes]; aliases name -> names
        defs, alias, own_lambdas = {}, {}, set()
        for s in own:
            if isinstance(s, ast.FunctionDef):
                defs.setdefault(s.name, []).append(s)
            elif isinstance(s, ast.Assign) and len(s.targets) == 1 and isinstance(s.targets[0], ast.Name):
                lam = _is_artifact_lambda(s.value)
                if lam is not None:
                    defs.setdefault(s.targets[0].id, []).append(lam)
                    own_lambdas.add(id(lam))
                elif isinstance(s.value, ast.Name):
                    alias.setdefault(s.targets[0].id, set()).add(s.value.id)
        for name, lams in facts.default_lambdas.items():
            own_lambdas |= set(id(m) for m in lams)
        if not defs:
            continue

        def resolve(name, seen):
            if name in seen:
                return set()
            seen.add(name)
            r = {name} if name in defs else set()
            for t in alias.get(name, ()):
                r |= resolve(t, seen)
            return r

        def reach(name, skip):
            need, todo, done = {}, list(resolve(name, set())), set()
            while todo:
                g = todo.pop()
                if g in done:
                    continue
                done.add(g)
                nodes = [d for d in defs.get(g, []) if id(d) not in skip]
                nodes += [m for m in facts.default_lambdas.get(g, []) if id(m) not in skip]
                for d in nodes:
                    for v, dp in free_reads(d, skip).items():
                        if v in owned and (v not in need or (need[v] is None and dp is not None)):
                            need[v] = dp
                        for t in resolve(v, set()):
                            todo.append(t)
            return need
        callable_names = set(defs) | set(n for n in alias if resolve(n, set()))
        for s in own:
            if isinstance(s, (ast.FunctionDef, ast.ClassDef)):
                continue
            an = annos_of(s)
            if 'LIVE_VARS_IN' not in an:
                continue
            exprs = []
            if isinstance(s, (ast.Assign, ast.AugAssign, ast.Return, ast.Expr)) and s.value is not None:
                exprs.append(s.value)
            elif isinstance(s, (ast.If, ast.While)):
                exprs.append(s.test)
            elif isinstance(s, ast.For):
                exprs.append(s.iter)
            for e in exprs:
                for n in ast.walk(e):
                    if not (isinstance(n, ast.Call) and B._is_ag(n.func, 'converted_call') and n.args):
                        continue
                    f0 = n.args[0]
                    if isinstance(f0, ast.Call) and B._is_ag(f0.func, 'ld') and f0.args:
                        f0 = f0.args[0]
                    if not (isinstance(f0, ast.Name) and f0.id in callable_names):
                        continue
                    need = reach(f0.id, ())
                    need_nolam = reach(f0.id, own_lambdas) if own_lambdas else need
                    for v in sorted(need):
                        if v in an['LIVE_VARS_IN']:
                            continue
                        if v not in need_nolam:
                            kind = 'closure-call:lambda'
                        elif need[v] is not None and need[v] >= 1:
                            kind = 'closure-call:nonlocal-deep'
                        elif need[v] == 0:
                            kind = 'closure-call:nonlocal'
                        else:
                            kind = 'closure-call:reads'
                        out.append((kind, v, ast.unparse(ast.fix_missing_locations(s))[:120]))
    return out


def cls_nonlocal_two_levels(source_fn):
    """Syntactic: a function nested at least two levels below the function that owns `v` declares `v` nonlocal (its direct
    parent does not bind `v`)."""
    def go(fn, chain):
        f = ScopeFacts(fn)
        if isinstance(fn, ast.FunctionDef) and len(chain) >= 2:
            parent = chain[-1]
            if any(v not in parent.bound for v in f.decl):
                return True
        return any(go(g, chain + [f]) for g in f.nested)
    return go(source_fn, [])


def cls_stored_lambda(source_fn, reassigned=True):
    """Syntactic: a lambda that is not called where it stands, evaluated in the own scope of a function F (assigned to a name
    of F, in a default value of a def of F, ...), reads a variable of F that F assigns inside a compound statement.
    reassigned=False: reads any variable of F (the liveness annotation lacks it at the call whether or not that is visible:
    used only to attribute the annotation checker's kind closure-call:lambda, never a failing input)."""
    for fn in ast.walk(source_fn):
        if not isinstance(fn, ast.FunctionDef):
            continue
        f = ScopeFacts(fn)
        lams = [g for g in f.nested if isinstance(g, ast.Lambda) and id(g) not in f.immediate]
        for ls in f.default_lambdas.values():
            lams += [m for m in ls if id(m) not in f.immediate]
        if not lams:
            continue
        under = set()
        for s in B.own_statements(fn):
            if isinstance(s, (ast.If, ast.While, ast.For, ast.Try, ast.With)):
                for sub in ast.walk(s):
                    if isinstance(sub, (ast.FunctionDef, ast.Lambda)):
                        continue
                    if isinstance(sub, ast.Name) and isinstance(sub.ctx, ast.Store):
                        under.add(sub.id)
        owned = (f.params | f.stores) - f.decl
        for m in lams:
            if set(free_reads(m)) & owned & (under if reassigned else owned):
                return True
    return False


_GEN_BODY_PREFIXES = ('if_body', 'else_body', 'loop_body')


def risk_state_unbound(final_fn):
    """Python rendering of Lean's `stateUnboundRisk` over the real generated tree: a generated body function has a
    local (assigned directly in it, not declared nonlocal) that is a state variable of a nested operator call and is
    not assigned before that call."""
    def direct_targets(s):
        out = []
        if isinstance(s, ast.Assign):
            for t in s.targets:
                for n in ast.walk(t):
                    if isinstance(n, ast.Name) and isinstance(n.ctx, ast.Store):
                        out.append(n.id)
        elif isinstance(s, ast.AugAssign) and isinstance(s.target, ast.Name):
            out.append(s.target.id)
        return out

    def scan(stmts, L, B0):
        Bd = set(B0)
        for s in stmts:
            if isinstance(s, ast.FunctionDef):
                if s.name.startswith(_GEN_BODY_PREFIXES):
                    decl = set()
                    body = s.body
                    k = 0
                    while k < len(body) and isinstance(body[k], (ast.Nonlocal, ast.Global)):
                        decl |= set(body[k].names)
                        k += 1
                    rest = body[k:]
                    loc = set()
                    for r in rest:
                        loc |= set(direct_targets(r))
                    loc -= decl
                    if scan(rest, loc, set()):
                        return True
                elif not s.name.startswith(('get_state', 'set_state', 'loop_test', 'extra_test')):
                    if scan(s.body, set(), set()):     # a user's nested def: its own frame is like a top-level one
                        return True
                continue
            if isinstance(s, ast.Expr) and isinstance(s.value, ast.Call) and B._is_ag(s.value.func, 'if_stmt') | \
                    B._is_ag(s.value.func, 'while_stmt') | B._is_ag(s.value.func, 'for_stmt'):
                a = s.value.args
                names_arg = a[5] if s.value.func.attr in ('if_stmt', 'for_stmt') else a[4]
                names = [e.value for e in names_arg.elts if isinstance(e, ast.Constant)] if isinstance(names_arg, ast.Tuple) else []
                if any(n in L and n not in Bd for n in names):
                    return True
            for sub in ('body', 'orelse', 'finalbody'):
                if not isinstance(s, ast.FunctionDef) and isinstance(getattr(s, sub, None), list) and getattr(s, sub) \
                        and isinstance(getattr(s, sub)[0], ast.stmt):
                    if scan(getattr(s, sub), L, Bd):
                        return True
            if isinstance(s, ast.Try):
                for h in s.handlers:
                    if scan(h.body, L, Bd):
                        return True
            Bd |= set(direct_targets(s))
        return False
    return scan(final_fn.body, set(), set())


def classify(source_fn, module_names, cf_node, annos_of, final_fn):
    """The finding classes the program belongs to (ordered)."""
    out = []
    if cf_node is not None and B.for_target_class(cf_node, annos_of):
        out.append('for_target_live_across_zero_trip')
    # (nonlocal_write_in_reaching_closure was fixed by ccf3d44: no longer attributable, a recurrence is a violation;
    #  its witnesses are in corpus/C02 and must pass)
    if cls_param_shadows_global(source_fn, module_names):
        out.append('nested_function_parameter_shadows_global')
    if final_fn is not None and risk_state_unbound(final_fn):
        out.append('state_var_unbound_local_of_enclosing_body')
    if cls_nonlocal_input_only(source_fn):
        out.append('nonlocal_state_var_marked_input_only')
    if cls_nonlocal_two_levels(source_fn):
        out.append('nonlocal_in_closure_nested_two_levels')
    if cls_stored_lambda(source_fn):
        out.append('stored_lambda_reads_reassigned_variable')
    return out


# ------------------------------------------------------------------------------------------------
# one program
# ------------------------------------------------------------------------------------------------
class Case(object):
    pass


def inp_sexp(a):
    return [['a', a[0]], ['b', a[1]], ['c', a[2]], ['l', ['lst'] + list(a[3])]]


def out_of_py(r):
    """Python outcome -> the driver's spelling."""
    if r[0] == 'ret':
        v = r[1]
        if isinstance(v, bool):
            return ['ret', str(int(v))]
        if isinstance(v, int):
            return ['ret', str(v)]
        if v is None:
            return ['ret', 'none']
        return ['ret', '?']
    if r[1] == 'NameError':
        return ['exc', 'NameError']
    return ['exc', r[1]]


def out_of_lean(x):
    if isinstance(x, list) and x and x[0] == 'ret':
        return ['ret', x[1] if isinstance(x[1], str) else '?']
    if isinstance(x, list) and x and x[0] == 'exc' and x[1] == 'user':
        return ['exc', 'E' + x[2]]
    if isinstance(x, list) and x and x[0] == 'exc':
        return ['exc', x[1]]
    if x == 'normal':          # falling off the end of the function: the caller sees `return None` (fnOutcome)
        return ['ret', 'none']
    return [x if isinstance(x, str) else '?']


def run_one(mod, fn, a):
    """fn(*a) with fresh mutable arguments; returns (kind, value, final state of the mutable arguments).
    A function of six parameters also gets an object `o` (attributes v, w, flag) and a dict `d` (keys k, j, last) built
    from the input; their final state is what the caller sees."""
    l = list(a[3])
    args = [a[0], a[1], a[2], l]
    o = d = None
    if mod.f.__code__.co_argcount == 6:
        o = mod.Obj(a[0], a[1])
        d = {'k': a[1], 'j': a[2], 'last': 0}
        args += [o, d]
    mod.LOG[:] = []
    mod.DEC[:] = []
    mod.G = 0
    try:
        r = fn(*args)
        out = ('ret', mod._freeze(r))
    except RecursionError:
        raise
    except Exception as e:  # noqa
        out = ('exc', 'NameError' if isinstance(e, NameError) else type(e).__name__)
    state = [('l', mod._freeze(l))]
    if o is not None:
        state += [('o.' + k, mod._freeze(v)) for k, v in sorted(vars(o).items())]
        state += [('d[%r]' % (k,), mod._freeze(v)) for k, v in sorted(d.items())]
    if mod.LOG:
        state.append(('LOG', tuple(tuple(e[:2]) for e in mod.LOG)))
    return out + (tuple(state),)


def explore(ws, prog):
    """Convert `prog` natively (recording passes) and with the tracing backend; run everything on all inputs."""
    c = Case()
    c.prog = prog
    mod = ws.load(prog)
    c.module_names = set(vars(mod).keys())
    fsrc = prog.source[len(c02_gen.PRELUDE):] if prog.source.startswith(c02_gen.PRELUDE) else prog.source
    tree = ast.parse(prog.source)
    c.source_fn = [n for n in tree.body if isinstance(n, ast.FunctionDef) and n.name == 'f'][-1]
    c.fsrc = fsrc
    c.trace = passes.trace_conversion(mod.f, passes.make_options(recursive=True, features=None))
    c.conv_error = None
    c.cf_node = c.annos_of = None
    c.final_fn = None
    c.results = []
    if c.trace.error is not None:
        c.conv_error = 'native conversion: %s: %s' % (type(c.trace.error).__name__, c.trace.error)
    else:
        rec = B.cf_record(c.trace)
        if rec is not None and isinstance(rec.before, list) and rec.before and rec.before[0] == 'FunctionDef':
            try:
                c.cf_node, c.annos_of = B.rebuild_with_annos(rec)
            except Exception as e:      # snapshot outside what pyast rebuilds: the correspondence is skipped, not the oracle
                c.cf_node = None
        c.final_fn = c.trace.final_tree if isinstance(c.trace.final_tree, ast.FunctionDef) else None
    tracing = None
    if c.conv_error is None:
        try:
            tracing = B.convert_tracing(mod.f)
        except Exception as e:
            c.conv_error = 'tracing conversion: %s: %s' % (type(e).__name__, e)
    c.same_code = tracing is not None and B.same_generated_code(c.trace.final_source, getattr(tracing, '__c02_source__', None))
    c.counters = {'ifs': 0, 'whiles': 0, 'fors': 0, 'zero_trip': 0}
    if c.conv_error is None:
        for a in prog.inputs:
            r0 = run_one(mod, mod.f, a)
            r1 = run_one(mod, c.trace.converted, a)
            B.COUNTERS.reset()
            r2 = run_one(mod, tracing, a)
            for k in c.counters:
                c.counters[k] += getattr(B.COUNTERS, k)
            c.results.append((a, r0, r1, r2))
    ws.unload(mod)
    return c


def fragment(c):
    """Translate to the model formats; returns (ablock, tblock, params) or raises Unsupported/ShapeMismatch."""
    if c.cf_node is None or c.final_fn is None:
        raise B.Unsupported('no snapshot')
    pre = B.PreTree(c.cf_node, c.annos_of)
    fin = B.FinalTree(c.final_fn)
    B.align(pre.block, fin.block)
    return B.ablock_sexp(pre.block), fin.block, pre.params


def wrapper_fragment(c):
    """The function with its return protocol kept: (annotated lowered program = `Lowered.prog`, real block inside the
    `with` between initialisation and final return, wrapper record, params)."""
    if c.cf_node is None or c.final_fn is None:
        raise B.Unsupported('no snapshot')
    w = B.wrapper_of(c.final_fn, False)
    pre = B.PreTree(c.cf_node, c.annos_of, wrapper=True)
    fin = B.FinalTree(c.final_fn, inner=w['inner'])
    if w['ret']:
        if len(pre.block) < 3 or pre.block[-1][0] != 'ret':
            raise B.ShapeMismatch('lowered program does not end in the return of retval_')
        B.align(pre.block[2:-1], fin.block)
    else:
        B.align(pre.block, fin.block)
    return B.ablock_sexp(pre.block), fin.block, [w['name'], str(bool(w['ur']))] + (w['ret'] or []), pre.params


def fscope_protocol_problems():
    """The run-time protocol Func/Wrapper.lean assumes, on the REAL classes: `__enter__` returns the scope and pushes an
    ENABLED status context iff user_requested; `__exit__` returns a false value (never swallows) and pops it, with and
    without an exception; `ret` maps the UndefinedReturnValue placeholder to None and is the identity otherwise."""
    from malt.core import ag_ctx, converter
    from malt.operators import function_wrappers, variables
    probs = []
    for ur in (True, False):
        opts = converter.ConversionOptions(recursive=True, user_requested=ur, optional_features=None)
        for exc in (None, ValueError('x')):
            before = list(ag_ctx._control_ctx())
            fs = function_wrappers.FunctionScope('f', 'fscope', opts)
            got = fs.__enter__()
            inside = list(ag_ctx._control_ctx())
            if got is not fs:
                probs.append('__enter__ does not return the scope')
            if ur:
                if not (len(inside) == len(before) + 1 and inside[:-1] == before and inside[-1].status == ag_ctx.Status.ENABLED):
                    probs.append('user_requested=True: __enter__ does not push one ENABLED status context')
            elif inside != before:
                probs.append('user_requested=False: __enter__ changes the status stack')
            r = fs.__exit__(type(exc), exc, None) if exc is not None else fs.__exit__(None, None, None)
            if r:
                probs.append('__exit__ returns a true value (ur=%r, exc=%r): the with statement would swallow' % (ur, exc))
            if list(ag_ctx._control_ctx()) != before:
                probs.append('__exit__ does not restore the status stack (ur=%r, exc=%r)' % (ur, exc))
        fs = function_wrappers.FunctionScope('f', 'fscope', opts)
        if fs.ret(variables.UndefinedReturnValue(), False) is not None or fs.ret(variables.UndefinedReturnValue(), True) is not None:
            probs.append('ret(UndefinedReturnValue(), _) is not None')
        for v in (0, 7, None, (1, 2), variables.Undefined('x')):
            if fs.ret(v, True) is not v or fs.ret(v, False) is not v:
                probs.append('ret(%r, _) is not the identity' % (v,))
        # the with statement itself, end to end
        try:
            with function_wrappers.FunctionScope('f', 'fscope', opts):
                raise KeyError('k')
            probs.append('an exception raised inside the with did not propagate')
        except KeyError:
            pass
    if isinstance(variables.UndefinedReturnValue(), type(None)):
        probs.append('UndefinedReturnValue is None')
    if fs.callopts.user_requested:
        probs.append('call_options() keeps user_requested')
    return probs


def record(c):
    """Plain-data summary of one explored program (picklable: it crosses a process boundary)."""
    r = {'stream': c.stream, 'key': c.prog.key, 'fsrc': c.fsrc, 'inputs': [list(a) for a in c.prog.inputs],
         'features': sorted(c.prog.features), 'conv_error': c.conv_error, 'results': c.results, 'counters': c.counters,
         'classes': classify(c.source_fn, c.module_names, c.cf_node, c.annos_of, c.final_fn), 'same_code': c.same_code,
         'closure_live': closure_reads_live(c.cf_node, c.annos_of), 'stored_lambda_any': cls_stored_lambda(c.source_fn, False),
         'frag': None, 'unsupported': None, 'shape': None, 'wshape': None, 'wfrag': None, 'wunsupported': None}
    if c.conv_error is None and c.final_fn is not None:
        r['wshape'] = B.wrapper_shape_problems(c.source_fn, c.final_fn)
        try:
            ab, tb, w, params = wrapper_fragment(c)
            r['wfrag'] = {'ab': sexp(ab), 'tb': sexp(tb), 'tb_tree': B.to_str_tree(tb), 'w': w, 'params': params}
        except B.Unsupported as e:
            r['wunsupported'] = str(e)
        except B.ShapeMismatch as e:
            r['wshape'] = (r['wshape'] or []) + ['wrapper fragment: ' + str(e)]
    if c.conv_error is None:
        try:
            ab, tb, params = fragment(c)
            r['frag'] = {'ab': sexp(ab), 'tb': sexp(tb), 'tb_tree': B.to_str_tree(tb), 'params': params,
                         'py_zero': bool(B.for_target_class(c.cf_node, c.annos_of)), 'py_risk': risk_state_unbound(c.final_fn)}
        except B.Unsupported as e:
            r['unsupported'] = str(e)
        except B.ShapeMismatch as e:
            r['shape'] = str(e)
    return r


def make_item_program(item):
    kind = item[0]
    if kind == 'known':
        return c02_gen.known_program(item[1]), 'known:' + item[1]
    if kind == 'corpus':
        j = item[2]
        return progen.Program(c02_gen.PRELUDE + j['source'], [tuple(i) for i in j['inputs']], ['corpus'], 'c02-corpus'), 'corpus:' + item[1]
    profile, subseed, size = item[1], item[2], item[3]
    import random
    return next(c02_gen.programs(random.Random(subseed), 1, size=size, profile=profile)), profile


def work(items):
    """Explore a batch of programs in a worker process."""
    sys.path.insert(0, common.REPO)
    out = []
    with progen.Workspace() as ws:
        for item in items:
            p, stream = make_item_program(item)
            c = explore(ws, p)
            c.stream = stream
            out.append(record(c))
    return out


def explore_all(items, nproc):
    if nproc <= 1 or len(items) < 8:
        return work(items)
    import multiprocessing
    ctx = multiprocessing.get_context('fork')
    chunks = [items[k::nproc] for k in range(nproc)]
    with ctx.Pool(nproc) as pool:
        parts = pool.map(work, chunks)
    # restore the canonical order (round-robin split)
    out = [None] * len(items)
    for k, part in enumerate(parts):
        for j, r in enumerate(part):
            out[k + j * nproc] = r
    return out


# ------------------------------------------------------------------------------------------------
# the check
# ------------------------------------------------------------------------------------------------
def check(run, only=None):
    run.rule = ('seeded random programs of the C02 class from c02_gen.py (pure, total, definitely assigned; core profile = '
                'fragment shared with the Lean semantics, rich profile = closures / o.v / d[k] state / builtins; depth <= 4) '
                'x 6 inputs each, plus the witnesses of the known findings; a case is (program, input); non-trivial = the '
                'tracing run executed at least one functional operator; distinct by program text and input')
    run.assumptions += [
        'execF is my formalisation of the documented tracing model (control_flow.md "All Python code paths are executed during '
        'tracing", operators/control_flow.py docstring): both branches from one snapshot, loop body traced once out of band, '
        'carried state re-injected before every iteration; the harness backend implements exactly that',
        'Malt.Sem / execN / execF as descriptions of CPython on the shared fragment (ints, lists that are only iterated; '
        '+ - * comparisons and/or/not conditional expressions) — validated differentially on every run, not proved',
        'a > b is read as b < a in the model (operand evaluation order is unobservable for pure, definitely-assigned code)',
        'C02_functional_eq_native_partial is partial correctness of the tracing run: "total / definitely assigned" enters as '
        '"the tracing run terminates without raising"',
        'the model reads every variable through ag__.ld; the generated reads of jump-control variables (`ag__.not_(break_)`, '
        '`(break_,)`) are not wrapped — exact as long as those variables are never Undefined placeholders, which the '
        'sem-native / sem-functional correspondences check on the real output',
        'return lowering of the trailing `return e` (try: do_return = True; retval_ = e except: ... raise; return fscope.ret(...)) '
        'is read as `ret e` on both sides of the correspondence (the try/except of the jump passes is outside the proved fragment)',
    ]
    # (i) theorems
    run.build_and_audit('MaltModel.Props.C01Func', extra_targets=[], model_files=[])
    ax1 = dict(run.axioms)
    run.build_and_audit('MaltModel.Props.C02', model_files=MODEL_FILES)
    run.axioms.update(ax1)

    quick = run.tier == 'quick'
    n_core, n_rich = (180, 110) if quick else (1600, 1000)
    t0 = time.time()
    rng = run.rng
    cov = run.cov
    items = [('known', cls) for cls in CLASSES]
    cdir = os.path.join(common.VERIF, 'corpus', 'C02')
    if os.path.isdir(cdir):
        for fn in sorted(os.listdir(cdir)):
            if fn.endswith('.json'):
                with open(os.path.join(cdir, fn)) as fh:
                    items.append(('corpus', fn, json.load(fh)))
    for profile, n in (('core', n_core), ('rich', n_rich)):
        for _ in range(n):
            items.append(('gen', profile, rng.getrandbits(48), rng.randrange(6, 12 if profile == 'core' else 13)))
    n_s1 = 70 if quick else 600
    for _ in range(n_s1):
        items.append(('gen', 's1', rng.getrandbits(48), rng.randrange(6, 11)))
    n_wrap = 50 if quick else 400
    for _ in range(n_wrap):
        items.append(('gen', 'wrap', rng.getrandbits(48), rng.randrange(5, 10)))
    nproc = max(1, min(12, (os.cpu_count() or 2) - 2))
    recs = explore_all(items, nproc)

    feats, classes_seen = {}, {}
    stats = {'programs': 0, 'in_fragment': 0, 'unsupported': {}, 'shape_mismatch': 0, 'conv_errors': 0,
             'functional_ops_executed': 0, 'zero_trip_loops': 0, 'programs_in_a_finding_class': 0}
    shape_problems = []
    cov['known_witnesses'] = dict((r['stream'][6:], {'fails': bool(r['conv_error']) or any(x[1] != x[3] for x in r['results']),
                                                     'classes': r['classes']}) for r in recs if r['stream'].startswith('known:'))

    for cls, st in cov['known_witnesses'].items():
        if not st['fails']:
            run.notes.append('witness of known finding class %s no longer fails (fixed? then drop the finding and its hypothesis)' % cls)
        if cls not in st['classes']:
            run.notes.append('witness of known finding class %s does not satisfy its own class predicate' % cls)

    # ---------------- direct oracle ----------------
    for r in recs:
        stats['programs'] += 1
        for f in r['features']:
            feats[f] = feats.get(f, 0) + 1
        cn = r['counters']
        ops = cn['ifs'] + cn['whiles'] + cn['fors']
        stats['functional_ops_executed'] += ops
        stats['zero_trip_loops'] += cn['zero_trip']
        cl = r['classes']
        stats['programs_in_a_finding_class'] += bool(cl)
        if r['conv_error'] is not None:
            stats['conv_errors'] += 1
            run.case((r['key'], 'convert'), True)
            run.fail('a program of the C02 class does not convert: ' + r['conv_error'],
                     {'source': r['fsrc'], 'inputs': r['inputs'], 'stream': r['stream'], 'classes': cl}, cl[0] if cl else None)
            continue
        if r['stream'] == 's1' or (r['stream'] == 'wrap' and 's1' in r['features']):
            # not pure (with-statements log): only the correspondence of source / native semantics below uses this stream
            stats['s1_programs'] = stats.get('s1_programs', 0) + (r['stream'] == 's1')
            stats['s1_native_differs_from_original'] = stats.get('s1_native_differs_from_original', 0) + \
                len([1 for (a, r0, r1, r2) in r['results'] if r0 != r1])
            for (a, r0, r1, r2) in r['results']:
                run.case((r['key'], repr(a)), True)
            if r['unsupported']:
                stats['unsupported'][r['unsupported']] = stats['unsupported'].get(r['unsupported'], 0) + 1
            if r['shape']:
                stats['shape_mismatch'] += 1
                shape_problems.append({'source': r['fsrc'], 'problem': r['shape']})
            continue
        for (a, r0, r1, r2) in r['results']:
            run.case((r['key'], repr(a)), ops > 0)
            if r0 != r2:
                for k in cl:
                    classes_seen[k] = classes_seen.get(k, 0) + 1
                run.fail('tracing-backend result / final state of the mutable arguments differs from the original',
                         {'source': r['fsrc'], 'input': list(a), 'inputs': r['inputs'], 'original': repr(r0),
                          'tracing_backend': repr(r2), 'default_operators': repr(r1), 'stream': r['stream'], 'classes': cl},
                         cl[0] if cl else None)
        if len(run.samples) < 2 and r['stream'] == 'rich' and ops > 3:
            run.sample({'stream': r['stream'], 'source': r['fsrc'],
                        'results': [[list(a), repr(r0), repr(r2)] for a, r0, r1, r2 in r['results'][:2]]})
        if r['unsupported']:
            stats['unsupported'][r['unsupported']] = stats['unsupported'].get(r['unsupported'], 0) + 1
        if r['shape']:
            stats['shape_mismatch'] += 1
            shape_problems.append({'source': r['fsrc'], 'problem': r['shape']})
    # two conversions of one function must generate the same code; since ccf3d44 `nouts` of a nonlocal state variable inside a
    # nested function varies with set iteration order (finding C02-nonlocal-input-only): attributed to that class only
    nondet_all = [r for r in recs if r['conv_error'] is None and not r['same_code']]
    cov['nondeterministic_conversions'] = {'programs': len(nondet_all),
                                           'in_class_nonlocal_state_var_marked_input_only':
                                               len([r for r in nondet_all if 'nonlocal_state_var_marked_input_only' in r['classes']])}
    nondet = [{'source': r['fsrc']} for r in nondet_all if 'nonlocal_state_var_marked_input_only' not in r['classes']]
    run.oblige('correspondence:conversion-deterministic', 'correspondence', not nondet,
               ('two conversions of the same function (default operators / tracing backend) generated different code: '
                + json.dumps(nondet[:2])) if nondet else '')
    run.oblige('correspondence:target-shape', 'correspondence', not shape_problems,
               json.dumps(shape_problems[:2]) if shape_problems else '')

    # ---------------- checkers on the real annotations, outside the Lean fragment: closure reads ----------------
    ck = {}
    unattributed = []
    for r in recs:
        for kind, v, st in r.get('closure_live') or []:
            ck[kind] = ck.get(kind, 0) + 1
            # 'closure-call:nonlocal' was the class of a finding fixed by ccf3d44 and 'closure-call:reads' never had one:
            # unattributed; the other two kinds belong to open findings, attributed through the program's class predicate
            cls_of_kind = {'closure-call:nonlocal-deep': 'nonlocal_in_closure_nested_two_levels',
                           'closure-call:lambda': 'stored_lambda_reads_reassigned_variable'}.get(kind)
            in_cls = cls_of_kind in r['classes'] or (kind == 'closure-call:lambda' and r.get('stored_lambda_any'))
            if cls_of_kind is None or not in_cls:
                unattributed.append({'source': r['fsrc'], 'kind': kind, 'variable': v, 'statement': st})
    cov['closure_read_liveness_violations'] = ck
    run.oblige('checker:closure-reads-live-on-real-annotations', 'checker', not unattributed,
               ('a variable read by a called local function is not in LIVE_VARS_IN of the calling statement, in no known '
                'finding class: ' + json.dumps(unattributed[:2])) if unattributed else '')

    # ---------------- correspondence on the shared fragment ----------------
    def is_s1(r):
        return r['stream'] == 's1' or (r['stream'] == 'wrap' and 's1' in r['features'])
    plain_hyp = {}
    frag = [r for r in recs if r['frag'] is not None and not is_s1(r)]
    frag_s1 = [r for r in recs if r['frag'] is not None and is_s1(r)]
    stats['in_fragment'] = len(frag)
    if run.driver_ok and frag:
        lines = []
        for r in frag:
            g = r['frag']
            lines.append('c02.check %s %s ()' % (g['ab'], sexp(g['params'])))
            lines.append('c02.run %s %s %d %s' % (g['ab'], g['tb'], FUEL, ' '.join(sexp(inp_sexp(a)) for a in r['inputs'])))
            lines.append('c02.risk %s' % g['tb'])
        ans = run.drive(lines)
        dis = {'func': [], 'blockvars': [], 'sem-source': [], 'sem-native': [], 'sem-functional': [], 'risk-predicate': [],
               'zerotrip-predicate': [], 'theorem-instance': []}
        hyp = {'live': 0, 'decl': 0, 'def': 0, 'jump': 0, 'hypf': 0, 'pure': 0, 'all': 0}
        diag_kinds = {}
        unexplained_live = []
        for k, r in enumerate(frag):
            g = r['frag']
            a_chk, a_run, a_risk = ans[3 * k], ans[3 * k + 1], ans[3 * k + 2]
            if a_chk.startswith('bad') or a_run.startswith('bad'):
                dis['func'].append({'source': r['fsrc'], 'driver': a_chk[:80] + ' / ' + a_run[:80]})
                continue
            chk = dict((x[0], x[1:]) for x in parse_sexp(a_chk))
            flags = dict((n, chk[n][0] == 'True') for n in ('live', 'decl', 'def', 'jump', 'hypf', 'pure', 'bv', 'zerotrip'))
            for n in ('live', 'decl', 'def', 'jump', 'hypf', 'pure'):
                hyp[n] += flags[n]
            allh = all(flags[n] for n in ('live', 'decl', 'def', 'jump', 'hypf', 'pure'))
            hyp['all'] += allh
            plain_hyp[r['fsrc']] = all(flags[n] for n in ('live', 'decl', 'def', 'jump'))
            for d in chk.get('diag', []):
                kind = ':'.join(d.split(':')[1:])
                diag_kinds[kind] = diag_kinds.get(kind, 0) + 1
            run.evaluations += 1
            if B.canon_undefs(chk['func'][0]) != B.canon_undefs(g['tb_tree']):
                dis['func'].append({'source': r['fsrc'], 'model': sexp(chk['func'][0])[:600], 'real': g['tb'][:600]})
            if not flags['bv']:
                dis['blockvars'].append({'source': r['fsrc'], 'annotated': g['ab'][:800]})
            if g['py_zero'] != flags['zerotrip']:
                dis['zerotrip-predicate'].append({'source': r['fsrc'], 'model': flags['zerotrip'], 'harness': g['py_zero']})
            if (a_risk == 'True') != g['py_risk']:
                dis['risk-predicate'].append({'source': r['fsrc'], 'model': a_risk, 'harness': g['py_risk']})
            # every violation of a hypothesis on the real annotations must be in a known finding class:
            # LiveConsistent: kind for:exit-target = for_target_live_across_zero_trip; DeclB/DefB/HypFB: no known class
            bad_kinds = sorted(set(':'.join(d.split(':')[1:]) for d in chk.get('diag', [])) - {'for:exit-target'})
            bad_kinds += [n for n in ('decl', 'def', 'jump', 'hypf') if not flags[n]]
            if (not flags['live'] and not flags['zerotrip']) or bad_kinds:
                unexplained_live.append({'source': r['fsrc'], 'unattributed': bad_kinds, 'diag': chk.get('diag', [])})
            res = parse_sexp(a_run)
            for (a, r0, r1, r2), row in zip(r['results'], res):
                run.evaluations += 1
                src, nat, fun, natm = [out_of_lean(x) for x in row]
                if src != out_of_py(r0):
                    dis['sem-source'].append({'source': r['fsrc'], 'input': list(a), 'python': repr(r0), 'model': src})
                if nat != out_of_py(r1):
                    dis['sem-native'].append({'source': r['fsrc'], 'input': list(a), 'python': repr(r1), 'model': nat})
                if fun != out_of_py(r2) and r['same_code']:
                    dis['sem-functional'].append({'source': r['fsrc'], 'input': list(a), 'python': repr(r2), 'model': fun})
                # instances of the theorems on real annotations: hypotheses hold  =>  the runs agree
                if allh and not (src == natm and (fun == src or fun[0] == 'exc')):
                    dis['theorem-instance'].append({'source': r['fsrc'], 'input': list(a), 'source_run': src, 'native': natm, 'functional': fun})
        for name in ('func', 'blockvars', 'sem-source', 'sem-native', 'sem-functional', 'risk-predicate', 'zerotrip-predicate'):
            d = dis[name]
            run.oblige('correspondence:' + name, 'correspondence', not d, json.dumps(d[:2]) if d else '')
        run.oblige('checker:hypotheses-on-real-annotations-attributed', 'checker', not unexplained_live,
                   ('LiveConsistent / DeclB / DefB / HypFB fails on the real annotations in no known finding class: '
                    + json.dumps(unexplained_live[:2])) if unexplained_live else '')
        run.oblige('checker:theorem-instances-on-real-annotations', 'checker', not dis['theorem-instance'],
                   json.dumps(dis['theorem-instance'][:2]) if dis['theorem-instance'] else '')
        cov['hypotheses_on_real_annotations'] = dict(hyp, programs=len(frag))
        cov['live_inconsistency_kinds'] = diag_kinds
        cov['live_inconsistent_not_in_zero_trip_class'] = unexplained_live[:5]
        cov['live_inconsistent_not_in_zero_trip_class_count'] = len(unexplained_live)
        r = frag[len(frag) // 2]
        run.sample({'fragment_program': r['fsrc'], 'annotated_model_program': r['frag']['ab'][:1500],
                    'real_target_program': r['frag']['tb'][:1500]})
    elif not run.driver_ok:
        run.oblige('correspondence:c02', 'correspondence', False, 'driver unavailable')

    # ---------------- pass-through statements (with / try / raise): source and native semantics, funcB ----------------
    if run.driver_ok and frag_s1:
        lines = []
        for r in frag_s1:
            g = r['frag']
            lines.append('c02.check %s %s ()' % (g['ab'], sexp(g['params'])))
            lines.append('c02.runlog %s %s %d %s' % (g['ab'], g['tb'], FUEL, ' '.join(sexp(inp_sexp(a)) for a in r['inputs'])))
        ans = run.drive(lines)
        d1 = {'func': [], 'sem-source': [], 'sem-native': []}
        hyp1 = {'live': 0, 'decl': 0, 'def': 0, 'jump': 0, 'all': 0, 'with_try_or_raise': 0}

        def py_log(r):
            st = dict(r[2])
            return ['%s:%s' % (e[0], e[1]) for e in st.get('LOG', ())]
        for k, r in enumerate(frag_s1):
            g = r['frag']
            a_chk, a_run = ans[2 * k], ans[2 * k + 1]
            if a_chk.startswith('bad') or a_run.startswith('bad'):
                d1['func'].append({'source': r['fsrc'], 'driver': a_chk[:80] + ' / ' + a_run[:80]})
                continue
            chk = dict((x[0], x[1:]) for x in parse_sexp(a_chk))
            flags = dict((n, chk[n][0] == 'True') for n in ('live', 'decl', 'def', 'jump'))
            for n in flags:
                hyp1[n] += flags[n]
            allh = all(flags.values())
            hyp1['all'] += allh
            plain_hyp[r['fsrc']] = allh
            hyp1['with_try_or_raise'] += any(f in r['features'] for f in ('with', 'try', 'raise'))
            run.evaluations += 1
            if B.canon_undefs(chk['func'][0]) != B.canon_undefs(g['tb_tree']):
                d1['func'].append({'source': r['fsrc'], 'model': sexp(chk['func'][0])[:600], 'real': g['tb'][:600]})
            for (a, r0, r1, r2), row in zip(r['results'], parse_sexp(a_run)):
                run.evaluations += 1
                (so, sl), (no, nl) = row
                if [out_of_lean(so), sl] != [out_of_py(r0), py_log(r0)]:
                    d1['sem-source'].append({'source': r['fsrc'], 'input': list(a), 'python': repr(r0), 'model': [so, sl]})
                if [out_of_lean(no), nl] != [out_of_py(r1), py_log(r1)]:
                    d1['sem-native'].append({'source': r['fsrc'], 'input': list(a), 'python': repr(r1), 'model': [no, nl]})
                if allh and [so, sl] != [no, nl]:
                    d1['func'].append({'source': r['fsrc'], 'input': list(a), 'theorem-instance': [so, sl, no, nl]})
        for name in ('func', 'sem-source', 'sem-native'):
            run.oblige('correspondence:passthrough-' + name, 'correspondence', not d1[name], json.dumps(d1[name][:2]) if d1[name] else '')
        cov['passthrough_hypotheses_on_real_annotations'] = dict(hyp1, programs=len(frag_s1))

    # ---------------- the function wrapper and the return-value protocol ----------------
    sys.path.insert(0, common.REPO)
    try:
        pp = fscope_protocol_problems()
    except Exception as e:      # noqa
        pp = ['%s: %s' % (type(e).__name__, e)]
    run.oblige('correspondence:function-scope-protocol', 'correspondence', not pp, json.dumps(pp[:4]) if pp else '')
    wshape = [{'source': r['fsrc'], 'problems': r['wshape'][:3]} for r in recs if r.get('wshape')]
    wseen = [r for r in recs if r['conv_error'] is None and r.get('wshape') is not None]
    run.oblige('correspondence:wrapper-shape', 'correspondence', not wshape and bool(wseen),
               json.dumps(wshape[:2]) if wshape else ('' if wseen else 'no converted function seen'))
    wfrag = [r for r in recs if r.get('wfrag') is not None]
    wst = {'functions_checked_for_shape': len(wseen), 'with_nested_defs': len([r for r in wseen if 'def ' in r['fsrc'][4:]]),
           'in_fragment': len(wfrag), 'shape_b': 0, 'shape_a': 0, 'wf': 0, 'hyp': 0, 'hypf': 0, 'runs': 0,
           'returns_none_by_falling_off': 0, 'returns_none_from_placeholder': 0, 'exception_through_with': 0,
           'unsupported': {}}
    for r in recs:
        if r.get('wunsupported'):
            wst['unsupported'][r['wunsupported']] = wst['unsupported'].get(r['wunsupported'], 0) + 1
    if run.driver_ok and wfrag:
        def py_log2(x):
            return ['%s:%s' % (e[0], e[1]) for e in dict(x[2]).get('LOG', ())]
        lines = ['c02.callw %s %s %s %s %d %s' % (r['wfrag']['ab'], sexp(r['wfrag']['params']), r['wfrag']['tb'], sexp(r['wfrag']['w']),
                                                  FUEL, ' '.join(sexp(inp_sexp(a)) for a in r['inputs'])) for r in wfrag]
        ans = run.drive(lines)
        dw = {'lowered-shape': [], 'func': [], 'sem-source': [], 'sem-native': [], 'sem-functional': [], 'theorem-instance': []}
        for r, a_w in zip(wfrag, ans):
            g = r['wfrag']
            if a_w.startswith('bad'):
                dw['func'].append({'source': r['fsrc'], 'driver': a_w[:120]})
                continue
            chk = dict((x[0], x[1:]) for x in parse_sexp(a_w))
            run.evaluations += 1
            if chk['shape'][0] != 'True':
                dw['lowered-shape'].append({'source': r['fsrc'], 'lowered': g['ab'][:600]})
                continue
            has_ret = len(g['w']) == 4
            wst['shape_b' if has_ret else 'shape_a'] += 1
            wf, hyp, hypf = (chk[n][0] == 'True' for n in ('wf', 'hyp', 'hypf'))
            wst['wf'] += wf
            wst['hyp'] += hyp
            wst['hypf'] += hypf
            # FuncHyp on the protocol-keeping reading vs on the `return e` reading of the same function
            if r['fsrc'] in plain_hyp and plain_hyp[r['fsrc']] != hyp:
                wst['hyp_differs_from_return_reading'] = wst.get('hyp_differs_from_return_reading', 0) + 1
                if len(wst.setdefault('hyp_differs_sample', [])) < 2:
                    wst['hyp_differs_sample'].append({'source': r['fsrc'], 'return_reading': plain_hyp[r['fsrc']], 'lowered': g['ab'][:2500]})
            if B.canon_undefs(chk['func'][0]) != B.canon_undefs(g['tb_tree']):
                dw['func'].append({'source': r['fsrc'], 'model': sexp(chk['func'][0])[:600], 'real': g['tb'][:600]})
            pure = not (r['stream'] == 's1' or 's1' in r['features'])
            for (a, r0, r1, r2), row in zip(r['results'], chk['runs']):
                run.evaluations += 1
                wst['runs'] += 1
                (so, sl), (mo, ml, mk), (no, nl, nk), (fo, fl_, fk) = row
                src, mod, nat, fun = [out_of_lean(x) for x in (so, mo, no, fo)]
                if r0[0] == 'ret' and r0[1] is None:
                    wst['returns_none_from_placeholder' if has_ret else 'returns_none_by_falling_off'] += 1
                if r0[0] == 'exc':
                    wst['exception_through_with'] += 1
                if [src, sl] != [out_of_py(r0), py_log2(r0)]:
                    dw['sem-source'].append({'source': r['fsrc'], 'input': list(a), 'python': repr(r0), 'model': [src, sl]})
                if [nat, nl] != [out_of_py(r1), py_log2(r1)] or nk != 'True':
                    dw['sem-native'].append({'source': r['fsrc'], 'input': list(a), 'python': repr(r1), 'model': [nat, nl, nk]})
                if pure and r['same_code'] and (fun != out_of_py(r2) or fk != 'True'):
                    dw['sem-functional'].append({'source': r['fsrc'], 'input': list(a), 'python': repr(r2), 'model': [fun, fk]})
                # instances of function_wrapper_correct / C02_function_wrapper_partial on the real annotations
                if wf and hyp and not ([mod, ml] == [src, sl] and mk == 'True'):
                    dw['theorem-instance'].append({'source': r['fsrc'], 'input': list(a), 'source_call': [src, sl], 'converted': [mod, ml, mk]})
                if wf and hyp and hypf and pure and not (fk == 'True' and (fun[0] == 'exc' or fun == src)):
                    dw['theorem-instance'].append({'source': r['fsrc'], 'input': list(a), 'source_call': src, 'tracing': [fun, fk]})
        for name in ('lowered-shape', 'func', 'sem-source', 'sem-native', 'sem-functional'):
            d = dw[name]
            run.oblige('correspondence:wrapper-' + name, 'correspondence', not d, json.dumps(d[:2]) if d else '')
        run.oblige('checker:wrapper-theorem-instances-on-real-annotations', 'checker', not dw['theorem-instance'],
                   json.dumps(dw['theorem-instance'][:2]) if dw['theorem-instance'] else '')
    cov['function_wrapper'] = wst

    cov['programs'] = stats
    cov['features'] = feats
    cov['failing_classes_seen'] = classes_seen
    cov['streams'] = {'core': n_core, 'rich': n_rich, 's1': n_s1, 'wrap': n_wrap, 'known_witnesses': len(CLASSES), 'workers': nproc}
    cov['search'] = ('tracing backend vs original on %d programs x 6 inputs (every branch traced, every loop body traced out of '
                     'band); Lean execF/execN/exec vs the real runs on the %d programs of the shared fragment'
                     % (stats['programs'], stats['in_fragment']))
    cov['oracle_wall_s'] = round(time.time() - t0, 1)


def replay(run, path):
    with open(path) as f:
        rep = json.load(f)
    if 'case' not in rep:          # a broken obligation without failing input: re-run the whole check
        print(json.dumps(rep, indent=1)[:3000])
        check(run)
        return run.finish()
    case = rep['case']
    print(json.dumps({k: case[k] for k in case if k != 'source'}, indent=1))
    print(case.get('source', ''))
    sys.path.insert(0, common.REPO)
    src = case['source']
    inputs = [tuple(i) for i in case.get('inputs', [case.get('input')])]
    p = progen.Program(c02_gen.PRELUDE + src, inputs, ['replay'], 'c02-replay')
    bad = 0
    with progen.Workspace() as ws:
        c = explore(ws, p)
    if c.conv_error:
        print('conversion error:', c.conv_error)
        bad = 1
    for a, r0, r1, r2 in c.results:
        print(a, 'original', r0, 'default-operators', r1, 'tracing-backend', r2, '' if r0 == r2 else '  <-- differs')
        bad |= r0 != r2
    cl = classify(c.source_fn, c.module_names, c.cf_node, c.annos_of, c.final_fn)
    print('classes:', cl)
    listed = [k for k in common.load_known_findings() if k.get('property') == 'C02']
    known = any(k.get('class') in cl for k in listed)
    if bad and not known:
        print('VIOLATION property=C02 replay=%s' % os.path.relpath(path, common.VERIF))
        return 1
    for k in listed:
        print('KNOWN-FINDING: property=C02 %s' % k['what'])
    return 0
